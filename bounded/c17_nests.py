"""C17 bounded stand-in: NestsForNestedLogit.correlation (nests.py) on the real code.

Bound: choice sets of 2..5 alternatives with unsorted, non-contiguous identifiers, every listed partition into 0..2
nests (+ alternatives alone), nest parameters numbers or Beta parameters (with and without a `parameters` override),
model scale mu in {1.0, 1.3}, names given in the order of the choice set / reversed / rotated / not given
(quick: a fixed subset; thorough: all combinations).
Oracle: corr(i, j) = 1 if i == j; 1 - mu^2 / mu_m^2 (= 1 - 1/mu_m^2 for mu = 1) if i != j share nest m; 0 otherwise;
row/column k carries the name of the k-th alternative of the choice set, so that reading the matrix BY NAME gives the
correlation of the named alternatives.
"""
import itertools
import sys

from c17_common import Recorder, close, tier_seed

CLAUSES = [
    'nests.correlation:within-nest',
    'nests.correlation:across-nests-zero',
    'nests.correlation:diagonal-one',
    'nests.correlation:labels-follow-choice-set',
    'nests.correlation:parameters-override',
]

SETUPS = [
    # choice set, nests as (mu_m, alternatives)
    ([1, 2, 3], [(2.0, [1, 2])]),
    ([3, 1, 2], [(2.0, [1, 2])]),
    ([1, 2], [(1.5, [1, 2])]),
    ([3, 1, 7, 5], [(1.25, [7, 3]), (4.0, [5, 1])]),
    ([10, 4, 6, 2, 8], [(3.0, [2, 4, 6])]),
    ([10, 4, 6, 2, 8], [(1.1, [8, 10]), (2.5, [6, 4, 2])]),
    ([5, 9, 1], []),
    ([2, 1, 0], [(1.0, [0, 2])]),
]


def main():
    from biogeme.expressions import Beta
    from biogeme.nests import NestsForNestedLogit, OneNestForNestedLogit
    tier, _ = tier_seed()
    R = Recorder(CLAUSES)
    quick = tier == 'quick'
    for si, (choice_set, nests) in enumerate(SETUPS):
        n = len(choice_set)
        base_names = {alt: f'alt{alt}' for alt in choice_set}
        orders = {'choice-set order': list(choice_set), 'reversed': list(reversed(choice_set)),
                  'rotated': choice_set[1:] + choice_set[:1], 'sorted': sorted(choice_set), 'none': None}
        for (oname, order), mu, kind in itertools.product(orders.items(), (1.0, 1.3), ('number', 'Beta', 'old-tuple')):
            if quick and (si + len(oname) + int(mu * 10) + len(kind)) % 3 and oname not in ('reversed',):
                continue
            case = {'choice_set': choice_set, 'nests': nests, 'names': oname, 'mu': mu, 'nest_parameter': kind}
            names = None if order is None else {alt: base_names[alt] for alt in order}
            label = (lambda a: str(a)) if names is None else (lambda a: base_names[a])
            try:
                if kind == 'old-tuple':
                    spec = tuple((m, list(alts)) for m, alts in nests)
                elif kind == 'Beta':
                    spec = tuple(OneNestForNestedLogit(Beta(f'mu_{k}', m, 1, 10, 0), list(alts), name=f'n{k}') for k, (m, alts) in enumerate(nests))
                else:
                    spec = tuple(OneNestForNestedLogit(m, list(alts), name=f'n{k}') for k, (m, alts) in enumerate(nests))
                obj = NestsForNestedLogit(list(choice_set), spec)
                df = obj.correlation(alternatives_names=names, mu=mu) if names is not None else obj.correlation(mu=mu)
            except Exception as e:      # noqa
                for c in CLAUSES[:4]:
                    if R.wanted(c):
                        R.case(c)
                        R.fail(c, case, error=f'{type(e).__name__}: {e}'[:300])
                continue
            nest_of = {a: k for k, (_, alts) in enumerate(nests) for a in alts}

            def expected(i, j, scale=None):
                if i == j:
                    return 1.0
                if i in nest_of and nest_of.get(j) == nest_of[i]:
                    m = nests[nest_of[i]][0] if scale is None else scale[nest_of[i]]
                    return 1.0 - (mu * mu) / (m * m)
                return 0.0
            c = 'nests.correlation:labels-follow-choice-set'
            if R.wanted(c):
                R.case(c)
                want = [label(a) for a in choice_set]
                if list(df.index) != want or list(df.columns) != want:
                    wrong = None            # consequence: an entry read by name is the correlation of another pair
                    for i, j in itertools.product(choice_set, repeat=2):
                        try:
                            got = float(df.loc[label(i), label(j)])
                        except Exception:      # noqa
                            continue
                        if not close(got, expected(i, j)):
                            wrong = {'pair': [label(i), label(j)], 'expected': expected(i, j), 'got_by_name': got}
                            break
                    R.fail(c, case, expected_labels=want, index=list(df.index), columns=list(df.columns), consequence=wrong)
                else:
                    for i, j in itertools.product(choice_set, repeat=2):
                        R.case(c)
                        got = float(df.loc[label(i), label(j)])
                        if not close(got, expected(i, j)):
                            R.fail(c, dict(case, pair=[label(i), label(j)]), expected=expected(i, j), got_by_name=got)
            # the numbers, by POSITION in the choice set (independent of the labelling)
            mat = df.to_numpy()
            if mat.shape != (n, n):
                for c in CLAUSES[:3]:
                    if R.wanted(c):
                        R.case(c)
                        R.fail(c, case, shape=list(mat.shape), expected=[n, n])
                continue
            for (pi, i), (pj, j) in itertools.product(enumerate(choice_set), repeat=2):
                if i == j:
                    c = 'nests.correlation:diagonal-one'
                elif i in nest_of and nest_of.get(j) == nest_of[i]:
                    c = 'nests.correlation:within-nest'
                else:
                    c = 'nests.correlation:across-nests-zero'
                if not R.wanted(c):
                    continue
                R.case(c)
                if not (close(mat[pi][pj], expected(i, j)) and mat[pi][pj] == mat[pj][pi]):
                    R.fail(c, dict(case, alternatives=[i, j], positions=[pi, pj]), expected=expected(i, j), got=float(mat[pi][pj]),
                           transposed=float(mat[pj][pi]))
        # nest parameters given as Beta and overridden through `parameters`
        c = 'nests.correlation:parameters-override'
        if R.wanted(c) and nests:
            case = {'choice_set': choice_set, 'nests': nests}
            new = {f'mu_{k}': m + 0.5 + k for k, (m, _) in enumerate(nests)}
            try:
                spec = tuple(OneNestForNestedLogit(Beta(f'mu_{k}', m, 1, 10, 0), list(alts), name=f'n{k}') for k, (m, alts) in enumerate(nests))
                obj = NestsForNestedLogit(list(choice_set), spec)
                mat = obj.correlation(parameters=dict(new)).to_numpy()
                nest_of = {a: k for k, (_, alts) in enumerate(nests) for a in alts}
                for (pi, i), (pj, j) in itertools.product(enumerate(choice_set), repeat=2):
                    R.case(c)
                    if i == j:
                        want = 1.0
                    elif i in nest_of and nest_of.get(j) == nest_of[i]:
                        want = 1.0 - 1.0 / new[f'mu_{nest_of[i]}'] ** 2
                    else:
                        want = 0.0
                    if not close(mat[pi][pj], want):
                        R.fail(c, dict(case, parameters=new, alternatives=[i, j]), expected=want, got=float(mat[pi][pj]))
            except Exception as e:      # noqa
                R.case(c)
                R.fail(c, case, error=f'{type(e).__name__}: {e}'[:300])
    return R.finish()


if __name__ == '__main__':
    sys.exit(main())
