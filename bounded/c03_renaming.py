"""Bounded stand-in for property C03 (parameters are identified by name, never by position).

usage: /venv/bin/python /verif/bounded/c03_renaming.py <quick|thorough> <seed>

For each small logit specification (2-3 alternatives, 2-4 free + 1-2 fixed parameters, bounds on
some), every renaming of a small family (identity, order reversing, names whose alphabetical
order is unrelated to the order of appearance, random) and a reordering of the terms of every sum
and of the alternatives, the real code (BIOGEME / Expression / bioResults) is compared with

  * a numpy log likelihood written directly from the specification (independent oracle), 1e-10;
  * the same quantity under the identity naming (1e-12 for likelihoods, 1e-5 for estimates,
    1e-4 for standard errors / t statistics).

Clauses: log likelihood by BIOGEME.calculate_likelihood(beta_values_dict_to_list(dict)) and by
Expression.get_value_and_derivatives(betas=dict); partial dictionaries override only the named
parameters; fixed parameters keep their value (also when other names are supplied, also after
estimation); bounds attached to the right name (get_bounds_on_beta, id_manager.bounds, results);
free_beta_names sorted and free_betas_values aligned with them; change_init_values by name;
simulate(dict) by name, incomplete dict refused; estimates, standard errors, t statistics attached
to the corresponding names in get_beta_values / get_estimated_parameters; a name used for two kinds
of element is refused with BiogemeError.
One worker subprocess per specification (engine error state is sticky).
"""
import json
import math
import os
import random
import shutil
import subprocess
import sys
import tempfile


def close(a, b, tol):
    a, b = float(a), float(b)
    if a == b:
        return True
    if math.isnan(a) or math.isnan(b):
        return False
    return abs(a - b) <= tol * max(1.0, abs(a), abs(b))


# ------------------------------------------------------------------ specification generator
BOUND_CHOICES = [None, None, (-5.0, 5.0), (None, 4.0), (-3.0, None), (-0.15, 0.2), (-6.0, 7.5)]


def make_spec(rng, idx):
    J = rng.choice([2, 3])
    n_free = rng.randint(2, 4)
    n_fixed = rng.randint(1, 2)
    K = n_free + n_fixed
    status = [0] * n_free + [1] * n_fixed
    rng.shuffle(status)
    params = []
    for k in range(K):
        if status[k] == 0:
            b = rng.choice(BOUND_CHOICES)
            lo, hi = b if b else (None, None)
            init = round(rng.uniform(-0.1, 0.1), 3)
            params.append({'init': init, 'lb': lo, 'ub': hi, 'status': 0})
        else:
            params.append({'init': round(rng.choice([-1, 1]) * rng.uniform(0.2, 0.9), 3), 'lb': None, 'ub': None, 'status': 1})
    # distinct bounds for distinct free parameters whenever possible, so that a mix-up is visible
    free = [k for k in range(K) if status[k] == 0]
    pool = [(-5.0, 5.0), (None, 4.0), (-3.0, None), (-6.0, 7.5)]
    rng.shuffle(pool)
    for j, k in enumerate(free[:rng.randint(1, len(free))]):
        params[k]['lb'], params[k]['ub'] = pool[j % len(pool)]
    if rng.random() < 0.35:
        params[free[0]]['lb'], params[free[0]]['ub'] = (-0.15, 0.2)       # possibly binding
    # utilities: alternative j -> list of (param index, column name or None for a constant)
    cols = []
    utils = {}
    unused = list(range(K))
    rng.shuffle(unused)
    for j in range(1, J + 1):
        nterms = rng.randint(2, 3)
        terms = []
        for t in range(nterms):
            k = unused.pop() if unused else rng.randrange(K)
            col = 'x%d_%d' % (j, t)
            cols.append(col)
            terms.append([k, col])
        utils[str(j)] = terms
    while unused:
        k = unused.pop()
        j = rng.randint(1, J)
        col = 'x%d_%d' % (j, len(utils[str(j)]))
        cols.append(col)
        utils[str(j)].append([k, col])
    # one alternative specific constant on a fixed or free parameter (never on the last alternative)
    if rng.random() < 0.5:
        utils['1'].append([rng.randrange(K), None])
    return {'idx': idx, 'J': J, 'params': params, 'utils': utils, 'cols': cols,
            'N': rng.choice([40, 60, 80]), 'data_seed': rng.randrange(10 ** 6),
            'style': rng.choice(['sum', 'multsum', 'linear'])}


NAME_FAMILIES = ['identity', 'reverse', 'mixed', 'random']


def renaming(spec, family, rng):
    K = len(spec['params'])
    if family == 'identity':
        return ['p%02d' % k for k in range(K)]
    if family == 'reverse':
        return ['p%02d' % (K - 1 - k) for k in range(K)]
    if family == 'mixed':   # alphabetical order has nothing to do with k: capitals, prefixes, digits
        pool = ['b10', 'b2', 'B', 'b', 'beta_time', 'ASC', 'asc', 'Zeta', '_x', 'a1']
        return rng.sample(pool, K)
    names = ['q%02d' % k for k in range(K)]
    rng.shuffle(names)
    return names


# ------------------------------------------------------------------ worker
def worker(payload):
    import numpy as np
    import pandas as pd
    import biogeme.database as db
    from biogeme.biogeme import BIOGEME
    from biogeme.parameters import Parameters
    from biogeme.exceptions import BiogemeError
    from biogeme.expressions import (Beta, Variable, Numeric, bioMultSum, bioLinearUtility, _bioLogLogit,
                                     MonteCarlo, bioDraws, RandomVariable, Integrate, exp, LinearTermTuple)
    spec = payload['spec']
    K = len(spec['params'])
    J = spec['J']
    params = spec['params']
    free_keys = [k for k in range(K) if params[k]['status'] == 0]
    fixed_keys = [k for k in range(K) if params[k]['status'] != 0]
    failures = []
    cases = 0

    def fail(clause, case, expected, got):
        if sum(1 for f_ in failures if f_['clause'] == clause) < 3 and len(failures) < 60:      # three records per clause
            failures.append({'clause': clause, 'case': dict(case, spec=spec['idx'], style=spec['style']),
                             'expected': expected, 'got': got})

    # ---- data and numpy oracle
    nrng = np.random.default_rng(spec['data_seed'])
    N = spec['N']
    data = {c: np.round(nrng.normal(size=N), 3) for c in spec['cols']}
    truth = nrng.uniform(-1, 1, size=K)

    def utilities(theta):
        V = np.zeros((N, J))
        for j in range(1, J + 1):
            for k, col in spec['utils'][str(j)]:
                V[:, j - 1] += theta[k] * (data[col] if col is not None else 1.0)
        return V
    Vt = utilities(truth) + nrng.gumbel(size=(N, J))
    choice = Vt.argmax(axis=1) + 1
    if len(set(choice.tolist())) < J:      # make sure every alternative is chosen at least once
        choice[:J] = np.arange(1, J + 1)
    df = pd.DataFrame(dict(data, choice=choice.astype(float)))

    def oracle_rows(theta):
        V = utilities(theta)
        m = V.max(axis=1, keepdims=True)
        lse = m[:, 0] + np.log(np.exp(V - m).sum(axis=1))
        return V[np.arange(N), choice - 1] - lse

    def oracle_ll(theta):
        return float(oracle_rows(theta).sum())

    init = [p['init'] for p in params]

    def build(names, order_seed):
        """The log likelihood expression under a naming; order_seed != None shuffles terms and alternatives."""
        orng = random.Random(order_seed) if order_seed is not None else None
        def beta(k):
            p = params[k]
            return Beta(names[k], p['init'], p['lb'], p['ub'], p['status'])
        V = {}
        alts = list(range(1, J + 1))
        if orng:
            orng.shuffle(alts)
        for j in alts:
            terms = list(spec['utils'][str(j)])
            if orng:
                orng.shuffle(terms)
            # a Beta repeated inside one bioLinearUtility is a known engine defect (see linrep check): kept out of the
            # renaming cases so that it does not mask anything else
            if spec['style'] == 'linear' and all(col is not None for _, col in terms) \
                    and len({k for k, _ in terms}) == len(terms):
                V[j] = bioLinearUtility([LinearTermTuple(beta=beta(k), x=Variable(col)) for k, col in terms])
            else:
                pieces = [beta(k) * Variable(col) if col is not None else beta(k) for k, col in terms]
                if spec['style'] == 'multsum':
                    V[j] = bioMultSum(pieces)
                else:
                    e = pieces[0]
                    for q in pieces[1:]:
                        e = e + q
                    V[j] = e
        return _bioLogLogit(V, None, Variable('choice'))

    def new_params():
        p = Parameters()
        for n, v, s in [('generate_html', False, 'Output'), ('generate_pickle', False, 'Output'),
                        ('save_iterations', False, 'Estimation'), ('number_of_threads', 1, 'MultiThreading'),
                        ('tolerance', 1e-9, 'SimpleBounds'), ('steptol', 1e-11, 'SimpleBounds'),
                        ('only_robust_stats', True, 'Output')]:
            p.set_value(n, v, section=s)
        return p

    reference = None
    for variant in payload['variants']:
        names = variant['names']
        case = {'renaming': variant['family'], 'names': names, 'order_seed': variant['order_seed']}
        cases += 1
        try:
            d = db.Database('c03', df.copy())
            ll = build(names, variant['order_seed'])
            bg = BIOGEME(d, ll, parameters=new_params())
            bg.modelName = 'c03'
            free_sorted = sorted(names[k] for k in free_keys)
            key_of = {names[k]: k for k in range(K)}
            # --- numbering: sorted names, values and bounds aligned with the names
            if list(bg.free_beta_names) != free_sorted:
                fail('free_beta_names == sorted names of the free parameters', case, free_sorted, list(bg.free_beta_names))
                continue
            got_init = list(bg.id_manager.free_betas_values)
            want_init = [init[key_of[n]] for n in free_sorted]
            if got_init != want_init:
                fail('free_betas_values aligned with the sorted names', case, want_init, got_init)
            for n in free_sorted:
                want_b = (params[key_of[n]]['lb'], params[key_of[n]]['ub'])
                got_b = tuple(bg.get_bounds_on_beta(n))
                got_b2 = tuple(bg.id_manager.bounds[bg.id_manager.free_betas.indices[n]])
                if got_b != want_b or got_b2 != want_b:
                    fail('bounds attached to the corresponding parameter', dict(case, name=n), list(want_b), [list(got_b), list(got_b2)])
            fixed_sorted = sorted(names[k] for k in fixed_keys)
            if list(bg.id_manager.fixed_betas.names) != fixed_sorted or \
                    list(bg.id_manager.fixed_betas_values) != [init[key_of[n]] for n in fixed_sorted]:
                fail('fixed parameters keep exactly their value', case, [init[key_of[n]] for n in fixed_sorted],
                     list(bg.id_manager.fixed_betas_values))
            for n in fixed_sorted:
                try:
                    bg.get_bounds_on_beta(n)
                    fail('get_bounds_on_beta refuses a name that is not a free parameter', dict(case, name=n), 'BiogemeError', 'value')
                except BiogemeError:
                    pass
            # --- log likelihood at values given by name
            theta = list(init)
            for k, v in zip(free_keys, payload['theta']):
                theta[k] = v
            full = {names[k]: theta[k] for k in free_keys}
            items = list(full.items())
            random.Random(variant['order_seed'] or 1).shuffle(items)
            x = bg.beta_values_dict_to_list(dict(items))
            if x != [theta[key_of[n]] for n in free_sorted]:
                fail('beta_values_dict_to_list orders the values by name', case, [theta[key_of[n]] for n in free_sorted], x)
            want = oracle_ll(theta)
            got = bg.calculate_likelihood(x, scaled=False)
            if not close(got, want, 1e-10):
                fail('calculate_likelihood at named values == numpy log likelihood', case, want, float(got))
            got2 = build(names, variant['order_seed']).get_value_and_derivatives(
                betas=dict(items), database=d, aggregation=True, gradient=False, hessian=False, bhhh=False, prepare_ids=True).function
            if not close(got2, want, 1e-10):
                fail('get_value_and_derivatives(betas=dict) == numpy log likelihood', case, want, float(got2))
            # --- partial dictionaries override only the named parameters
            for sub in payload['subsets']:
                cases += 1
                keys = [free_keys[i] for i in sub if i < len(free_keys)]
                part = {names[k]: theta[k] for k in keys}
                th = list(init)
                for k in keys:
                    th[k] = theta[k]
                w = oracle_ll(th)
                e = build(names, variant['order_seed'])
                out = e.get_value_and_derivatives(betas=part, database=d, aggregation=True, gradient=True, hessian=False,
                                                  bhhh=False, prepare_ids=True, named_results=True)
                if not close(out.function, w, 1e-10):
                    fail('partial dictionary overrides only the parameters it names', dict(case, named=sorted(part)), w, float(out.function))
                # change_init_values by name on a fresh object
                bg2 = BIOGEME(d, build(names, variant['order_seed']), parameters=new_params())
                bg2.change_init_values(part)
                if list(bg2.id_manager.free_betas_values) != [th[key_of[n]] for n in free_sorted]:
                    fail('change_init_values updates exactly the named parameters', dict(case, named=sorted(part)),
                         [th[key_of[n]] for n in free_sorted], list(bg2.id_manager.free_betas_values))
                g = bg2.calculate_init_likelihood()
                if not close(g, w, 1e-10):
                    fail('change_init_values updates exactly the named parameters (likelihood)', dict(case, named=sorted(part)), w, float(g))
            # --- dictionaries with extra names: fixed parameters keep exactly their value
            extra = dict(full)
            for k in fixed_keys:
                extra[names[k]] = 123.456
            extra['not_a_parameter'] = -7.0
            x2 = bg.beta_values_dict_to_list(extra)
            if x2 != x:
                fail('extra names in the dictionary do not disturb the named values', case, x, x2)
            bgs = BIOGEME(d, {'v': build(names, variant['order_seed'])}, parameters=new_params())
            sim = bgs.simulate(extra)
            wr = oracle_rows(theta)
            if len(sim) != N or not all(close(a, b, 1e-10) for a, b in zip(sim['v'].tolist(), wr.tolist())):
                fail('simulate(dict): values by name, fixed parameters keep exactly their value', case,
                     wr[:3].tolist(), sim['v'].tolist()[:3])
            if len(free_keys) > 1:
                inc = dict(full)
                del inc[names[free_keys[-1]]]
                try:
                    bgs.simulate(inc)
                    fail('simulate refuses an incomplete dictionary', dict(case, missing=names[free_keys[-1]]), 'BiogemeError', 'values')
                except BiogemeError:
                    pass
            # --- estimation: estimates / statistics attached to the corresponding name
            cases += 1
            r = bg.estimate()
            est = r.get_beta_values()
            if sorted(est) != free_sorted or list(r.data.betaNames) != free_sorted:
                fail('results list exactly the free parameters, by sorted name', case, free_sorted, [sorted(est), list(r.data.betaNames)])
                continue
            # a selection of names, in ANY order (reversed, rotated, with a repetition), gets each name's own estimate
            for sel in (list(reversed(free_sorted)), free_sorted[1:] + free_sorted[:1], free_sorted[-1:] + free_sorted[:1] + free_sorted[-1:]):
                got_sel = r.get_beta_values(list(sel))
                if any(float(got_sel[n]) != float(est[n]) for n in sel) or set(got_sel) != set(sel):
                    fail('get_beta_values(names in any order): every name gets its own estimate', dict(case, requested=list(sel)),
                         {n: float(est[n]) for n in sel}, {k: float(v) for k, v in got_sel.items()})
                    break
            th_hat = list(init)
            for n, v in est.items():
                th_hat[key_of[n]] = float(v)
            if not close(r.data.logLike, oracle_ll(th_hat), 1e-9):
                fail('final log likelihood == numpy log likelihood at the reported estimates (fixed unchanged)', case,
                     oracle_ll(th_hat), float(r.data.logLike))
            for i, b in enumerate(r.data.betas):
                kk = key_of[r.data.betaNames[i]]
                if b.name != r.data.betaNames[i] or (b.lb, b.ub) != (params[kk]['lb'], params[kk]['ub']) \
                        or float(b.value) != float(est[b.name]):
                    fail('results: name, value and bounds of one parameter stay together', dict(case, name=b.name),
                         [r.data.betaNames[i], params[kk]['lb'], params[kk]['ub']], [b.name, b.lb, b.ub])
                lo, hi = params[kk]['lb'], params[kk]['ub']
                if (lo is not None and b.value < lo - 1e-9) or (hi is not None and b.value > hi + 1e-9):
                    fail('estimate within the bounds of its own parameter', dict(case, name=b.name), [lo, hi], float(b.value))
            tab = r.get_estimated_parameters()
            if list(tab.index) != free_sorted:
                fail('get_estimated_parameters rows are the sorted names', case, free_sorted, list(tab.index))
            stats = {}
            for n in free_sorted:
                if not close(tab.loc[n, 'Value'], est[n], 1e-12):
                    fail('get_estimated_parameters Value attached to its name', dict(case, name=n), float(est[n]), float(tab.loc[n, 'Value']))
                stats[key_of[n]] = [float(est[n]), float(tab.loc[n, 'Rob. Std err']), float(tab.loc[n, 'Rob. t-test'])]
            # fixed parameters unchanged in the expression after estimation
            vals_after = {}
            ll_betas = bg.log_like.dict_of_elementary_expression
            from biogeme.expressions import TypeOfElementaryExpression as T
            for n, bexp in bg.log_like.dict_of_elementary_expression(T.FIXED_BETA).items():
                if bexp.initValue != init[key_of[n]]:
                    fail('fixed parameters keep exactly their value after estimation', dict(case, name=n), init[key_of[n]], bexp.initValue)
            this = {'ll_theta': float(got), 'll_hat': float(r.data.logLike), 'stats': stats}
            if reference is None:
                reference = this
            else:
                if not close(this['ll_theta'], reference['ll_theta'], 1e-12):
                    fail('log likelihood unchanged by renaming / reordering', case, reference['ll_theta'], this['ll_theta'])
                if not close(this['ll_hat'], reference['ll_hat'], 1e-8):
                    fail('maximum log likelihood unchanged by renaming / reordering', case, reference['ll_hat'], this['ll_hat'])
                for k in free_keys:
                    a, b = reference['stats'][k], this['stats'][k]
                    if not close(a[0], b[0], 1e-5):
                        fail('estimate attached to the corresponding parameter', dict(case, key=k, name=names[k]), a[0], b[0])
                    active = any(bnd is not None and abs(a[0] - bnd) < 1e-7 for bnd in (params[k]['lb'], params[k]['ub']))
                    if not active and (not close(a[1], b[1], 1e-4) or not (abs(a[2] - b[2]) <= 1e-4 * max(1.0, abs(a[2])))):
                        fail('standard error / t statistic attached to the corresponding parameter',
                             dict(case, key=k, name=names[k]), a[1:], b[1:])
        except Exception as e:
            import traceback
            fail('valid specification accepted', case, 'values',
                 '%s: %s | %s' % (type(e).__name__, str(e)[:300], ' / '.join(traceback.format_exc().strip().splitlines()[-4:-1])[:300]))
            break
    return {'cases': cases, 'failures': failures}


def dup_worker():
    """A name used for two different kinds of element is refused with BiogemeError (both entry points)."""
    import pandas as pd
    import biogeme.database as db
    from biogeme.biogeme import BIOGEME
    from biogeme.parameters import Parameters
    from biogeme.exceptions import BiogemeError
    from biogeme.expressions import (Beta, Variable, MonteCarlo, bioDraws, RandomVariable, Integrate, exp, log)
    from biogeme.distributions import normalpdf
    failures = []
    cases = 0
    df = pd.DataFrame({'x': [1.0, 2.0, 0.5], 'y': [0.3, -0.2, 0.9], 'b_var': [1.0, 1.5, 2.0]})
    free = lambda n, v=0.1: Beta(n, v, None, None, 0)
    fixed = lambda n, v=0.2: Beta(n, v, None, None, 1)
    X, Y = (lambda: Variable('x')), (lambda: Variable('y'))
    specs = {
        'free Beta and fixed Beta': lambda: free('dup') * X() + fixed('dup') * Y(),
        'fixed Beta and free Beta (other order)': lambda: fixed('dup') * X() + free('dup') * Y() + free('a'),
        'Beta and data column': lambda: free('b_var') * X() + Variable('b_var'),
        'fixed Beta and data column (column not used in the formula)': lambda: fixed('y') * X(),
        'free Beta and unused data column': lambda: free('y') * X(),
        'Beta and draws': lambda: free('dup') * X() + MonteCarlo(bioDraws('dup', 'UNIFORM') * Y()),
        'fixed Beta and draws': lambda: MonteCarlo(bioDraws('dup', 'NORMAL') * Y() + fixed('dup')),
        'Beta and integration variable': lambda: free('dup') + Integrate(exp(-RandomVariable('dup') * RandomVariable('dup')) * X(), 'dup'),
        'draws and integration variable': lambda: MonteCarlo(bioDraws('dup', 'UNIFORM')) + Integrate(
            normalpdf(RandomVariable('dup')), 'dup') + free('a') * X(),
        'draws and data column': lambda: MonteCarlo(bioDraws('x', 'UNIFORM') + free('a')) * Y(),
        'integration variable and data column': lambda: Integrate(normalpdf(RandomVariable('y')), 'y') * X() + free('a'),
        'duplicate deep inside a formula': lambda: log(exp(free('a') * X()) + exp((free('c') + fixed('a')) * Y())),
    }
    ok_specs = {
        'same free Beta twice': lambda: free('a') * X() + free('a') * Y(),
        'distinct names': lambda: free('a') * X() + fixed('c') * Y() + MonteCarlo(bioDraws('d', 'UNIFORM')) + Integrate(
            normalpdf(RandomVariable('w')), 'w'),
    }
    for label, mk in specs.items():
        for entry in ('expression', 'biogeme'):
            cases += 1
            try:
                d = db.Database('dup', df.copy())
                if entry == 'expression':
                    got = mk().get_value_c(database=d, number_of_draws=3, prepare_ids=True)
                else:
                    p = Parameters()
                    p.set_value('number_of_draws', 3, section='MonteCarlo')
                    bg = BIOGEME(d, mk(), parameters=p)
                    got = bg.calculate_likelihood(bg.id_manager.free_betas_values, scaled=False)
                failures.append({'clause': 'a name used for two kinds of element is refused', 'case': {'kinds': label, 'entry': entry},
                                 'expected': 'BiogemeError', 'got': repr(got)[:200]})
                break     # a number was produced: fine to continue, engine not poisoned
            except BiogemeError:
                pass
            except Exception as e:
                failures.append({'clause': 'a name used for two kinds of element is refused', 'case': {'kinds': label, 'entry': entry},
                                 'expected': 'BiogemeError', 'got': '%s: %s' % (type(e).__name__, str(e)[:200])})
                if isinstance(e, RuntimeError):
                    return {'cases': cases, 'failures': failures}
    # --- reordering the terms of a bioLinearUtility in which one parameter appears twice
    if os.environ.get('C03_SKIP_LINREP') != '1':
        from biogeme.expressions import bioLinearUtility, LinearTermTuple
        got = {}
        for order in ([0, 1, 2], [1, 0, 2], [2, 1, 0]):
            cases += 1
            try:
                d = db.Database('lin', df.copy())
                terms = [LinearTermTuple(beta=free('a', 0.3), x=Variable('x')), LinearTermTuple(beta=free('a', 0.3), x=Variable('y')),
                         LinearTermTuple(beta=free('c', -0.2), x=Variable('b_var'))]
                e = bioLinearUtility([terms[i] for i in order])
                r = e.get_value_and_derivatives(database=d, aggregation=False, gradient=True, hessian=False, bhhh=False,
                                                prepare_ids=True, named_results=True)
                want_f = [0.3 * (x + y) - 0.2 * z for x, y, z in zip(df['x'], df['y'], df['b_var'])]
                want_a = [x + y for x, y in zip(df['x'], df['y'])]
                want_c = list(df['b_var'])
                gf = [float(v) for v in r.functions]
                ga = [float(g['a']) for g in r.gradients]
                gc = [float(g['c']) for g in r.gradients]
                if not (all(close(u, v, 1e-12) for u, v in zip(gf, want_f)) and all(close(u, v, 1e-12) for u, v in zip(ga, want_a))
                        and all(close(u, v, 1e-12) for u, v in zip(gc, want_c))):
                    failures.append({'clause': 'bioLinearUtility with one parameter in two terms: value and derivatives independent of the order of the terms',
                                     'case': {'terms': 'a*x + a*y + c*b_var', 'order': order, 'x': list(df['x']), 'y': list(df['y'])},
                                     'expected': {'f': want_f, 'd/da': want_a, 'd/dc': want_c}, 'got': {'f': gf, 'd/da': ga, 'd/dc': gc}})
                    break
            except Exception as e:
                failures.append({'clause': 'bioLinearUtility with one parameter in two terms: value and derivatives independent of the order of the terms',
                                 'case': {'order': order}, 'expected': 'values', 'got': '%s: %s' % (type(e).__name__, str(e)[:200])})
                break
    for label, mk in ok_specs.items():
        cases += 1
        try:
            d = db.Database('dup', df.copy())
            mk().get_value_c(database=d, number_of_draws=3, prepare_ids=True)
        except Exception as e:
            failures.append({'clause': 'a specification without duplicate kinds is accepted', 'case': {'kinds': label},
                             'expected': 'values', 'got': '%s: %s' % (type(e).__name__, str(e)[:200])})
    return {'cases': cases, 'failures': failures}


def main():
    if len(sys.argv) >= 3 and sys.argv[1] == '--worker':
        if sys.argv[2] == 'dup':
            res = dup_worker()
        else:
            with open(sys.argv[2]) as f:
                res = worker(json.load(f))
        print('\n' + json.dumps(res))
        return 0
    tier = sys.argv[1] if len(sys.argv) > 1 else 'quick'
    seed = int(sys.argv[2]) if len(sys.argv) > 2 else 0
    rng = random.Random(seed * 15485863 + (21 if tier == 'quick' else 22))
    n_specs = 6 if tier == 'quick' else 20
    tmp = tempfile.mkdtemp(prefix='c03_')
    cases = 0
    failures = []
    try:
        jobs = []
        for i in range(n_specs):
            spec = make_spec(rng, i)
            spec['style'] = ['sum', 'multsum', 'linear'][i % 3]
            variants = [{'family': 'identity', 'names': renaming(spec, 'identity', rng), 'order_seed': None}]
            fams = ['identity', 'reverse', 'mixed', 'random'] + (['random', 'mixed'] if tier == 'thorough' else [])
            for fam in fams:
                variants.append({'family': fam, 'names': renaming(spec, fam, rng), 'order_seed': rng.randrange(1, 10 ** 6)})
            n_free = sum(1 for p in spec['params'] if p['status'] == 0)
            subsets = [[], [0], [n_free - 1]] + ([[0, n_free - 1]] if n_free > 2 else [])
            payload = {'spec': spec, 'variants': variants, 'subsets': subsets,
                       'theta': [round(rng.uniform(-0.14, 0.19), 4) for _ in range(n_free)]}
            path = os.path.join(tmp, 'job%d.json' % i)
            with open(path, 'w') as f:
                json.dump(payload, f)
            jobs.append(path)
        jobs.append('dup')
        from concurrent.futures import ThreadPoolExecutor

        def run(path):
            pr = subprocess.run([sys.executable, os.path.abspath(__file__), '--worker', path],
                                capture_output=True, text=True, cwd=tmp, timeout=570)
            lines = [ln for ln in pr.stdout.strip().splitlines() if ln.strip()]
            try:
                return json.loads(lines[-1])
            except Exception:
                return {'cases': 1, 'failures': [{'clause': 'worker crashed', 'case': {'job': os.path.basename(path)},
                                                  'expected': 'json', 'got': (pr.stderr or pr.stdout)[-600:]}]}
        with ThreadPoolExecutor(max_workers=min(8, os.cpu_count() or 2)) as ex:
            for res in ex.map(run, jobs):
                cases += res['cases']
                failures += res['failures']
    finally:
        shutil.rmtree(tmp, ignore_errors=True)
    bound = ('%d random logit specifications (2-3 alternatives, 2-4 free + 1-2 fixed parameters, bounds incl. one-sided and '
             'possibly binding, styles +/bioMultSum/bioLinearUtility, 40-80 observations) x %d namings (identity, reversed, '
             'alphabetically unrelated, random) with shuffled terms and alternatives x partial dictionaries {}, {first}, {last}, '
             '{first,last}; 12 duplicate-kind specifications x 2 entry points'
             % (n_specs, 5 if tier == 'quick' else 7))
    print(json.dumps({'cases': cases, 'bound': bound, 'failures': failures[:60]}))
    return 0 if not failures else 1


if __name__ == '__main__':
    sys.exit(main())
