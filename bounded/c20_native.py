"""C20 bounded stand-ins on the real code (/venv/bin/python).

usage:
  c20_native.py wrappers <cases> <seed> <expected_mode>
      semantics of the two wrappers of biogeme/deprecated.py on generated callables (the VC generator cannot take
      closures with *args/**kwargs): forwarding by identity, alias body never run, exactly one DeprecationWarning naming
      the replacement, keyword renaming, and the dispatch mode observed on a synthetic hierarchy agrees with the mode
      the static analysis read off the AST (captured | receiver).
  c20_native.py aliases <quick|thorough> <seed> <skip.json | ->
      every alias of the package found at run time (attribute __deprecated__) that can be called without heavy set-up
      is called next to its replacement on two identically built receivers/arguments: same outcome (value or exception),
      same state of the receiver afterwards, same files written, and the old name adds exactly one DeprecationWarning
      `<old> is deprecated; use <new> instead.`.  (alias, receiver class) pairs listed in skip.json are the ones the
      static dispatch obligations already report: a mismatch there is counted as `confirmed_static`, not as a failure.
Prints ONE json line {"cases": n, "failures": [...], ...}; exit 0/1.
"""
import contextlib
import importlib
import inspect
import io
import json
import os
import pkgutil
import random
import shutil
import sys
import tempfile
import warnings


# =============================================================================================
# part 1: the wrappers on generated callables
def wrapper_cases(n, seed, expected_mode):
    from biogeme.deprecated import deprecated, deprecated_parameters
    rng = random.Random(seed)
    fails = []
    cases = 0

    def fail(clause, **kw):
        if len(fails) < 20:
            fails.append(dict(clause=clause, **kw))
    names = ['a', 'b', 'c', 'd', 'self', 'new_func', 'old_func', 'args', 'kwargs', 'msg', 'func', 'name', 'value']
    for i in range(n):
        nargs = rng.randint(0, 4)
        kwn = rng.sample(names, rng.randint(0, 4))
        args = tuple(object() for _ in range(nargs))
        kwargs = {k: object() for k in kwn}
        before = dict(kwargs)
        rec, executed = [], []
        ret = object()
        boom = ValueError('boom') if i % 5 == 4 else None

        def replacement_fn(*a, **k):
            rec.append((a, k))
            if boom is not None:
                raise boom
            return ret

        @deprecated(replacement_fn)
        def oldName(*a, **k):
            executed.append(1)
            return 'OLD BODY'
        cases += 1
        with warnings.catch_warnings(record=True) as w:
            warnings.simplefilter('always')
            try:
                r = oldName(*args, **kwargs)
                exc = None
            except BaseException as e:   # noqa
                r, exc = None, e
        desc = f'{nargs} positional, keywords {sorted(kwn)}'
        if boom is None and (exc is not None or r is not ret):
            fail('deprecated:returns-result-of-replacement', case=desc, got=repr(exc or r)[:100])
        if boom is not None and exc is not boom:
            fail('deprecated:propagates-exception', case=desc, got=repr(exc or r)[:100])
        if len(rec) != 1:
            fail('deprecated:calls-replacement-once', case=desc, calls=len(rec))
        else:
            a, k = rec[0]
            if len(a) != len(args) or any(x is not y for x, y in zip(a, args)):
                fail('deprecated:positional-forwarded-unchanged', case=desc)
            if set(k) != set(kwargs) or any(k[q] is not kwargs[q] for q in kwargs):
                fail('deprecated:keywords-forwarded-unchanged', case=desc, got=sorted(k))
        if executed:
            fail('deprecated:alias-body-never-run', case=desc)
        if kwargs != before:
            fail('deprecated:caller-dict-untouched', case=desc)
        dw = [x for x in w if issubclass(x.category, DeprecationWarning)]
        if len(w) != 1 or len(dw) != 1:
            fail('deprecated:exactly-one-warning', case=desc, warnings=[str(x.message)[:80] for x in w])
        else:
            m = str(dw[0].message)
            if 'oldName' not in m or 'replacement_fn' not in m:
                fail('deprecated:warning-names-replacement', case=desc, message=m)
        if oldName.__name__ != 'oldName' or getattr(oldName, '__deprecated__', None) is not True \
                or getattr(oldName, '__newname__', None) != 'replacement_fn':
            fail('deprecated:wrapper-attributes', case=desc)
    # ---- dispatch on a synthetic hierarchy
    class A:
        def new_m(self, x, y=0):
            return ('A', x, y)

        @deprecated(new_m)
        def oldM(self, x, y=0):
            pass

    class B(A):
        def new_m(self, x, y=0):
            return ('B', x, y)

    class C(B):
        pass
    with warnings.catch_warnings():
        warnings.simplefilter('ignore')
        cases += 4
        if A().oldM(1, y=2) != ('A', 1, 2):
            fail('deprecated:method-on-owner', got=repr(A().oldM(1, y=2)))
        rb, rc = B().oldM(1, y=2), C().oldM(3)
        observed = 'receiver' if (rb, rc) == (('B', 1, 2), ('B', 3, 0)) else 'captured' if (rb, rc) == (('A', 1, 2), ('A', 3, 0)) else 'other'
        if A.oldM(B(), 5) != (('B' if observed == 'receiver' else 'A'), 5, 0):
            fail('deprecated:unbound-call-consistent', got=repr(A.oldM(B(), 5)))
        if expected_mode in ('captured', 'receiver') and observed != expected_mode:
            fail('deprecated:mode-agrees-with-static-analysis', static=expected_mode, observed=observed, got=[repr(rb), repr(rc)])
        # a module-level alias must never be re-routed to a method of its first argument

        def new_f(o, z=1):
            return ('function', z)

        class O:
            def new_f(self, z=1):
                return ('method', z)

        @deprecated(new_f)
        def oldF(o, z=1):
            pass
        cases += 1
        if oldF(O(), z=4) != ('function', 4):
            fail('deprecated:function-alias-not-rerouted', got=repr(oldF(O(), z=4)))
    # ---- deprecated_parameters
    pool = ['alpha', 'beta', 'gamma', 'delta', 'eps']
    for i in range(n):
        olds = rng.sample(['oldA', 'oldB', 'oldC', 'oldD'], rng.randint(0, 4))
        table = {o: (None if rng.random() < 0.25 else rng.choice(pool)) for o in olds}
        # avoid two obsolete names landing on the same new keyword together with the new keyword itself
        used_old = [o for o in olds if rng.random() < 0.7]
        targets = {table[o] for o in used_old if table[o]}
        direct = [p for p in pool if p not in targets and rng.random() < 0.4]
        # two used obsolete names with the same target: later one wins, still a legal call -> skip those for determinism
        if len({table[o] for o in used_old if table[o]}) != len([o for o in used_old if table[o]]):
            continue
        nargs = rng.randint(0, 3)
        args = tuple(object() for _ in range(nargs))
        kwargs = {o: object() for o in used_old}
        kwargs.update({p: object() for p in direct})
        items = list(kwargs.items())
        rng.shuffle(items)
        kwargs = dict(items)
        before = dict(kwargs)
        table_before = dict(table)
        rec = []
        ret = object()

        @deprecated_parameters(obsolete_params=table)
        def fn(*a, **k):
            rec.append((a, k))
            return ret
        cases += 1
        with warnings.catch_warnings(record=True) as w:
            warnings.simplefilter('always')
            r = fn(*args, **kwargs)
        desc = f'table {table}, call keywords {sorted(kwargs)}, {nargs} positional'
        want = {}
        for k_, v_ in before.items():
            if k_ in table:
                if table[k_]:
                    want[table[k_]] = v_
            else:
                want[k_] = v_
        if r is not ret or len(rec) != 1:
            fail('deprecated_parameters:calls-function-once-returns-its-result', case=desc)
            continue
        a, k = rec[0]
        if len(a) != len(args) or any(x is not y for x, y in zip(a, args)):
            fail('deprecated_parameters:positional-untouched', case=desc)
        if set(k) != set(want) or any(k[q] is not want[q] for q in want):
            fail('deprecated_parameters:keywords-renamed', case=desc, got=sorted(k), want=sorted(want))
        if kwargs != before or table != table_before:
            fail('deprecated_parameters:inputs-untouched', case=desc)
        if len(w) != len(used_old) or any(not issubclass(x.category, DeprecationWarning) for x in w):
            fail('deprecated_parameters:one-warning-per-obsolete-keyword', case=desc, warnings=[str(x.message)[:60] for x in w])
        for o in used_old:
            if not any(f"'{o}'" in str(x.message) and (table[o] is None or f"'{table[o]}=" in str(x.message)) for x in w):
                fail('deprecated_parameters:warning-names-both-keywords', case=desc, keyword=o)
        if fn.__name__ != 'fn':
            fail('deprecated_parameters:wraps', case=desc)
    return cases, fails


# =============================================================================================
# part 2: every alias next to its replacement
def canon(x, depth=0, seen=None):
    """Comparable, printable image of a value (results, receivers after the call)."""
    import numpy as np
    import pandas as pd
    seen = seen if seen is not None else set()
    if x is None or isinstance(x, (bool, int, str)):
        return x
    if isinstance(x, bytes):
        return 'bytes:' + x.decode('latin1')
    if isinstance(x, float):
        return 'nan' if x != x else x
    if isinstance(x, (np.floating, np.integer, np.bool_)):
        return canon(x.item(), depth, seen)
    if isinstance(x, np.ndarray):
        return ['ndarray', list(x.shape), [canon(v, depth + 1, seen) for v in x.ravel().tolist()[:400]]]
    if isinstance(x, pd.DataFrame):
        return ['DataFrame', [str(c) for c in x.columns], [str(i) for i in x.index[:50]],
                [canon(v, depth + 1, seen) for v in x.to_numpy().ravel().tolist()[:600]]]
    if isinstance(x, pd.Series):
        return ['Series', [str(i) for i in x.index[:50]], [canon(v, depth + 1, seen) for v in x.tolist()[:400]]]
    if isinstance(x, (list, tuple)):
        return [type(x).__name__] + [canon(v, depth + 1, seen) for v in list(x)[:200]]
    if isinstance(x, (set, frozenset)):
        return ['set'] + sorted((canon(v, depth + 1, seen) for v in x), key=repr)
    if isinstance(x, dict):
        return ['dict'] + [[canon(k, depth + 1, seen), canon(v, depth + 1, seen)] for k, v in list(x.items())[:200]]
    if callable(x) and not hasattr(x, '__dict__'):
        return ['callable', getattr(x, '__name__', type(x).__name__)]
    if inspect.isfunction(x) or inspect.ismethod(x) or inspect.isbuiltin(x) or inspect.isclass(x):
        return ['callable', getattr(x, '__qualname__', str(type(x)))]
    cls = type(x).__name__
    try:
        from biogeme.expressions import Expression
        if isinstance(x, Expression):
            txt = str(x)
            if depth >= 2 or id(x) in seen:
                return [cls, txt]
            seen.add(id(x))
            d = {k: canon(v, depth + 1, seen) for k, v in sorted(vars(x).items())
                 if k not in ('children', 'parent', 'id_manager') and not k.startswith('_')}
            d['id_manager?'] = getattr(x, 'id_manager', None) is not None
            return [cls, txt, d]
    except Exception:   # noqa
        pass
    if depth >= 3 or id(x) in seen:
        return [cls]
    seen.add(id(x))
    if hasattr(x, '__dict__'):
        return [cls, {k: canon(v, depth + 1, seen) for k, v in sorted(vars(x).items()) if not k.startswith('__')}]
    if hasattr(x, '_asdict'):
        return [cls, canon(x._asdict(), depth + 1, seen)]
    r = repr(x)
    return [cls, r if ' at 0x' not in r else '']


def mask(s):
    """date/time stamps of the reports"""
    import re
    if isinstance(s, str):
        s = re.sub(r'\d{4}-\d{2}-\d{2} \d{2}:\d{2}:\d{2}(\.\d+)?', '<T>', s)
        s = re.sub(r'\d+:\d{2}:\d{2}(\.\d+)?', '<T>', s)
        s = re.sub(r'datetime\.timedelta\([^)]*\)', '<T>', s)
        s = re.sub(r'\b\d{12,}\b', 'ID', s)           # object identities inside expression signatures
        s = re.sub(r' at 0x[0-9a-f]+', '', s)
        return s
    if isinstance(s, list):
        return [mask(v) for v in s]
    if isinstance(s, dict):
        return {k: mask(v) for k, v in s.items()}
    return s


def run_one(build, name, args_builder):
    """build() -> (callable owner, receiver or None); calls owner.<name>(*args) in a fresh temp dir with fixed seeds."""
    import numpy as np
    work = tempfile.mkdtemp(prefix='c20-')
    cwd = os.getcwd()
    os.chdir(work)
    out = {}
    try:
        np.random.seed(20241)
        random.seed(20241)
        target, receiver = build()
        args, kwargs = args_builder()
        fn = getattr(target, name)
        buf = io.StringIO()
        with warnings.catch_warnings(record=True) as w:
            warnings.simplefilter('always')
            with contextlib.redirect_stdout(buf):
                try:
                    r = fn(*args, **kwargs)
                    out['outcome'] = ['value', mask(canon(r))]
                except Exception as e:   # noqa
                    out['outcome'] = ['raise', type(e).__name__, mask(str(e))[:300]]
        out['stdout'] = mask(buf.getvalue())[:2000]
        out['warnings'] = sorted((x.category.__name__, str(x.message)) for x in w)
        out['receiver'] = mask(canon(receiver)) if receiver is not None else None
        out['args_after'] = mask(canon(list(args)))
        files = {}
        for fn_ in sorted(os.listdir(work)):
            p = os.path.join(work, fn_)
            if os.path.isfile(p):
                with open(p, 'rb') as f:
                    raw = f.read()
                try:
                    files[fn_] = mask(raw.decode('utf-8'))[:20000]
                except UnicodeDecodeError:
                    files[fn_] = f'<{len(raw)} bytes>'
        out['files'] = files
    finally:
        os.chdir(cwd)
        shutil.rmtree(work, ignore_errors=True)
    return out


def compare(old_name, new_name, o, n):
    """list of differences between the outcome of the alias and of the replacement"""
    diffs = []
    for key in ('outcome', 'stdout', 'receiver', 'args_after', 'files'):
        if o[key] != n[key]:
            a, b = json.dumps(o[key], default=str), json.dumps(n[key], default=str)
            i = next((i for i, (x, y) in enumerate(zip(a, b)) if x != y), min(len(a), len(b)))
            diffs.append({'what': key, 'old': a[max(0, i - 60):i + 120], 'new': b[max(0, i - 60):i + 120]})
    expected = ('DeprecationWarning', f'{old_name} is deprecated; use {new_name} instead.')
    wo, wn = list(o['warnings']), list(n['warnings'])
    extra = list(wo)
    for x in wn:
        if x in extra:
            extra.remove(x)
    missing = [x for x in wn if wo.count(x) < wn.count(x)]
    if extra != [expected] or missing:
        diffs.append({'what': 'warnings', 'old': wo[:4], 'new': wn[:4], 'expected_extra': expected})
    return diffs


# ---------------------------------------------------------------------------------------------
def make_df(panel=False):
    import pandas as pd
    return pd.DataFrame({
        'id': [1, 1, 2, 2, 3, 3] if panel else [1, 2, 3, 4, 5, 6],
        'x': [1.0, 2.0, 3.0, 4.0, 5.0, 600.0],
        'y': [0.5, 0.25, 0.75, 1.5, 2.5, 3.5],
        'g': [1, 1, 2, 2, 2, 3],
        'av1': [1, 1, 1, 1, 1, 1],
        'av2': [1, 1, 0, 1, 1, 1],
        'choice': [1, 2, 1, 1, 2, 1],
    })


def make_db(panel=False):
    import biogeme.database as db
    d = db.Database('c20data', make_df(panel))
    if panel:
        d.panel('id')
    return d


def expression_factories():
    from biogeme.expressions import (Numeric, Beta, Variable, RandomVariable, bioDraws, bioMin, bioMax,
                                     exp, log, logzero, sin, cos, bioNormalCdf, Derive, Integrate,
                                     BelongsTo, MonteCarlo, PanelLikelihoodTrajectory, Elem, bioMultSum, bioLinearUtility,
                                     ConditionalSum, ConditionalTermTuple, LinearTermTuple, LogLogit)
    from biogeme.expressions.binary_expressions import Plus, Minus, Times, Divide, Power, And, Or
    from biogeme.expressions.comparison_expressions import Equal, NotEqual, LessOrEqual, GreaterOrEqual, Less, Greater
    from biogeme.expressions.unary_expressions import UnaryMinus, PowerConstant
    from biogeme.expressions.logit_expressions import _bioLogLogit, _bioLogLogitFullChoiceSet
    from biogeme.catalog import Catalog

    def b():
        return Beta('b', 0.5, None, None, 0)

    def x():
        return Variable('x')
    f = {}
    for cls in (Plus, Minus, Times, Divide, Power, bioMin, bioMax, And, Or, Equal, NotEqual, LessOrEqual, GreaterOrEqual, Less, Greater):
        f[cls.__name__] = [lambda cls=cls: cls(Numeric(3), Numeric(2)), lambda cls=cls: cls(b(), x())]
    for cls in (UnaryMinus, exp, log, logzero, sin, cos, bioNormalCdf, MonteCarlo, PanelLikelihoodTrajectory):
        f[cls.__name__] = [lambda cls=cls: cls(Numeric(0.5)), lambda cls=cls: cls(b() * x())]
    f['Numeric'] = [lambda: Numeric(2.5)]
    f['Beta'] = [b, lambda: Beta('fixed', -1.5, -2, 3, 1)]
    f['Variable'] = [x]
    f['RandomVariable'] = [lambda: RandomVariable('omega')]
    f['bioDraws'] = [lambda: bioDraws('d', 'NORMAL')]
    f['PowerConstant'] = [lambda: PowerConstant(Numeric(3), 2.0), lambda: PowerConstant(x(), 0.5)]
    f['Derive'] = [lambda: Derive(b() * x(), 'b')]
    f['Integrate'] = [lambda: Integrate(RandomVariable('omega') * b(), 'omega')]
    f['BelongsTo'] = [lambda: BelongsTo(Numeric(1), {1, 2}), lambda: BelongsTo(x(), {1.0, 3.0})]
    f['Elem'] = [lambda: Elem({1: Numeric(1), 2: Numeric(5)}, Numeric(2)), lambda: Elem({1: b(), 2: x()}, Variable('choice'))]
    f['bioMultSum'] = [lambda: bioMultSum([Numeric(1), Numeric(2)]), lambda: bioMultSum([b(), x()])]
    f['bioLinearUtility'] = [lambda: bioLinearUtility([LinearTermTuple(beta=b(), x=x())])]
    f['ConditionalSum'] = [lambda: ConditionalSum([ConditionalTermTuple(condition=Numeric(1), term=Numeric(3))]),
                           lambda: ConditionalSum([ConditionalTermTuple(condition=x() > 2, term=b())])]
    util = lambda: {1: Numeric(0), 2: b() * x()}    # noqa
    f['LogLogit'] = [lambda: LogLogit(util(), None, Numeric(1)), lambda: LogLogit(util(), {1: Variable('av1'), 2: Variable('av2')}, Variable('choice'))]
    f['_bioLogLogit'] = [lambda: _bioLogLogit(util(), {1: Numeric(1), 2: Numeric(1)}, Numeric(1))]
    f['_bioLogLogitFullChoiceSet'] = [lambda: _bioLogLogitFullChoiceSet(util(), Numeric(2))]
    f['Catalog'] = [lambda: Catalog.from_dict('cat', {'one': Numeric(1), 'lin': b() * x()})]
    return f


EXPR_ARGS = {   # alias -> list of (args, kwargs) builders
    'getValue': [lambda: ((), {})],
    'getSignature': [lambda: ((), {})],
    'getClassName': [lambda: ((), {})],
    'requiresDraws': [lambda: ((), {})],
    'countPanelTrajectoryExpressions': [lambda: ((), {})],
    'embedExpression': [lambda: (('Beta',), {}), lambda: (('PanelLikelihoodTrajectory',), {}), lambda: (('MonteCarlo',), {})],
    'getElementaryExpression': [lambda: (('b',), {}), lambda: (('x',), {}), lambda: (('nothing',), {})],
    'getStatusIdManager': [lambda: ((), {})],
    'setIdManager': [lambda: ((None,), {})],
}
EXPR_ARGS_ENGINE = {   # thorough: these go through the compiled engine (non-raising cases only)
    'getValue_c': [lambda: ((), {'database': make_db(), 'prepare_ids': True}),
                   lambda: ((), {'database': make_db(), 'betas': {'b': 0.25}, 'aggregation': True, 'prepare_ids': True})],
    'getValueAndDerivatives': [lambda: ((), {'database': make_db(), 'prepare_ids': True, 'aggregation': True})],
    'createFunction': [lambda: ((), {'database': make_db(), 'gradient': True, 'hessian': False})],
}
ENGINE_OK = {'Plus', 'Times', 'exp', 'Beta', 'bioLinearUtility', 'LogLogit', 'PowerConstant', 'Elem', 'bioMultSum'}


def prepared(factory):
    """the expression with identifiers assigned (so that get_signature has something to print)"""
    def build():
        from biogeme.expressions.idmanager import IdManager
        e = factory()
        try:
            e.set_id_manager(IdManager([e], make_db(), 3))
        except Exception:   # noqa
            pass
        return e
    return build


def nests_nl():
    from biogeme.nests import OneNestForNestedLogit, NestsForNestedLogit
    from biogeme.expressions import Beta
    return NestsForNestedLogit(choice_set=[1, 2, 3], tuple_of_nests=(
        OneNestForNestedLogit(nest_param=Beta('mu1', 1.5, 1, 10, 0), list_of_alternatives=[1, 2], name='n1'),))


def nests_cnl():
    from biogeme.nests import OneNestForCrossNestedLogit, NestsForCrossNestedLogit
    from biogeme.expressions import Beta
    return NestsForCrossNestedLogit(choice_set=[1, 2, 3], tuple_of_nests=(
        OneNestForCrossNestedLogit(nest_param=Beta('mu1', 1.5, 1, 10, 0), dict_of_alpha={1: 0.5, 2: 1.0}, name='n1'),
        OneNestForCrossNestedLogit(nest_param=Beta('mu2', 2.0, 1, 10, 0), dict_of_alpha={1: 0.5, 3: 1.0}, name='n2')))


def util3():
    from biogeme.expressions import Beta, Variable, Numeric
    return {1: Beta('b', 0.5, None, None, 0) * Variable('x'), 2: Beta('c', -0.5, None, None, 0) * Variable('y'), 3: Numeric(0)}


def av3():
    from biogeme.expressions import Variable, Numeric
    return {1: Variable('av1'), 2: Variable('av2'), 3: Numeric(1)}


def make_results(K=3, boot=True):
    sys.path.insert(0, os.path.dirname(os.path.abspath(__file__)))
    import numpy as np
    import c08_native
    res = c08_native.make_results(np.random.default_rng(7), K, True, boot, False)
    res._calculate_stats()
    return res


def function_cases(tier):
    """'module.old' -> list of builders of (args, kwargs)"""
    import numpy as np
    from biogeme.expressions import Beta, Variable, Numeric
    u = np.random.default_rng(3).uniform(size=(4, 3))

    def quad(x):
        return float(x @ x), 2 * x, 2 * np.eye(len(x))
    c = {
        'biogeme.draws.getUniform': [lambda: ((4, 3), {}), lambda: ((4, 3), {'symmetric': True})],
        'biogeme.draws.getLatinHypercubeDraws': [lambda: ((4, 3), {}), lambda: ((4, 3, True), {}),
                                                  lambda: ((4, 3), {'uniform_numbers': u.ravel().copy()})],
        'biogeme.draws.getHaltonDraws': [lambda: ((4, 3), {}), lambda: ((4, 3), {'base': 3, 'skip': 10}), lambda: ((2, 2, True, 5, 0, True), {})],
        'biogeme.draws.getAntithetic': [lambda: ((lambda s, n: np.full((s, n), 0.25), 3, 4), {})],
        'biogeme.draws.getNormalWichuraDraws': [lambda: ((4, 3), {}), lambda: ((4, 2), {'antithetic': True}),
                                                 lambda: ((4, 3), {'uniform_numbers': u.copy()})],
        'biogeme.version.getVersion': [lambda: ((), {})],
        'biogeme.version.getHtml': [lambda: ((), {})],
        'biogeme.version.getText': [lambda: ((), {})],
        'biogeme.version.getLaTeX': [lambda: ((), {})],
        'biogeme.results.calcPValue': [lambda: ((1.3,), {}), lambda: ((-2.5,), {}), lambda: ((0.0,), {})],
        'biogeme.results.compileEstimationResults': [lambda: (({'m1': make_results(2), 'm2': make_results(3)},), {}),
                                                     lambda: (({'m1': make_results(2)},), {'include_robust_stderr': True, 'formatted': False})],
        'biogeme.multiobjectives.AIC_BIC_dimension': [lambda: ((make_results(2),), {})],
        'biogeme.models.piecewise.piecewiseVariables': [lambda: ((Variable('x'), [None, 1, 3, None]), {}), lambda: (('x', [0, 2, 5]), {})],
        'biogeme.models.piecewise.piecewiseFormula': [lambda: (('x', [0, 2, 5]), {}),
                                                      lambda: ((Variable('x'), [None, 2, None], [Beta('p1', 0, None, None, 0), Beta('p2', 0, None, None, 0)]), {})],
        'biogeme.models.piecewise.piecewiseFunction': [lambda: ((1.5, [1, 2, 3], [10, 100]), {}), lambda: ((4.0, [None, 2, None], [1.0, -1.0]), {})],
        'biogeme.models.cnl.cnl_avail': [lambda: ((util3(), av3(), nests_cnl(), Variable('choice')), {})],
        'biogeme.models.cnl.logcnl_avail': [lambda: ((util3(), av3(), nests_cnl(), Variable('choice')), {})],
        'biogeme.models.cnl.getMevForCrossNested': [lambda: ((util3(), av3(), nests_cnl()), {}), lambda: ((util3(), None, nests_cnl()), {})],
        'biogeme.models.cnl.getMevForCrossNestedMu': [lambda: ((util3(), av3(), nests_cnl(), Beta('mu', 1, 0.1, 10, 0)), {})],
        'biogeme.models.mev.logmev_endogenousSampling': [lambda: ((util3(), {1: Numeric(0), 2: Numeric(0), 3: Numeric(0)}, av3(),
                                                                   {1: Numeric(0.1), 2: Numeric(0.2), 3: Numeric(0.3)}, Variable('choice')), {})],
        'biogeme.models.mev.mev_endogenousSampling': [lambda: ((util3(), {1: Numeric(0), 2: Numeric(0), 3: Numeric(0)}, None,
                                                                {1: Numeric(0.1), 2: Numeric(0.2), 3: Numeric(0.3)}, Numeric(1)), {})],
        'biogeme.models.nested.getMevGeneratingForNested': [lambda: ((util3(), av3(), nests_nl()), {})],
        'biogeme.models.nested.getMevForNested': [lambda: ((util3(), av3(), nests_nl()), {}), lambda: ((util3(), None, nests_nl()), {})],
        'biogeme.models.nested.getMevForNestedMu': [lambda: ((util3(), av3(), nests_nl(), Beta('mu', 1, 0.1, 10, 0)), {})],
        'biogeme.models.nested.nestedMevMu': [lambda: ((util3(), av3(), nests_nl(), Variable('choice'), Beta('mu', 1, 0.1, 10, 0)), {})],
        'biogeme.models.nested.lognestedMevMu': [lambda: ((util3(), av3(), nests_nl(), Variable('choice'), Beta('mu', 1, 0.1, 10, 0)), {})],
        'biogeme.cnl.cnl_G': [lambda: (([1, 2, 3], nests_cnl()), {})],
        'biogeme.cnl.cnl_CDF': [lambda: (([1, 2, 3], nests_cnl()), {})],
        'biogeme.segmentation.segment_parameter': [lambda: (_segment_args(), {}), lambda: (_segment_args(), {'prefix': 'seg'})],
        'biogeme.tools.database.countNumberOfGroups': [lambda: ((make_df(), 'g'), {}), lambda: ((make_df(), 'id'), {})],
        'biogeme.tools.derivatives.findiff_H': [lambda: ((quad, np.array([1.0, -2.0])), {})],
        'biogeme.tools.derivatives.checkDerivatives': [lambda: ((quad, np.array([1.0, -2.0])), {}),
                                                       lambda: ((quad, np.array([0.5, 2.0]), ['p', 'q'], True), {})],
    }
    return c


def _segment_args():
    from biogeme.expressions import Beta, Variable
    from biogeme.segmentation import DiscreteSegmentationTuple
    return (Beta('b', 0.5, None, None, 0), [DiscreteSegmentationTuple(variable=Variable('g'), mapping={1: 'one', 2: 'two', 3: 'three'})])


def method_cases(tier):
    """(owner class name) -> (list of receiver builders, {alias: [args builders]})"""
    import numpy as np
    from biogeme.expressions import Variable, Numeric, Beta
    av = lambda: {1: Variable('av1'), 2: Variable('av2')}     # noqa
    db_cases = {
        'valuesFromDatabase': [lambda: ((Variable('x') * 2 + Variable('y'),), {})],
        'checkAvailabilityOfChosenAlt': [lambda: ((av(), Variable('choice')), {})],
        'choiceAvailabilityStatistics': [lambda: ((av(), Variable('choice')), {})],
        'scaleColumn': [lambda: (('x', 10.0), {}), lambda: (('nocolumn', 2.0), {})],
        'suggestScaling': [lambda: ((), {}), lambda: ((['x', 'y'], True), {})],
        'sampleWithReplacement': [lambda: ((), {}), lambda: ((4,), {})],
        'sampleIndividualMapWithReplacement': [lambda: ((), {}), lambda: ((2,), {})],
        'addColumn': [lambda: ((Variable('x') * 2, 'x2'), {})],
        'DefineVariable': [lambda: (('x3', Variable('x') + 1), {})],
        'dumpOnFile': [lambda: ((), {})],
        'setRandomNumberGenerators': [lambda: (({},), {}),
                                      lambda: (({'MYGEN': (lambda sample_size, number_of_draws: np.zeros((sample_size, number_of_draws)), 'zeros')},), {})],
        'generateDraws': [lambda: (({'d1': 'NORMAL', 'd2': 'UNIFORM_HALTON2'}, ['d1', 'd2'], 4), {})],
        'getNumberOfObservations': [lambda: ((), {})],
        'getSampleSize': [lambda: ((), {})],
        'isPanel': [lambda: ((), {})],
        'buildPanelMap': [lambda: ((), {})],
        'generateFlatPanelDataframe': [lambda: ((), {}), lambda: ((False, ['g']), {})],
    }
    res_cases = {k: [lambda: ((), {})] for k in (
        'shortSummary', 'getGeneralStatistics', 'printGeneralStatistics', 'numberOfFreeParameters', 'getVarCovar',
        'getRobustVarCovar', 'getBootstrapVarCovar', 'writeHtml', 'writeLaTeX', 'writeF12', 'writePickle')}
    res_cases.update({
        'getLaTeX': [lambda: ((), {}), lambda: ((False,), {}), lambda: ((), {'onlyRobust': False})],
        'getEstimatedParameters': [lambda: ((), {}), lambda: ((False,), {}), lambda: ((), {'only_robust': False})],
        'getCorrelationResults': [lambda: ((), {}), lambda: ((['ba', 'bb'],), {})],
        'getHtml': [lambda: ((), {}), lambda: ((False,), {})],
        'getBetaValues': [lambda: ((), {}), lambda: ((['bb'],), {}), lambda: ((), {'my_betas': ['zz']})],
        'getBetasForSensitivityAnalysis': [lambda: ((['ba', 'bb'],), {'size': 5}), lambda: ((['ba', 'bb'], 4, False), {})],
        'getF12': [lambda: ((), {}), lambda: ((False,), {})],
    })
    idm_cases = {'setDataMap': [lambda: ((make_df(),), {})], 'setData': [lambda: ((make_df(),), {})]}

    def make_idm():
        from biogeme.expressions.idmanager import IdManager
        return IdManager([Beta('b', 0.5, None, None, 0) * Variable('x')], make_db(), 0)
    out = {
        'Database': ([make_db, lambda: make_db(True)], db_cases),
        'bioResults': ([lambda: make_results(3, True), lambda: make_results(2, False)], res_cases),
        'IdManager': ([make_idm], idm_cases),
    }
    x0 = lambda: np.array([0.3])    # noqa
    bg_cases = {
        'getBoundsOnBeta': [lambda: (('b',), {}), lambda: (('zz',), {})],
        'calculateNullLoglikelihood': [lambda: (({1: 1, 2: 1},), {})],
        'calculateInitLikelihood': [lambda: ((), {})],
        'calculateLikelihood': [lambda: ((x0(), False), {}), lambda: ((x0(),), {'scaled': True})],
        'calculateLikelihoodAndDerivatives': [lambda: ((x0(), False), {'hessian': True, 'bhhh': True})],
        'likelihoodFiniteDifferenceHessian': [lambda: ((x0(),), {})],
        'checkDerivatives': [lambda: ((x0(),), {}), lambda: (([0.1], True), {})],
        'setRandomInitValues': [lambda: ((), {}), lambda: ((2.0,), {})],
    }
    if True:      # cheap enough for the quick tier (6 rows, 1 parameter)
        bg_cases['quickEstimate'] = [lambda: ((), {})]
        bg_cases['confidenceIntervals'] = [lambda: (([{'b': 0.1}, {'b': 0.2}, {'b': 0.3}], 0.9), {})]
    out['BIOGEME'] = ([make_biogeme], bg_cases)
    return out


def make_biogeme():
    from biogeme.biogeme import BIOGEME
    from biogeme.parameters import Parameters
    from biogeme.expressions import Beta, Variable, Numeric
    from biogeme.models import loglogit
    import logging
    logging.getLogger('biogeme').setLevel(logging.ERROR)
    v = {1: Beta('b', 0.5, -10, 10, 0) * Variable('y'), 2: Numeric(0)}
    bg = BIOGEME(make_db(), loglogit(v, None, Variable('choice')), parameters=Parameters(), generate_html=False,
                 generate_pickle=False, save_iterations=False)
    bg.modelName = 'c20model'
    return bg


def classes_of_package():
    import biogeme
    out, mods, failed = [], [], []
    for mi in pkgutil.walk_packages(biogeme.__path__, 'biogeme.'):
        try:
            mods.append(importlib.import_module(mi.name))
        except Exception as e:   # noqa
            failed.append(f'{mi.name}: {type(e).__name__}')
    for m in mods:
        for n, v in list(vars(m).items()):
            if inspect.isclass(v) and v.__module__ == m.__name__:
                out.append(v)
    return mods, out, failed


def alias_cases(tier, seed, skip):
    import logging
    logging.disable(logging.CRITICAL)
    mods, classes, failed_imports = classes_of_package()
    fails, uncovered, confirmed = [], [], []
    cases = 0
    covered = set()
    all_aliases = set()

    def skip_key(owner, old, D):
        for o in (owner.__name__, f'{owner.__module__}.{owner.__name__}'):
            for d in (D.__name__, f'{D.__module__}.{D.__name__}'):
                if f'{o}.{old}@{d}' in skip:
                    return f'{o}.{old}@{d}'
        return None

    def one(label, old, new, build_old, build_new, ab, skip_name=None):
        nonlocal cases
        cases += 1
        try:
            o = run_one(build_old, old, ab)
            n = run_one(build_new, new, ab)
        except Exception as e:   # noqa   (set-up of the case itself failed)
            uncovered.append(f'{label.split(" #")[0]}: set-up failed: {type(e).__name__}: {str(e)[:80]}')
            return
        d = compare(old, new, o, n)
        if d:
            if skip_name:
                confirmed.append(skip_name)
            elif len(fails) < 25:
                fails.append({'alias': label, 'old': old, 'new': new, 'differences': d[:3]})
        covered.add(label.split(' ')[0])

    # ---- module-level functions
    fcases = function_cases(tier)
    for m in mods:
        for n, v in list(vars(m).items()):
            if getattr(v, '__deprecated__', False) and getattr(v, '__module__', None) == m.__name__ and not inspect.isclass(v):
                key = f'{m.__name__}.{n}'
                all_aliases.add(key)
                if key not in fcases:
                    uncovered.append(f'{key}: no arguments table')
                    continue
                for i, ab in enumerate(fcases[key]):
                    one(f'{key} #{i}', n, v.__newname__, lambda m=m: (m, None), lambda m=m: (m, None), ab)
    # ---- methods
    mcases = method_cases(tier)
    efac = expression_factories()
    for owner in classes:
        for old, raw in list(vars(owner).items()):
            wrapper = raw.__func__ if isinstance(raw, (staticmethod, classmethod)) else raw
            if not getattr(wrapper, '__deprecated__', False):
                continue
            new = wrapper.__newname__
            key = f'{owner.__module__}.{owner.__name__}.{old}'
            all_aliases.add(key)
            receivers = [D for D in classes if issubclass(D, owner) and inspect.getattr_static(D, old, None) is raw]
            is_expr = any(c.__name__ == 'Expression' for c in owner.__mro__)
            if is_expr:
                table = dict(EXPR_ARGS)
                table.update(EXPR_ARGS_ENGINE)      # non-raising engine cases only (sticky engine error state)
                if old not in table:
                    uncovered.append(f'{key}: needs the compiled engine (thorough tier only)' if old in EXPR_ARGS_ENGINE else f'{key}: no arguments table')
                    continue
                for D in receivers:
                    facs = efac.get(D.__name__)
                    if not facs:
                        if not getattr(D, '__abstractmethods__', None) and D.__name__ not in ('Expression', 'BinaryOperator', 'UnaryOperator', 'Elementary',
                                                                                              'ComparisonOperator', 'MultipleExpression'):
                            uncovered.append(f'receiver class {D.__name__}: no factory (DefineVariable is obsolete and cannot be constructed)')
                        continue
                    if old in EXPR_ARGS_ENGINE and D.__name__ not in ENGINE_OK:
                        continue
                    sk = skip_key(owner, old, D)
                    variants = []
                    for fac in facs:
                        variants.append(fac)
                        if old in ('getSignature', 'getStatusIdManager', 'getValue', 'getElementaryExpression'):
                            variants.append(prepared(fac))
                    if old in EXPR_ARGS_ENGINE:
                        variants = facs[-1:]
                    for vi, fac in enumerate(variants):
                        for ai, ab in enumerate(table[old]):
                            def build(fac=fac):
                                e = fac()
                                return e, e
                            one(f'{key}@{D.__name__} #{vi}.{ai}', old, new, build, build, ab, sk)
            else:
                if owner.__name__ not in mcases:
                    uncovered.append(f'{key}: no receiver factory for {owner.__name__}')
                    continue
                recs, table = mcases[owner.__name__]
                if old == 'descriptionOfNativeDraws':
                    # the replacement is a module-level function: compare with it, on the class and on an instance
                    import biogeme.native_draws as nd
                    one(f'{key} #class', old, new, lambda: (owner, None), lambda: (nd, None), lambda: ((), {}))
                    sk = f'{owner.__name__}.{old}->{new}' if f'{owner.__name__}.{old}->{new}' in skip else None
                    one(f'{key} #instance', old, new, lambda: (make_db(), None), lambda: (nd, None), lambda: ((), {}), sk)
                    continue
                if old not in table:
                    uncovered.append(f'{key}: no arguments table' + (' in the quick tier' if tier == 'quick' else ''))
                    continue
                for ri, rb in enumerate(recs):
                    for ai, ab in enumerate(table[old]):
                        def build(rb=rb):
                            r = rb()
                            return r, r
                        one(f'{key} #{ri}.{ai}', old, new, build, build, ab)
    return cases, fails, {'uncovered': sorted(set(uncovered)), 'confirmed_static': sorted(set(confirmed)),
                          'aliases_seen': len(all_aliases), 'aliases_covered': len({c for c in covered} & all_aliases | {a for a in all_aliases if any(c.startswith(a) for c in covered)}),
                          'failed_imports': failed_imports}


def main():
    mode = sys.argv[1]
    warnings.simplefilter('ignore')
    if mode == 'wrappers':
        cases, fails = wrapper_cases(int(sys.argv[2]), int(sys.argv[3]), sys.argv[4] if len(sys.argv) > 4 else '')
        print(json.dumps({'cases': cases, 'failures': fails}, default=str))
        return 1 if fails else 0
    if mode == 'aliases':
        skip = set()
        if len(sys.argv) > 4 and sys.argv[4] != '-':
            skip = set(json.loads(sys.argv[4]) if sys.argv[4].startswith('[') else json.load(open(sys.argv[4])))
        cases, fails, info = alias_cases(sys.argv[2], int(sys.argv[3]), skip)
        print(json.dumps(dict({'cases': cases, 'failures': fails}, **info), default=str))
        return 1 if fails else 0
    print(json.dumps({'cases': 0, 'failures': [{'clause': 'usage'}]}))
    return 1


if __name__ == '__main__':
    sys.exit(main())
