"""C02 (histories): outputs returned earlier keep their values after later evaluations on the
same object (no shared storage), for every request mix; each kept output is compared with a
closed form at the point where it was requested."""
import itertools
import json
import sys
import warnings

import numpy as np

warnings.simplefilter('ignore')


def closed_form(theta, X, y):
    """binary logit with utilities V1 = a + b*x, V0 = 0: value, gradient, hessian, bhhh (names sorted: a, b)."""
    a, b = theta
    v = a + b * X
    p = 1 / (1 + np.exp(-v))
    f = float(np.sum(y * np.log(p) + (1 - y) * np.log(1 - p)))
    r = y - p
    g = np.array([np.sum(r), np.sum(r * X)])
    w = p * (1 - p)
    h = -np.array([[np.sum(w), np.sum(w * X)], [np.sum(w * X), np.sum(w * X * X)]])
    G = np.stack([r, r * X], axis=1)
    return f, g, h, G.T @ G


def main():
    import pandas as pd
    from biogeme.biogeme import BIOGEME
    from biogeme.database import Database
    from biogeme.expressions import Beta, Variable, log, exp
    from biogeme.parameters import Parameters
    rng = np.random.default_rng(11)
    X = rng.normal(size=12)
    y = (rng.uniform(size=12) < 0.5).astype(float)
    db = Database('d', pd.DataFrame({'x': X, 'y': y}))
    b_, a_ = Beta('b', 0.1, None, None, 0), Beta('a', -0.2, None, None, 0)     # appearance order b, a; sorted a, b
    v = a_ + b_ * Variable('x')
    p = 1 / (1 + exp(-v))
    ll = Variable('y') * log(p) + (1 - Variable('y')) * log(1 - p)
    fails, cases = [], 0
    points = [np.array([0.3, -0.4]), np.array([-1.0, 0.8]), np.array([0.0, 2.0])]
    for scaled in (False, True):
        for order in itertools.permutations(range(3)):
            bio = BIOGEME(db, ll, parameters=Parameters())
            kept = []
            for k in order:
                kept.append((k, bio.calculate_likelihood_and_derivatives(points[k], scaled=scaled, hessian=True, bhhh=True)))
            for k, out in kept:
                cases += 1
                f, g, h, bh = closed_form(points[k], X, y)
                s = 12.0 if scaled else 1.0
                ok = (abs(out.function - f / s) < 1e-8 and np.allclose(out.gradient, g / s, atol=1e-8) and np.allclose(out.hessian, h / s, atol=1e-8)
                      and np.allclose(out.bhhh, bh / s, atol=1e-8) and np.allclose(out.hessian, out.hessian.T))
                if not ok:
                    fails.append({'check': 'an output kept across later evaluations still holds the derivatives of its own point',
                                  'case': {'scaled': scaled, 'order': list(order), 'point': points[k].tolist()},
                                  'expected': {'hessian': (h / s).tolist()}, 'got': {'hessian': np.asarray(out.hessian).tolist()}})
    print(json.dumps({'cases': cases, 'failures': fails[:10]}))
    return 1 if fails else 0


if __name__ == '__main__':
    sys.exit(main())
