"""C17 bounded stand-in: the Box-Cox transform of models/boxcox.py on the real code.

Bound: x in {0.05, 0.5, 1, 2, 5, 100} (+ {1e-3, 0.9, 17.5, 1e4} thorough), ell on both sides of the switching point 1e-5
(|ell| in {0, 1e-12, 1e-8, 1e-6, 5e-6, 0.99e-5} uses the series branch; |ell| in {1.01e-5, 2e-5, 1e-4, 1e-3, 5e-3, 1e-2,
0.05, 0.1, 0.5, 1, 2} the regular branch), both signs.  The real tree is evaluated by Expression.get_value() with Numeric leaves and by the
compiled engine (Variable x on a tiny Database, ell a Beta parameter).
Oracle: B(x, ell) = (exp(ell ln x) - 1) / ell, ln x at ell = 0, computed with 50 significant digits (decimal module);
tolerance 1e-9 relative (+1e-12): the rounding of the regular branch in double precision near the switching point is
~1e-11, the truncation error of the correct 4-term series below it is < 1e-17.
"""
import sys
from decimal import Decimal, getcontext

from c17_common import Recorder, close, database, engine_values, tier_seed

getcontext().prec = 50

CLAUSES = [
    'boxcox:closed-form',                # regular branch: (x^ell - 1)/ell
    'boxcox:limit-is-log',               # ell = 0 gives log(x)
    'boxcox:continuity-at-zero',         # series branch |ell| < 1e-5 agrees with (x^ell - 1)/ell  [F-24]
    'boxcox:no-jump-at-switching-point',  # |B(x, 1.01e-5) - B(x, 0.99e-5)| is of the order of the slope, both signs
    'boxcox:zero-argument',              # x == 0 gives 0
]

SERIES = [1e-12, 1e-8, 1e-6, 5e-6, 0.99e-5]
REGULAR = [1.01e-5, 2e-5, 1e-4, 1e-3, 5e-3, 1e-2, 0.05, 0.1, 0.5, 1.0, 2.0]


def reference(x, ell):
    lx = Decimal(x).ln()
    if ell == 0:
        return float(lx)
    le = Decimal(ell)
    return float(((le * lx).exp() - 1) / le)


def main():
    from biogeme.expressions import Beta, Numeric, Variable
    from biogeme.models.boxcox import boxcox
    tier, _ = tier_seed()
    R = Recorder(CLAUSES)
    xs = [0.05, 0.5, 1.0, 2.0, 5.0, 100.0] + ([] if tier == 'quick' else [1e-3, 0.9, 17.5, 1e4])
    db = database({'x': xs})

    def both(ell):
        """values of the real tree for every x: python evaluation and compiled engine"""
        py = [boxcox(Numeric(x), Numeric(ell)).get_value() for x in xs]
        en = engine_values(boxcox(Variable('x'), Beta('ell', ell, -10, 10, 0)), db)
        return py, en

    def compare(clause, ells):
        if not R.wanted(clause):
            return
        for mag in ells:
            for ell in ((mag, -mag) if mag else (0.0,)):
                try:
                    py, en = both(ell)
                except Exception as e:      # noqa
                    R.case(clause)
                    R.fail(clause, {'ell': ell}, error=f'{type(e).__name__}: {e}'[:200])
                    continue
                for x, a, b in zip(xs, py, en):
                    R.case(clause)
                    want = reference(x, ell)
                    if not (close(a, want) and close(b, want)):
                        R.fail(clause, {'x': x, 'ell': ell}, reference=want, get_value=a, engine=b,
                               relative_error=abs(a - want) / max(abs(want), 1e-300))

    compare('boxcox:closed-form', REGULAR)
    compare('boxcox:limit-is-log', [0.0])
    compare('boxcox:continuity-at-zero', SERIES)

    c = 'boxcox:no-jump-at-switching-point'
    if R.wanted(c):
        for sign in (1.0, -1.0):
            lo, hi = sign * 0.99e-5, sign * 1.01e-5
            try:
                a, _ = both(lo)
                b, _ = both(hi)
            except Exception as e:      # noqa
                R.case(c)
                R.fail(c, {'sign': sign}, error=f'{type(e).__name__}: {e}'[:200])
                continue
            for x, va, vb in zip(xs, a, b):
                R.case(c)
                # dB/dell at 0 is (ln x)^2 / 2: the step between the two sides is slope * 0.02e-5 (+ rounding)
                lx = float(Decimal(x).ln())
                allowed = 1.5 * abs(hi - lo) * lx * lx / 2 + 1e-10 * max(1.0, abs(lx))
                if not abs(vb - va) <= allowed:
                    R.fail(c, {'x': x, 'ell_series_side': lo, 'ell_regular_side': hi}, series_side=va, regular_side=vb,
                           jump=abs(vb - va), allowed=allowed)

    c = 'boxcox:zero-argument'
    if R.wanted(c):
        dbz = database({'x': [0.0, 1.0]})
        for ell in (0.0, 1e-7, -1e-7, 0.3, -0.5, 2.0):
            R.case(c)
            try:
                a = boxcox(Numeric(0.0), Numeric(ell)).get_value()
                b = engine_values(boxcox(Variable('x'), Beta('ell', ell, -10, 10, 0)), dbz)
            except Exception as e:      # noqa
                R.fail(c, {'x': 0.0, 'ell': ell}, error=f'{type(e).__name__}: {e}'[:200])
                continue
            if not (a == 0.0 and b[0] == 0.0 and close(b[1], 0.0)):
                R.fail(c, {'x': 0.0, 'ell': ell}, expected=0.0, get_value=a, engine=b)
    return R.finish()


if __name__ == '__main__':
    sys.exit(main())
