"""Bounded sample test (under /venv/bin/python) of the ASSUMED facts of pyvc/libext/c10c_numpy.py.

  A1  np.array(L), L a list of n>=1 arrays of one shape s: shape (n,)+s, element [(k,)+idx] == L[k][idx], new object
  A2  np.moveaxis(A, 0, -1) for 3-d A of shape (s0,s1,s2): shape (s1,s2,s0), element [i,j,k] == A[k,i,j], new object
  A3  neither call changes its arguments
  NT  native_random_number_generators is ONE dict object str -> RandomNumberGeneratorTuple (same object seen from
      biogeme.database and biogeme.native_draws), generators callable with (sample size, number of draws)
  LR  [None] * n is a list of max(n, 0) None
  SH  a[i, j, k] is the same element as a[(i, j, k)] (the index tuple is what the model's element function takes)

A wrong axiom shows up as a failure here; this is a sample (bounded), not a proof.
Prints one JSON line {"cases": n, "failures": [...]}; exit 0/1.
"""
import itertools
import json
import sys

import numpy as np


def main():
    tier = sys.argv[1] if len(sys.argv) > 1 else 'quick'
    seed = int(sys.argv[2]) if len(sys.argv) > 2 and sys.argv[2].lstrip('-').isdigit() else 0
    rng = np.random.default_rng(12345 + seed)
    cases, failures = 0, []
    shapes2 = [(1, 1), (1, 3), (2, 1), (3, 2), (2, 5), (4, 4)]
    if tier == 'thorough':
        shapes2 += [(a, b) for a in range(1, 8) for b in range(1, 8)]
    for (a, b), n in itertools.product(shapes2, (1, 2, 3, 5)):
        L = [rng.normal(size=(a, b)) for _ in range(n)]
        copies = [x.copy() for x in L]
        A = np.array(L)
        cases += 1
        if A.shape != (n, a, b):
            failures.append({'check': 'A1-shape', 'case': [a, b, n], 'got': list(A.shape)})
            continue
        if any(A[k, i, j] != L[k][i, j] or A[(k,) + (i, j)] != L[k][(i, j)]
               for k in range(n) for i in range(a) for j in range(b)):
            failures.append({'check': 'A1-element', 'case': [a, b, n]})
        if any(A is x or np.shares_memory(A, x) for x in L):
            failures.append({'check': 'A3-new-object(np.array)', 'case': [a, b, n]})
        if any(not np.array_equal(x, y) for x, y in zip(L, copies)):
            failures.append({'check': 'A3-arguments-unchanged(np.array)', 'case': [a, b, n]})
        A0 = A.copy()
        M = np.moveaxis(A, 0, -1)
        cases += 1
        if M.shape != (a, b, n):
            failures.append({'check': 'A2-shape', 'case': [a, b, n], 'got': list(M.shape)})
            continue
        if any(M[i, j, k] != A[k, i, j] or M[(i, j, k)] != A[(k, i, j)]
               for k in range(n) for i in range(a) for j in range(b)):
            failures.append({'check': 'A2-element', 'case': [a, b, n]})
        if M is A:
            failures.append({'check': 'A3-new-object(np.moveaxis)', 'case': [a, b, n]})
        if not np.array_equal(A, A0):
            failures.append({'check': 'A3-arguments-unchanged(np.moveaxis)', 'case': [a, b, n]})
        # the composition used by generate_draws, against an independent construction
        want = np.empty((a, b, n))
        for k in range(n):
            want[:, :, k] = L[k]
        if not np.array_equal(M, want):
            failures.append({'check': 'A1+A2-composition', 'case': [a, b, n]})
    for n in (-2, -1, 0, 1, 2, 7):
        cases += 1
        got = [None] * n
        if got != [None for _ in range(max(n, 0))]:
            failures.append({'check': 'LR-list-repetition', 'case': n})
    # native table
    import biogeme.database as bd
    import biogeme.native_draws as nd
    cases += 1
    T = nd.native_random_number_generators
    if bd.native_random_number_generators is not T or not isinstance(T, dict):
        failures.append({'check': 'NT-one-object', 'case': 'identity'})
    for key, rec in T.items():
        cases += 1
        if not (isinstance(key, str) and isinstance(rec, nd.RandomNumberGeneratorTuple) and callable(rec.generator)):
            failures.append({'check': 'NT-record-types', 'case': key})
            continue
        out = rec.generator(3, 4)
        if not (isinstance(out, np.ndarray) and out.shape == (3, 4)):
            failures.append({'check': 'NT-generator-call', 'case': key, 'got': str(getattr(out, 'shape', None))})
    # generate_draws does not touch the native table
    import warnings
    warnings.simplefilter('ignore')
    import pandas as pd
    before = dict(T)
    db = bd.Database('d', pd.DataFrame({'x': [1.0, 2.0, 3.0]}))
    cases += 1
    try:
        db.generate_draws({'a': 'UNIFORM', 'b': 'NORMAL'}, ['a', 'b'], 4)
        if dict(T) != before or list(T) != list(before):
            failures.append({'check': 'NT-unchanged-by-generate_draws', 'case': ''})
    except Exception as e:          # a defect of generate_draws itself (reported by its own obligations), not of the model
        failures.append({'check': 'NT-unchanged-by-generate_draws', 'case': f'generate_draws raised {type(e).__name__}: {e}'[:200]})
    print(json.dumps({'cases': cases, 'failures': failures,
                      'bound': f'{len(shapes2)} 2-d shapes x n in (1,2,3,5) stacked arrays; list repetition n in -2..7; 21 native entries'}))
    return 1 if failures else 0


if __name__ == '__main__':
    sys.exit(main())
