"""Bounded stand-in for property C10 (Monte-Carlo mean with each draw variable fed its OWN series,
seed reproducibility, numerical integral, derivative operator).

usage: /venv/bin/python /verif/bounded/c10_integrals.py <quick|thorough> <seed>

Real code exercised: Database.set_random_number_generators / generate_draws, IdManager numbering of
draw variables, bioDraws signatures, MonteCarlo / Integrate / Derive through the compiled engine
(Expression.get_value_c) and BIOGEME(...).calculate_likelihood / simulate (seed parameter).

Oracles (plain Python from the property statement):
  MC     value_n = (1/R) sum_r g(x_n, S_v[n, r] for each named draw variable v) where S_v is the
         table produced by the generator registered for the DECLARED TYPE of v: user generators are
         deterministic, value(k,n,r) = (1000 k + 10 n + r)/100 with k the generator's own code, so a
         mix-up between variables / observations / draws changes the expected mean; native
         generators are wrapped by a recorder (their output is whatever they produced).
  seed   two BIOGEME objects built with the same non-zero seed give bit-identical values whatever
         the state of numpy's global generator before; two different seeds give different values.
  Integrate(f*normalpdf) vs closed-form Gaussian moments, 1e-6.
  Derive vs analytic partial derivatives, 1e-9.
Cases run in worker subprocesses (engine error state is sticky); a worker stops at the first
exception and the remaining cases continue in a fresh one.
"""
import json
import math
import os
import random
import shutil
import subprocess
import sys
import tempfile

USER_TYPES = {'USER_A': 1, 'USER_B': 2, 'USER_C': 3}
NATIVE_ANY_R = ['UNIFORM', 'NORMAL', 'UNIFORM_HALTON2', 'NORMAL_HALTON3', 'UNIFORMSYM', 'NORMAL_MLHS',
                'UNIFORM_MLHS', 'UNIFORMSYM_HALTON5']
NATIVE_EVEN_R = ['NORMAL_ANTI', 'UNIFORM_ANTI', 'UNIFORMSYM_ANTI', 'NORMAL_MLHS_ANTI']
MC_KINDS = ['lin', 'prod', 'expmix', 'twice', 'outer', 'two_mc']
NAME_POOL = ['zeta', 'alpha', 'mid', 'Zed', 'a_draw', 'xi2', 'xi10', 'B']


def close(a, b, tol):
    a, b = float(a), float(b)
    if a == b:
        return True
    if math.isnan(a) or math.isnan(b):
        return False
    return abs(a - b) <= tol * max(1.0, abs(a), abs(b))


def user_value(k, n, r):
    if k == 3:            # USER_C: integer COUNTS, handed over as an integer array (like np.random.poisson)
        return float(3 + n + 2 * r)
    return (1000.0 * k + 10.0 * n + r) / 100.0


# ------------------------------------------------------------------ oracle for the MC integrands
def mc_oracle(kind, x, bval, S, N, R):
    """S: list of tables (N x R nested lists), one per draw variable d1, d2[, d3]. Returns list over n."""
    three = len(S) == 3
    out = []
    for n in range(N):
        def mean(fun):
            return sum(fun(r) for r in range(R)) / R
        d1 = lambda r: S[0][n][r]
        d2 = lambda r: S[1][n][r]
        d3 = (lambda r: S[2][n][r]) if three else (lambda r: 0.0)
        if kind == 'lin':
            v = mean(lambda r: bval * x[n] + d1(r) + 2 * d2(r) + 3 * d3(r))
        elif kind == 'prod':
            v = mean(lambda r: d1(r) * d2(r) - d3(r) + x[n])
        elif kind == 'expmix':
            v = mean(lambda r: math.exp(0.01 * d1(r)) * d2(r) + x[n] * d3(r) + bval)
        elif kind == 'twice':
            v = mean(lambda r: d1(r) + d1(r) * d2(r) + d3(r) * x[n] * bval)
        elif kind == 'outer':
            v = math.log(mean(lambda r: 1 + d1(r) ** 2 + 2 * d2(r) ** 2 + 3 * d3(r) ** 2)) + x[n] * bval
        elif kind == 'two_mc':
            v = mean(lambda r: d1(r) * x[n]) * mean(lambda r: d2(r) + d3(r) + bval)
        else:
            raise ValueError(kind)
        out.append(v)
    return out


# ------------------------------------------------------------------ case generation
def gen_cases(rng, tier):
    cases = []
    n_mc = 48 if tier == 'quick' else 600
    for i in range(n_mc):
        R = rng.choice([1, 2, 5])
        N = rng.choice([1, 3])
        nvar = rng.choice([2, 3])
        natives = NATIVE_ANY_R + (NATIVE_EVEN_R if R % 2 == 0 else [])
        # at least one user type, different types for different variables
        n_user = rng.randint(1, nvar)
        types = rng.sample(sorted(USER_TYPES), n_user) + rng.sample(natives, nvar - n_user)
        rng.shuffle(types)
        names = rng.sample(NAME_POOL, nvar)
        cases.append({'part': 'mc', 'kind': MC_KINDS[i % len(MC_KINDS)], 'R': R, 'N': N, 'types': types,
                      'names': names, 'x': [round(rng.uniform(-2, 2), 3) for _ in range(N)],
                      'b': round(rng.uniform(-1, 1), 3), 'path': ['expr', 'biogeme'][i % 2] if i % 4 else 'both',
                      'threads': rng.choice([1, 2])})
    # the integer-valued user series as the alphabetically FIRST draw variable, next to real-valued series
    for i, kind in enumerate(('prod', 'expmix', 'lin')):
        cases.append({'part': 'mc', 'kind': kind, 'R': 5, 'N': 3, 'types': ['USER_C', 'UNIFORM', 'USER_A'][:2 + i % 2],
                      'names': ['a_count', 'm_real', 'z_other'][:2 + i % 2], 'x': [0.5, -1.25, 2.0], 'b': 0.4,
                      'path': 'both', 'threads': 1})
    n_seed = 6 if tier == 'quick' else 40
    for i in range(n_seed):
        s1 = rng.randint(1, 10 ** 6)
        cases.append({'part': 'seed', 'type': ['NORMAL', 'UNIFORM', 'NORMAL_MLHS', 'UNIFORMSYM_MLHS', 'NORMAL_HALTON2',
                                               'UNIFORM_MLHS_ANTI'][i % 6],
                      'seed1': s1, 'seed2': s1 + rng.randint(1, 1000), 'R': rng.choice([2, 6, 20]),
                      'N': rng.choice([1, 3]), 'junk': rng.randint(1, 50)})
    # integrals
    avals = [0.0, 0.3, -0.7, 1.0, 1.5, -1.2, 2.0] if tier == 'quick' else \
        [0.0] + [round(rng.uniform(-2.2, 2.2), 3) for _ in range(40)]
    for a in avals:
        for kind in ('exp', 'cos', 'poly', 'musigma', 'data', 'nested', 'two_rv', 'gauss'):
            cases.append({'part': 'int', 'kind': kind, 'a': a, 'c': round(rng.uniform(-1.5, 1.5), 3),
                          'mu': round(rng.uniform(-2, 2), 3), 's': round(rng.uniform(0.6, 1.8), 3),
                          'x': [round(rng.uniform(-1, 1), 3) for _ in range(3)],
                          'rv': rng.choice(['omega', 'w', 'a_rv', 'zz'])})
    n_der = 16 if tier == 'quick' else 160
    for i in range(n_der):
        cases.append({'part': 'der', 'kind': ['quad_exp', 'logsum', 'ratio', 'sincos', 'power', 'fixed', 'logit', 'linutil'][i % 8],
                      'a': round(rng.uniform(-1.5, 1.5), 3), 'b': round(rng.uniform(0.2, 1.5), 3),
                      'x': [round(rng.uniform(0.2, 2), 3) for _ in range(3)],
                      'y': [round(rng.uniform(-1, 1), 3) for _ in range(3)],
                      'names': rng.choice([['a', 'b'], ['b_first', 'a_second'], ['Z', 'k']])})
    return cases


# ------------------------------------------------------------------ worker: real code
def run_case(c, ctx):
    import numpy as np
    import pandas as pd
    import biogeme.database as db
    import biogeme.native_draws as nd
    from biogeme.biogeme import BIOGEME
    from biogeme.parameters import Parameters
    from biogeme.distributions import normalpdf
    from biogeme.expressions import (Beta, Variable, exp, log, sin, cos, MonteCarlo, bioDraws, Integrate,
                                     RandomVariable, Derive, Numeric, _bioLogLogit)
    fails = []

    def fail(clause, expected, got):
        fails.append({'clause': clause, 'case': c, 'expected': expected, 'got': got})

    if c['part'] == 'mc':
        N, R = c['N'], c['R']
        d = db.Database('c10', pd.DataFrame({'x': c['x'], 'unused': [float(7 + i) for i in range(N)]}))
        calls = {}

        def make_user(k):
            def g(n, r):
                calls.setdefault('user%d' % k, []).append((n, r))
                return np.array([[user_value(k, i, j) for j in range(r)] for i in range(n)], dtype=(np.int64 if k == 3 else float)).reshape(n, r)
            return g
        d.set_random_number_generators({t: (make_user(k), 'coded %d' % k) for t, k in USER_TYPES.items()})
        # recorder around the native generators used in this case
        recorded = {}
        originals = {}
        for t in c['types']:
            if t not in USER_TYPES:
                orig = nd.native_random_number_generators[t]
                originals[t] = orig

                def rec(n, r, _t=t, _orig=orig):
                    out = _orig.generator(n, r)
                    recorded.setdefault(_t, []).append(np.array(out, dtype=float).copy())
                    calls.setdefault(_t, []).append((n, r))
                    return out
                nd.native_random_number_generators[t] = nd.RandomNumberGeneratorTuple(rec, orig.description)
        try:
            def formula():
                b = Beta('bcoef', 0.0, None, None, 0)
                x = Variable('x')
                dv = [lambda i=i: bioDraws(c['names'][i], c['types'][i]) for i in range(len(c['types']))]
                d1, d2 = dv[0], dv[1]
                d3 = dv[2] if len(dv) == 3 else (lambda: Numeric(0))
                k = c['kind']
                if k == 'lin':
                    return MonteCarlo(b * x + d1() + 2 * d2() + 3 * d3())
                if k == 'prod':
                    return MonteCarlo(d1() * d2() - d3() + x)
                if k == 'expmix':
                    return MonteCarlo(exp(0.01 * d1()) * d2() + x * d3() + b)
                if k == 'twice':
                    return MonteCarlo(d1() + d1() * d2() + d3() * x * b)
                if k == 'outer':
                    return log(MonteCarlo(1 + d1() * d1() + 2 * d2() * d2() + 3 * d3() * d3())) + x * b
                if k == 'two_mc':
                    if len(dv) == 3:
                        return MonteCarlo(d1() * x) * MonteCarlo(d2() + d3() + b)
                    return MonteCarlo(d1() * x) * MonteCarlo(d2() + b)
                raise ValueError(k)

            def tables(round_no):
                S = []
                for t in c['types']:
                    if t in USER_TYPES:
                        S.append([[user_value(USER_TYPES[t], n, r) for r in range(R)] for n in range(N)])
                    else:
                        S.append(recorded[t][round_no].tolist())
                return S

            def n_rounds():
                nat = [t for t in c['types'] if t not in USER_TYPES]
                return min([len(recorded.get(t, [])) for t in nat]) if nat else 1

            def check(label, got):
                got = [float(v) for v in got]
                best = None
                for j in range(max(1, n_rounds())):
                    want = mc_oracle(c['kind'], c['x'], c['b'], tables(j), N, R)
                    if len(got) == N and all(close(g, w, 1e-10) for g, w in zip(got, want)):
                        return
                    best = best or want
                fail('MC mean over R draws, each variable fed the series of its own declared type [%s]' % label, best, got)

            def check_calls(label):
                bad = {k: v for k, v in calls.items() if any(cl != (N, R) for cl in v)}
                if bad:
                    fail('generators asked for (observations, R) numbers [%s]' % label, [N, R], bad)
                missing = [t for t in c['types'] if ('user%d' % USER_TYPES[t] if t in USER_TYPES else t) not in calls]
                if missing:
                    fail('generator of the declared type was used [%s]' % label, c['types'], sorted(calls))

            if c['path'] in ('expr', 'both'):
                e = formula()
                got = e.get_value_c(database=d, betas={'bcoef': c['b']}, number_of_draws=R, prepare_ids=True)
                check('expression', got)
                check_calls('expression')
                if tuple(d.theDraws.shape) != (N, R, len(c['types'])):
                    fail('draw table is [observation, draw, variable]', [N, R, len(c['types'])], list(d.theDraws.shape))
                if d.typesOfDraws != dict(zip(c['names'], c['types'])):
                    fail('type recorded per variable name', dict(zip(c['names'], c['types'])), d.typesOfDraws)
            if c['path'] in ('biogeme', 'both'):
                calls.clear()
                recorded.clear()
                p = Parameters()
                p.set_value('number_of_draws', R, section='MonteCarlo')
                p.set_value('number_of_threads', c['threads'], section='MultiThreading')
                bg = BIOGEME(d, {'v': formula()}, parameters=p)
                sim = bg.simulate({'bcoef': c['b']})
                check('BIOGEME.simulate', sim['v'].tolist())
                check_calls('BIOGEME')
        finally:
            for t, orig in originals.items():
                nd.native_random_number_generators[t] = orig

    elif c['part'] == 'seed':
        N, R = c['N'], c['R']

        def build(seed):
            d = db.Database('c10s', pd.DataFrame({'x': [0.5 + i for i in range(N)]}))
            p = Parameters()
            p.set_value('number_of_draws', R, section='MonteCarlo')
            p.set_value('seed', seed, section='MonteCarlo')
            p.set_value('number_of_threads', 1, section='MultiThreading')
            b = Beta('b', 0.3, None, None, 0)
            ll = log(MonteCarlo(exp(b * Variable('x') * bioDraws('xi', c['type']))))
            bg = BIOGEME(d, ll, parameters=p)
            return bg.calculate_likelihood([0.3], scaled=False), d.theDraws.copy()
        np.random.seed(c['junk'])
        v1, t1 = build(c['seed1'])
        np.random.rand(c['junk'])            # disturb the global generator between the two constructions
        v1b, t1b = build(c['seed1'])
        v2, t2 = build(c['seed2'])
        if not (v1 == v1b and np.array_equal(t1, t1b)):
            fail('non-zero seed: two constructions give identical values', v1, v1b)
        deterministic = 'HALTON' in c['type']
        if not deterministic and (v1 == v2 or np.array_equal(t1, t2)):
            fail('different seeds give different draws', 'different from %r' % v1, v2)
        if not math.isfinite(v1):
            fail('seeded likelihood is finite', 'finite', v1)

    elif c['part'] == 'int':
        a, cc, mu, s, rv = c['a'], c['c'], c['mu'], c['s'], c['rv']
        w = lambda: RandomVariable(rv)
        A = Beta('a', a, None, None, 0)
        C = Beta('c', cc, None, None, 1)
        k = c['kind']
        data = None
        if k == 'exp':
            e, want = Integrate(exp(A * w()) * normalpdf(w()), rv), [math.exp(a * a / 2)]
        elif k == 'cos':
            e, want = Integrate(cos(A * w()) * normalpdf(w()), rv), [math.exp(-a * a / 2)]
        elif k == 'poly':     # E[(c + a w)^2 + w^4] = c^2 + a^2 + 3
            e = Integrate(((C + A * w()) * (C + A * w()) + w() ** 4) * normalpdf(w()), rv)
            want = [cc * cc + a * a + 3.0]
        elif k == 'musigma':  # N(mu, s): E[w] + E[w^2] = mu + mu^2 + s^2
            e = Integrate((w() + w() * w()) * normalpdf(w(), mu, s), rv)
            want = [mu + mu * mu + s * s]
        elif k == 'data':     # per observation E[exp(a x_n w)] = exp((a x_n)^2/2)
            data = db.Database('c10i', pd.DataFrame({'x': c['x']}))
            e = Integrate(exp(A * Variable('x') * w()) * normalpdf(w()), rv)
            want = [math.exp((a * xn) ** 2 / 2) for xn in c['x']]
        elif k == 'nested':   # integral used inside a larger formula
            e = 2 * log(Integrate(exp(A * w()) * normalpdf(w()), rv)) + C
            want = [a * a + cc]
        elif k == 'two_rv':   # two integrals over two different variables in one formula
            rv2 = rv + '_2'
            e = Integrate(exp(A * w()) * normalpdf(w()), rv) - Integrate(
                RandomVariable(rv2) * RandomVariable(rv2) * C * normalpdf(RandomVariable(rv2), mu, s), rv2)
            want = [math.exp(a * a / 2) - cc * (mu * mu + s * s)]
        elif k == 'gauss':    # int exp(-(w-mu)^2) dw = sqrt(pi)
            e = Integrate(exp(-(w() - mu) * (w() - mu)) * (1 + A * A), rv)
            want = [math.sqrt(math.pi) * (1 + a * a)]
        if data is None:
            got = [e.get_value_c(prepare_ids=True)]
        else:
            got = list(e.get_value_c(database=data, prepare_ids=True))
        if len(got) != len(want) or not all(close(g, wv, 1e-6) for g, wv in zip(got, want)):
            fail('Integrate == closed-form integral over the real line', want, [float(g) for g in got])

    elif c['part'] == 'der':
        a, b = c['a'], c['b']
        na, nb = c['names']
        X, Y = c['x'], c['y']
        data = db.Database('c10d', pd.DataFrame({'x': X, 'y': Y, 'ch': [1.0, 2.0, 1.0]}))
        A = lambda: Beta(na, a, None, None, 0)
        B = lambda: Beta(nb, b, None, None, 0)
        x, y = (lambda: Variable('x')), (lambda: Variable('y'))
        k = c['kind']
        checks = []
        clause_tag = ''
        if k == 'quad_exp':
            f = lambda: A() * A() * x() + exp(A() * y())
            checks = [(na, [2 * a * xn + yn * math.exp(a * yn) for xn, yn in zip(X, Y)]),
                      ('y', [a * math.exp(a * yn) for yn in Y]), ('x', [a * a for _ in X]),
                      (nb, None)]
        elif k == 'logsum':
            f = lambda: log(1 + A() * A() + x() * x()) + B()
            checks = [(na, [2 * a / (1 + a * a + xn * xn) for xn in X]),
                      ('x', [2 * xn / (1 + a * a + xn * xn) for xn in X]), (nb, [1.0] * 3)]
        elif k == 'ratio':
            f = lambda: A() * B() * x() / (1 + y() * y())
            checks = [(nb, [a * xn / (1 + yn * yn) for xn, yn in zip(X, Y)]),
                      (na, [b * xn / (1 + yn * yn) for xn, yn in zip(X, Y)]),
                      ('y', [-2 * yn * a * b * xn / (1 + yn * yn) ** 2 for xn, yn in zip(X, Y)])]
        elif k == 'sincos':
            f = lambda: sin(A() * x()) + cos(B() * y())
            checks = [(na, [xn * math.cos(a * xn) for xn in X]), (nb, [-yn * math.sin(b * yn) for yn in Y]),
                      ('x', [a * math.cos(a * xn) for xn in X])]
        elif k == 'power':
            f = lambda: x() ** 3 + B() ** 2 * x()
            checks = [('x', [3 * xn * xn + b * b for xn in X]), (nb, [2 * b * xn for xn in X])]
        elif k == 'fixed':     # derivative with respect to a parameter that is not estimated
            F = lambda: Beta(nb, b, None, None, 1)
            f = lambda: exp(F() * x()) * A()
            checks = [(nb, [a * xn * math.exp(b * xn) for xn in X]), (na, [math.exp(b * xn) for xn in X])]
        elif k == 'logit':     # d/da log P(1) with V1 = a x, V2 = b y
            f = lambda: _bioLogLogit({1: A() * x(), 2: B() * y()}, None, Numeric(1))
            checks = [(na, [xn * (1 - 1 / (1 + math.exp(b * yn - a * xn))) for xn, yn in zip(X, Y)]),
                      (nb, [-yn / (1 + math.exp(a * xn - b * yn)) for xn, yn in zip(X, Y)])]
        elif k == 'linutil':   # linear-utility node: d/d(beta) = its variable, d/d(variable) = its beta
            if os.environ.get('C10_SKIP_LINUTIL') == '1':
                return fails
            from biogeme.expressions import bioLinearUtility, LinearTermTuple
            f = lambda: bioLinearUtility([LinearTermTuple(beta=A(), x=x()), LinearTermTuple(beta=B(), x=y())])
            checks = [(na, list(X)), (nb, list(Y)), ('x', [a] * 3), ('y', [b] * 3)]
            clause_tag = ' [bioLinearUtility]'
        for name, want in checks:
            if want is None:        # name not in the formula: nothing to assert
                continue
            # the derivative used inside a larger formula, to check it is a value like any other
            got = (Derive(f(), name) * 2 + 1).get_value_c(database=data, prepare_ids=True)
            if len(got) != 3 or not all(close(g, 2 * wv + 1, 1e-9) for g, wv in zip(got, want)):
                fail('Derive == analytic partial derivative wrt %s%s' % (name, clause_tag), [2 * wv + 1 for wv in want], [float(g) for g in got])
    return fails


def worker(path):
    with open(path) as f:
        job = json.load(f)
    out = {'done': 0, 'failures': [], 'stopped': False}
    for c in job['cases'][job['start']:]:
        try:
            out['failures'] += run_case(c, None)
            out['done'] += 1
        except Exception as e:
            import traceback
            out['failures'].append({'clause': 'valid formula evaluated without error (%s)' % c['part'], 'case': c,
                                    'expected': 'a value',
                                    'got': '%s: %s | %s' % (type(e).__name__, str(e)[:300],
                                                           traceback.format_exc().strip().splitlines()[-3][:120])})
            out['done'] += 1
            out['stopped'] = True
            break
    print('\n' + json.dumps(out))



def _diverse(failures, cap=60):
    """records of different kinds first (two per kind): a flood of one kind of failure must not hide another kind"""
    seen, first, rest = {}, [], []
    for f in failures:
        if not f:
            continue
        c = f.get('case') if isinstance(f.get('case'), dict) else {}
        k = (f.get('clause'), str(c.get('tag', c.get('part', c.get('formula', ''))))[:60])
        seen[k] = seen.get(k, 0) + 1
        (first if seen[k] <= 2 else rest).append(f)
    return (first + rest)[:cap]


def main():
    if len(sys.argv) >= 3 and sys.argv[1] == '--worker':
        worker(sys.argv[2])
        return 0
    tier = sys.argv[1] if len(sys.argv) > 1 else 'quick'
    seed = int(sys.argv[2]) if len(sys.argv) > 2 else 0
    rng = random.Random(seed * 104729 + (11 if tier == 'quick' else 12))
    cases = gen_cases(rng, tier)
    tmp = tempfile.mkdtemp(prefix='c10_')
    failures = []
    done = 0
    try:
        nchunks = 6 if tier == 'quick' else 12
        chunks = [cases[i::nchunks] for i in range(nchunks)]

        def run_chunk(idx):
            res = {'done': 0, 'failures': []}
            start = 0
            path = os.path.join(tmp, 'chunk%d.json' % idx)
            while start < len(chunks[idx]):
                with open(path, 'w') as f:
                    json.dump({'cases': chunks[idx], 'start': start}, f)
                pr = subprocess.run([sys.executable, os.path.abspath(__file__), '--worker', path],
                                    capture_output=True, text=True, cwd=tmp, timeout=570)
                lines = [ln for ln in pr.stdout.strip().splitlines() if ln.strip()]
                try:
                    out = json.loads(lines[-1])
                except Exception:
                    res['failures'].append({'clause': 'worker crashed', 'case': chunks[idx][start],
                                            'expected': 'json', 'got': (pr.stderr or pr.stdout)[-400:]})
                    start += 1
                    res['done'] += 1
                    continue
                res['done'] += out['done']
                res['failures'] += out['failures']
                start += max(1, out['done'])
            return res
        from concurrent.futures import ThreadPoolExecutor
        with ThreadPoolExecutor(max_workers=nchunks) as ex:
            for res in ex.map(run_chunk, range(nchunks)):
                done += res['done']
                failures += res['failures']
    finally:
        shutil.rmtree(tmp, ignore_errors=True)
    counts = {}
    for c in cases:
        counts[c['part']] = counts.get(c['part'], 0) + 1
    bound = ('%d Monte-Carlo formulas (6 integrand shapes incl. a variable used twice, MC inside log, two MC operators; '
             '2-3 draw variables of pairwise different types, >=1 coded user type + native types, names in random order; '
             'R in {1,2,5}, N in {1,3}; expression path and BIOGEME.simulate with 1-2 threads); %d seed cases '
             '(6 native types, same seed twice with disturbed global state, second seed); %d Integrate cases '
             '(8 closed forms, |a|<=2.2, sigma in [0.6,1.8], tol 1e-6); %d Derive cases (8 closed forms wrt free/fixed '
             'Beta and Variable, tol 1e-9)' % (counts.get('mc', 0), counts.get('seed', 0), counts.get('int', 0), counts.get('der', 0)))
    print(json.dumps({'cases': done, 'bound': bound, 'failures': _diverse(failures)}))
    return 0 if not failures else 1


if __name__ == '__main__':
    sys.exit(main())
