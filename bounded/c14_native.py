"""C14 bounded stand-ins on the real code (run under /venv/bin/python; no estimation, no engine).

usage: c14_native.py <mode> <tier> <seed>      prints ONE json line {"cases": n, "failures": [...]}

modes
  histories  every history of output generation in one directory (operations: write_pickle, write_html,
             write_latex, write_f12, Database.dump_on_file, Database.generate_flat_panel_dataframe(save_on_file=True))
             up to the stated length never replaces a file: after each operation every file that existed before
             is untouched (same inode, mtime, bytes) and the operation produced a name that did not exist.
  pickle     write_pickle then bioResults(pickle_file=...) gives the same estimates, statistics and reports.
  reports    get_html / write_html, get_latex / write_latex, get_f12 / write_f12, __str__ list every parameter
             with its formatted value (F12: name truncated to 10 characters by the format); short_summary runs.
  toml       read_file(dump_file(p)) keeps every (name, section, value), one parameter at a time over value grids
             filtered by the parameter's own checks, plus combined assignments.
Every mode works in a mkdtemp directory that is removed afterwards.
"""
import hashlib
import itertools
import json
import os
import re
import shutil
import sys
import tempfile

import numpy as np

sys.path.insert(0, os.path.dirname(os.path.abspath(__file__)))
import c08_native  # noqa: E402  (make_results: a bioResults object without estimation)


# ----------------------------------------------------------------------------------------------
# helpers
# ----------------------------------------------------------------------------------------------
class Workdir:
    def __enter__(self):
        self.old = os.getcwd()
        self.dir = tempfile.mkdtemp(prefix='verif-c14-')
        os.chdir(self.dir)
        return self.dir

    def __exit__(self, *a):
        os.chdir(self.old)
        shutil.rmtree(self.dir, ignore_errors=True)


def snapshot():
    out = {}
    for f in sorted(os.listdir('.')):
        if os.path.isfile(f):
            s = os.stat(f)
            with open(f, 'rb') as h:
                out[f] = (s.st_ino, s.st_mtime_ns, s.st_size, hashlib.sha1(h.read()).hexdigest())
    return out


NAMES = ['ASC_CAR', 'B_TIME', 'b', 'BETA_COST_LONG_NAME_OVER_15', 'B_TIME_2nd']
VALUES = [0.0, -1.25, 1.0e-300, 3.0e+300, 123456.789, -0.000123456, 2.5, 1.0]


def make_results(rng, K, with_null=True, with_boot=True, singular=False, names=None, values=None, model='m'):
    from biogeme.results import Beta
    res = c08_native.make_results(rng, K, with_null=with_null, with_boot=with_boot, singular=singular)
    d = res.data
    d.modelName = model
    if names is not None:
        d.betaNames = list(names[:K])
    if values is not None:
        d.betaValues = [float(v) for v in values[:K]]
        if d.bootstrap is not None:
            d.bootstrap = rng.normal(size=(9, K)) + np.array([min(max(v, -1e6), 1e6) for v in d.betaValues])
    d.betas = [Beta(n, v, (None, None)) for n, v in zip(d.betaNames, d.betaValues)]
    d.drawsProcessingTime = None
    res._calculate_stats()
    return res


def make_database(rng, name='thedata', panel=False, salt=0):
    import pandas as pd
    import biogeme.database as db
    n = 6
    df = pd.DataFrame({'ID': [1, 1, 2, 2, 3, 3], 'X': [float(x) for x in rng.integers(0, 100, size=n)],
                       'Y': [float(salt + i) for i in range(n)]})
    d = db.Database(name, df)
    if panel:
        d.panel('ID')
    return d


# ----------------------------------------------------------------------------------------------
# histories
# ----------------------------------------------------------------------------------------------
OPS = ['write_pickle', 'write_html', 'write_latex', 'write_f12', 'dump_on_file', 'generate_flat_panel_dataframe']


def _apply(op, res, flat_db, plain_db):
    if op == 'write_pickle':
        return res.write_pickle()
    if op == 'write_html':
        return res.write_html()
    if op == 'write_latex':
        return res.write_latex()
    if op == 'write_f12':
        return res.write_f12()
    if op == 'dump_on_file':
        return plain_db.dump_on_file()
    if op == 'generate_flat_panel_dataframe':
        return flat_db.generate_flat_panel_dataframe(save_on_file=True)
    raise ValueError(op)


def run_one_history(hist, rng, preexisting=()):
    """Returns None or a description of the first overwrite / missing new file."""
    with Workdir():
        for f in preexisting:
            with open(f, 'w') as h:
                h.write('earlier output ' + f)
        res = make_results(rng, 2)
        for step, op in enumerate(hist):
            # fresh data for each step: an overwrite changes the bytes as well
            flat_db = make_database(rng, panel=True, salt=step)
            plain_db = make_database(rng, panel=False, salt=step)
            before = snapshot()
            try:
                _apply(op, res, flat_db, plain_db)
            except Exception as e:   # an operation that cannot run is reported, not hidden
                return {'history': list(hist), 'step': step, 'op': op, 'preexisting': list(preexisting),
                        'what': f'raised {type(e).__name__}: {str(e)[:200]}'}
            after = snapshot()
            changed = [f for f in before if after.get(f) != before[f]]
            new = [f for f in after if f not in before]
            if changed:
                return {'history': list(hist), 'step': step, 'op': op, 'preexisting': list(preexisting),
                        'what': f'existing file(s) replaced or removed: {changed}'}
            if len(new) != 1:
                return {'history': list(hist), 'step': step, 'op': op, 'preexisting': list(preexisting),
                        'what': f'expected exactly one new file, got {new}'}
    return None


def history_plan(max_len, n_random, seed, only=None, full_len=2):
    ops = [o for o in OPS if only is None or o == only] if only in OPS or only is None else OPS
    plan = []
    # all histories up to length 2, each operation repeated up to max_len times, random histories of max_len
    for L in range(1, full_len + 1):
        if L <= max_len:
            plan += list(itertools.product(ops, repeat=L))
    for o in ops:
        for L in range(full_len + 1, max_len + 1):
            plan.append((o,) * L)
    rng = np.random.default_rng(seed + 77)
    for _ in range(n_random):
        plan.append(tuple(ops[int(i)] for i in rng.integers(0, len(ops), size=max_len)))
    return plan


def run_histories(max_len=5, n_random=10, seed=0, only=None, full_len=2):
    rng = np.random.default_rng(seed + 1)
    bad = []
    n = 0
    pre_sets = [(), ('m.html', 'm~00.html', 'm.pickle', 'thedata_dumped.dat', 'thedata_flatten.csv', 'm~01.tex', 'm.F12')]
    for k, hist in enumerate(history_plan(max_len, n_random, seed, only, full_len)):
        pre = pre_sets[k % 2]
        n += 1
        r = run_one_history(hist, rng, pre)
        if r is not None:
            # report one failure per offending operation (keeps the output short and stable)
            if not any(b['op'] == r['op'] and b['what'][:30] == r['what'][:30] for b in bad):
                bad.append(r)
    return n, bad


# ----------------------------------------------------------------------------------------------
# pickle round trip
# ----------------------------------------------------------------------------------------------
_STAMP = re.compile(r'(generated on|This file has automatically been generated on|Report file|File |Output file).*')


def _normal(text):
    """Reports without the lines that carry the generation time / the file names."""
    keep = []
    for line in text.splitlines():
        if 'generated on' in line or 'automatically been generated' in line:
            continue
        if re.search(r'\d{4}-\d{2}-\d{2} \d{2}:\d{2}:\d{2}', line):
            continue
        keep.append(line)
    return '\n'.join(keep)


def _same(a, b):
    if a is None or b is None:
        return a is None and b is None
    if isinstance(a, np.ndarray) or isinstance(b, np.ndarray):
        return np.array_equal(np.asarray(a), np.asarray(b), equal_nan=True)
    if isinstance(a, float) and isinstance(b, float):
        return a == b or (a != a and b != b)
    if isinstance(a, dict) and isinstance(b, dict):
        return a.keys() == b.keys() and all(_same(a[k], b[k]) for k in a)
    if isinstance(a, (list, tuple)) and isinstance(b, (list, tuple)):
        return len(a) == len(b) and all(_same(x, y) for x, y in zip(a, b))
    return a == b


def run_pickle(cases=8, seed=0):
    from biogeme.results import bioResults
    rng = np.random.default_rng(seed + 2)
    bad = []
    n = 0
    for c in range(cases):
        K = 1 + c % 4
        with Workdir():
            res = make_results(rng, K, with_null=c % 3 != 0, with_boot=c % 2 == 0, singular=(c % 5 == 4),
                               names=NAMES[c % 2:], values=VALUES[c % 5:])
            import copy
            saved = res
            res = copy.deepcopy(saved)       # the results as they were before saving: the reference
            f = saved.write_pickle()
            back = bioResults(pickle_file=f, identification_threshold=res.identification_threshold)
            n += 1
            diffs = []
            # raw data and every derived statistic stored in the data object
            for k, v in vars(res.data).items():
                if k in ('betas', 'pickleFileName'):
                    continue
                if not _same(v, getattr(back.data, k, '<missing>')):
                    diffs.append(f'data.{k}')
            for b1, b2 in zip(res.data.betas, back.data.betas):
                for k, v in vars(b1).items():
                    if not _same(v, getattr(b2, k, '<missing>')):
                        diffs.append(f'beta {b1.name}.{k}')
            if len(res.data.betas) != len(back.data.betas):
                diffs.append('number of betas')
            # estimates, statistics, reports
            if not _same(res.get_beta_values(), back.get_beta_values()):
                diffs.append('get_beta_values')
            g1, g2 = res.get_general_statistics(), back.get_general_statistics()
            if list(g1) != list(g2) or not all(_same(tuple(g1[k]), tuple(g2[k])) for k in g1):
                diffs.append('get_general_statistics')
            for rob in (True, False):
                if not res.get_estimated_parameters(rob).equals(back.get_estimated_parameters(rob)):
                    diffs.append(f'get_estimated_parameters({rob})')
                if _normal(res.get_html(rob)) != _normal(back.get_html(rob)):
                    diffs.append(f'get_html({rob})')
                if _normal(res.get_f12(rob)) != _normal(back.get_f12(rob)):
                    diffs.append(f'get_f12({rob})')
            if not res.get_correlation_results().equals(back.get_correlation_results()):
                diffs.append('get_correlation_results')
            if _normal(res.get_latex()) != _normal(back.get_latex()):
                diffs.append('get_latex')
            if str(res) != str(back):
                diffs.append('__str__')
            if res.short_summary() != back.short_summary():
                diffs.append('short_summary')
            if diffs:
                bad.append({'case': c, 'K': K, 'differs': diffs[:8]})
    return n, bad


# ----------------------------------------------------------------------------------------------
# reports list every parameter
# ----------------------------------------------------------------------------------------------
def _latex_fmt(x):
    r = f'{x:.3g}'
    return r if '.' in r else f'{r}.0'


def check_reports(res, read_files=True):
    """list of (report, parameter, what) for parameters that a report does not list with its value."""
    bad = []
    betas = [(b.name, b.value) for b in res.data.betas]
    K = len(betas)
    texts = {}
    for rob in (True, False):
        texts[f'get_html({rob})'] = res.get_html(rob)
        texts[f'get_f12({rob})'] = res.get_f12(rob)
        texts[f'get_latex({rob})'] = res.get_latex(rob)
    texts['__str__'] = str(res)
    summary = res.short_summary()
    if not isinstance(summary, str) or res.data.modelName not in summary:
        bad.append(('short_summary', '', 'does not name the model'))
    if read_files:
        res.write_html()
        res.write_latex()
        res.write_f12()
        for key, fname in (('write_html', res.data.htmlFileName), ('write_latex', res.data.latexFileName),
                           ('write_f12', res.data.F12FileName)):
            with open(fname, encoding='utf-8') as h:
                texts[key] = h.read()
    for key, text in texts.items():
        lines = text.splitlines()
        if 'html' in key:
            for name, value in betas:
                row = f'<tr class=biostyle><td>{name}</td><td>{value:.3g}</td>'
                if not any(l.startswith(row) for l in lines):
                    bad.append((key, name, f'no table row starting with {row!r}'))
        elif 'latex' in key:
            for name, value in betas:
                ok = False
                for l in lines:
                    cells = [c.strip() for c in l.rstrip('\\ ').split('&')]
                    if len(cells) >= 2 and cells[0] in (name, name.replace('_', '\\_')) and cells[1] == _latex_fmt(value):
                        ok = True
                        break
                if not ok:
                    bad.append((key, name, f'no table row "{name} & {_latex_fmt(value)} & ..."'))
        elif 'f12' in key:
            # coefficient block of the ALOGIT F12 format: after the title lines ('END'), up to the '  -1' line
            coef = []
            if 'END' in lines and '  -1' in lines:
                coef = lines[lines.index('END') + 1:lines.index('  -1')]
            if len(coef) != K:
                bad.append((key, '', f'{len(coef)} coefficient lines for {K} parameters'))
            for (name, value), l in zip(betas, coef):
                want_name = f'{name[:10]: >10}'
                want_val = f' {value: >+19.12e}'
                if l[5:15] != want_name or want_val not in l:
                    bad.append((key, name, f'coefficient line {l!r} does not carry {want_name!r} and {want_val!r}'))
        else:
            for name, value in betas:
                pre = f'{name:15}: {value:.3g}'
                if not any(l.startswith(pre) and (len(l) == len(pre) or l[len(pre)] == '[') for l in lines):
                    bad.append((key, name, f'no line starting with {pre!r}'))
    return bad


def run_reports(cases=8, seed=0):
    rng = np.random.default_rng(seed + 3)
    bad = []
    n = 0
    for c in range(cases):
        K = 1 + c % 5
        with Workdir():
            names = NAMES[c % len(NAMES):] + NAMES[:c % len(NAMES)]
            values = VALUES[c % len(VALUES):] + VALUES[:c % len(VALUES)]
            res = make_results(rng, K, with_null=c % 3 != 0, with_boot=c % 2 == 0, names=names, values=values)
            n += 1
            b = check_reports(res)
            if b:
                bad.append({'case': c, 'K': K, 'names': names[:K], 'values': values[:K], 'missing': [list(x) for x in b[:4]]})
    return n, bad


# ----------------------------------------------------------------------------------------------
# parameter file round trip
# ----------------------------------------------------------------------------------------------
GRID = {
    bool: [True, False],
    int: [0, 1, 2, 7, 100, 100000, 2 ** 40, -1],
    float: [0.0, 1.0e-300, 1.0e-5, 0.1, 0.5, 1.0, 123456.789, 6.06e-06, 1.0e+300, 2, -0.25],
    str: ['automatic', 'scipy', 'simple_bounds', 'simple_bounds_newton', 'TR-newton', 'LS-BFGS', 'uniform', 'MLHS',
          'model name', 'with "quotes"', "it's", 'unicodé', 'back\\slash', '# not a comment', 'a = b', '[x]', ''],
}


def admissible(p, t, v):
    if t.type is bool and not isinstance(v, bool):
        return False
    if t.type in (int, float) and isinstance(v, bool):
        return False
    # a number of another numeric type is admissible whenever the parameter's own checks accept it
    # (e.g. missing_data: declared int, checked with is_number only)
    if t.type is int and not isinstance(v, (int, float)):
        return False
    if t.type is str and not isinstance(v, str):
        return False
    cand = t._replace(value=v)
    try:
        ok, _ = p.check_parameter_value(cand)
    except Exception:
        return False
    return ok


def compare(p, q, label):
    out = []
    for key, t in p.all_parameters_dict.items():
        t2 = q.all_parameters_dict.get(key)
        if t2 is None:
            out.append(f'{label}: ({key.name}, {key.section}) lost')
            continue
        v, v2 = t.value, t2.value
        same = (v2 is v) if isinstance(v, bool) else (not isinstance(v2, bool) and v2 == v)
        if not same:
            out.append(f'{label}: ({key.name}, {key.section}) written {v!r}, read back {v2!r}')
    if len(q.all_parameters_dict) != len(p.all_parameters_dict):
        out.append(f'{label}: {len(p.all_parameters_dict)} parameters written, {len(q.all_parameters_dict)} after reading')
    return out


def round_trip(p, label):
    from biogeme.parameters import Parameters
    with Workdir():
        try:
            p.dump_file('params.toml')
        except Exception as e:
            return [f'{label}: dump_file raised {type(e).__name__}: {str(e)[:120]}']
        q = Parameters()
        try:
            q.read_file('params.toml')
        except Exception as e:
            return [f'{label}: read_file raised {type(e).__name__}: {str(e)[:120]}']
        return compare(p, q, label)


def run_toml(tier='quick', seed=0):
    from biogeme.parameters import Parameters
    bad = []
    n = 0
    base = Parameters()
    n += 1
    bad += round_trip(base, 'defaults')
    # a missing file is created with the defaults and read back
    with Workdir():
        n += 1
        q = Parameters()
        try:
            q.read_file('fresh.toml')
            r = Parameters()
            r.read_file('fresh.toml')
            bad += compare(q, r, 'file created by read_file')
            if not os.path.isfile('fresh.toml'):
                bad.append('read_file of a missing file did not create it')
        except Exception as e:
            bad.append(f'read_file of a missing file raised {type(e).__name__}: {str(e)[:120]}')
    if bad and all('line breaks' in b for b in bad):
        # nothing can be written at all: one diagnosis instead of hundreds
        diag = []
        from biogeme.parameters import format_comment
        multi = [k.name for k, t in base.all_parameters_dict.items() if '\n' in format_comment(t) or '\r' in format_comment(t)]
        diag.append(f'format_comment returns a multi-line string for {len(multi)} of {len(base.all_parameters_dict)} default '
                    f'parameters (e.g. {multi[:3]}); generate_document passes it to tomlkit Item.comment')
        return n, bad[:2] + diag
    rng = np.random.default_rng(seed + 4)
    for key, t in base.all_parameters_dict.items():
        extra_vals = [-999.5, 99999.99, 2.5] if t.type is int else ([3, -2] if t.type is float else [])
        for v in GRID[t.type] + extra_vals + [t.value]:
            if not admissible(base, t, v):
                continue
            p = Parameters()
            p.set_value(key.name, v, section=key.section)
            n += 1
            bad += round_trip(p, f'{key.name}={v!r}')
            if len(bad) > 20:
                return n, bad
    combos = 5 if tier == 'quick' else 200
    for c in range(combos):
        p = Parameters()
        for key, t in base.all_parameters_dict.items():
            cands = [v for v in GRID[t.type] if admissible(base, t, v)]
            if cands and rng.random() < 0.7:
                p.set_value(key.name, cands[int(rng.integers(0, len(cands)))], section=key.section)
        n += 1
        bad += round_trip(p, f'combined assignment #{c}')
    return n, bad


# ----------------------------------------------------------------------------------------------
def main():
    mode = sys.argv[1]
    tier = sys.argv[2] if len(sys.argv) > 2 else 'quick'
    seed = int(sys.argv[3]) if len(sys.argv) > 3 else 0
    thorough = tier == 'thorough'
    import logging
    logging.disable(logging.CRITICAL)
    if mode == 'histories':
        n, bad = run_histories(max_len=5, n_random=100 if thorough else 6, seed=seed, full_len=3 if thorough else 2)
    elif mode == 'pickle':
        n, bad = run_pickle(cases=100 if thorough else 8, seed=seed)
    elif mode == 'reports':
        n, bad = run_reports(cases=150 if thorough else 10, seed=seed)
    elif mode == 'toml':
        n, bad = run_toml(tier, seed)
    else:
        print(json.dumps({'cases': 0, 'failures': [f'unknown mode {mode}']}))
        return 1
    print(json.dumps({'cases': n, 'failures': bad}, default=str))
    return 1 if bad else 0


if __name__ == '__main__':
    sys.exit(main())
