"""C18 bounded stand-in for Mdcev.__init__ (real code, /venv python): label <-> position maps, one outside good.

The contract is out of the engine's reach (iteration over a set has no enumeration axioms), so natively:
for the three labellings of c18_models and `cases` random label sets (2..6 distinct integers in [-50, 200]),
every variant, every position of the outside good (or none):
  maps      key_to_index[index_to_key[i]] == i, index_to_key enumerates the labels once, outside_good_index is the
            position of outside_good_key, number_of_alternatives == n
  outside   outside_good_key is THE label whose gamma is None (None when there is none)
  errors    two outside goods, a missing gamma key, an extra gamma key -> BiogemeError
Prints one JSON line {"cases": n, "failures": [...]}.
"""
import json
import sys

import numpy as np

import c18_models as M


def build(variant, labels, outside_pos, extra_gamma=None, drop_gamma=None, second_outside=None):
    from biogeme.expressions import Numeric
    from biogeme.mdcev import GammaProfile, Generalized, NonMonotonic, Translated
    base = {lab: Numeric(0.1 * i) for i, lab in enumerate(labels)}
    gam = {lab: (None if i in (outside_pos, second_outside) else Numeric(1.0 + i)) for i, lab in enumerate(labels)}
    if extra_gamma is not None:
        gam[extra_gamma] = Numeric(1.0)
    if drop_gamma is not None:
        del gam[drop_gamma]
    alp = {lab: Numeric(0.5) for lab in labels}
    kw = dict(model_name='c18_init', baseline_utilities=base, gamma_parameters=gam)
    if variant == 'gamma_profile':
        return GammaProfile(**kw)
    if variant == 'translated':
        return Translated(alpha_parameters=alp, **kw)
    if variant == 'generalized':
        return Generalized(alpha_parameters=alp, **kw)
    return NonMonotonic(alpha_parameters=alp, mu_utilities=dict(base), **kw)


def run(cases=10, seed=0, limit=10):
    from biogeme.exceptions import BiogemeError
    rng = np.random.default_rng(seed + 31)
    sets = [list(l) for l in M.LABELLINGS]
    for _ in range(cases):
        n = int(rng.integers(2, 7))
        sets.append([int(v) for v in rng.choice(np.arange(-50, 201), size=n, replace=False)])
    out, count = [], 0

    def bad(what, **kw):
        if len(out) < limit:
            out.append({'check': what, **kw})

    for k, labels in enumerate(sets):
        variant = M.VARIANTS[k % 4]
        for outside_pos in [None] + list(range(len(labels))):
            count += 1
            try:
                m = build(variant, labels, outside_pos)
            except Exception as e:      # noqa
                bad('constructor raised', variant=variant, labels=labels, outside_pos=outside_pos, error=f'{type(e).__name__}: {e}'[:200])
                continue
            n = len(labels)
            ok = (len(m.index_to_key) == n and sorted(m.index_to_key) == sorted(labels) and m.number_of_alternatives == n
                  and set(m.key_to_index) == set(labels)
                  and all(m.key_to_index[m.index_to_key[i]] == i for i in range(n))
                  and all(m.index_to_key[m.key_to_index[lab]] == lab for lab in labels))
            if not ok:
                bad('maps', variant=variant, labels=labels, index_to_key=list(m.index_to_key), key_to_index=dict(m.key_to_index))
            want = None if outside_pos is None else labels[outside_pos]
            if m.outside_good_key != want:
                bad('outside', variant=variant, labels=labels, expected=want, outside_good_key=m.outside_good_key)
            want_idx = None if want is None else m.index_to_key.index(want)
            if m.outside_good_index != want_idx:
                bad('outside', variant=variant, labels=labels, expected_index=want_idx, outside_good_index=m.outside_good_index)
        # malformed inputs
        for what, kw in (('two outside goods', dict(outside_pos=0, second_outside=1)),
                         ('extra gamma key', dict(outside_pos=None, extra_gamma=max(labels) + 1)),
                         ('missing gamma key', dict(outside_pos=None, drop_gamma=labels[0]))):
            count += 1
            try:
                build(variant, labels, **kw)
                bad('errors', variant=variant, labels=labels, detail=f'{what}: accepted')
            except BiogemeError:
                pass
            except Exception as e:      # noqa
                bad('errors', variant=variant, labels=labels, detail=f'{what}: {type(e).__name__} instead of BiogemeError')
    return count, out


if __name__ == '__main__':
    cases = int(sys.argv[1]) if len(sys.argv) > 1 else 10
    seed = int(sys.argv[2]) if len(sys.argv) > 2 else 0
    n, failures = run(cases, seed)
    print(json.dumps({'cases': n, 'failures': failures}, default=str))
    sys.exit(1 if failures else 0)
