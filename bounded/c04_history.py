"""C04 bounded stand-in: histories on ONE BIOGEME object.  The sample log likelihood (and its derivatives) returned after a simulation
on the same object is still the weighted sum over ALL rows (the engine keeps one thread counter shared by simulation and likelihood).
Closed-form oracle in numpy.  Bound: regression-type formula with weights, 12 and 7 rows, 1/2/3/5 threads, 3 histories.
Prints one JSON line {"cases": n, "failures": [...]}; exit 0/1."""
import json
import sys
import warnings

import numpy as np
import pandas as pd


def main():
    warnings.simplefilter('ignore')
    import biogeme.database as db
    from biogeme.biogeme import BIOGEME
    from biogeme.parameters import Parameters
    from biogeme.expressions import Beta, Variable
    fails, n = [], 0
    for nrows in (12, 7):
        x = np.arange(1.0, nrows + 1.0)
        w = 0.5 + (np.arange(nrows) % 3)
        for threads in (1, 2, 3, 5):
            for hist in ('likelihood; simulate; likelihood', 'simulate; likelihood', 'derivatives; simulate; derivatives'):
                n += 1
                try:
                    d = db.Database('c04hist', pd.DataFrame({'x': x, 'w': w}))
                    b = Beta('b', 0.1, None, None, 0)
                    p = Parameters()
                    p.set_value('number_of_threads', threads, section='MultiThreading')
                    bg = BIOGEME(d, {'log_like': -(b * Variable('x') - 1.0) ** 2, 'weight': Variable('w')}, parameters=p)
                    theta = 0.3
                    want = float(np.sum(-w * (theta * x - 1.0) ** 2))
                    want_g = float(np.sum(-2.0 * w * x * (theta * x - 1.0)))
                    if hist.startswith('likelihood'):
                        bg.calculate_likelihood([theta], scaled=False)
                    elif hist.startswith('derivatives'):
                        bg.calculate_likelihood_and_derivatives([theta], scaled=False, hessian=True, bhhh=True)
                    bg.simulate({'b': theta})
                    got = float(bg.calculate_likelihood([theta], scaled=False))
                    out = bg.calculate_likelihood_and_derivatives([theta], scaled=False, hessian=True, bhhh=True)
                    got_g = float(np.asarray(out.gradient)[0])
                    if abs(got - want) > 1e-9 * abs(want) or abs(float(out.function) - want) > 1e-9 * abs(want) or abs(got_g - want_g) > 1e-9 * abs(want_g):
                        fails.append({'check': 'likelihood after a simulation on the same object is the sum over all rows',
                                      'rows': nrows, 'threads': threads, 'history': hist, 'expected': [want, want_g],
                                      'got': [got, float(out.function), got_g]})
                except Exception as e:
                    fails.append({'check': 'likelihood after a simulation on the same object is the sum over all rows',
                                  'rows': nrows, 'threads': threads, 'history': hist, 'got': f'{type(e).__name__}: {str(e)[:200]}'})
    # the likelihood is the one of the point it was ASKED at: also for points outside the bounds declared on the parameters (trial points
    # of a line search); the two entry points and the closed form agree there
    for lb, ub, theta in ((-0.2, 0.2, 0.5), (0.0, None, -0.3), (None, 0.1, 0.4), (-0.2, 0.2, 0.1)):
        n += 1
        try:
            x = np.arange(1.0, 8.0)
            w = 0.5 + (np.arange(7) % 3)
            d = db.Database('c04bnd', pd.DataFrame({'x': x, 'w': w}))
            b = Beta('b', 0.05, lb, ub, 0)
            bg = BIOGEME(d, {'log_like': -(b * Variable('x') - 1.0) ** 2, 'weight': Variable('w')}, parameters=Parameters())
            want = float(np.sum(-w * (theta * x - 1.0) ** 2))
            got = float(bg.calculate_likelihood([theta], scaled=False))
            got_s = float(bg.calculate_likelihood([theta], scaled=True))
            got_d = float(bg.calculate_likelihood_and_derivatives([theta], scaled=False).function)
            if max(abs(got - want), abs(got_s * 7 - want), abs(got_d - want)) > 1e-9 * abs(want):
                fails.append({'check': 'likelihood at a point outside the declared bounds is the likelihood of that point', 'bounds': [lb, ub],
                              'point': theta, 'expected': want, 'got': {'calculate_likelihood': got, 'scaled x N': got_s * 7, 'with_derivatives': got_d}})
        except Exception as e:
            fails.append({'check': 'likelihood at a point outside the declared bounds is the likelihood of that point', 'bounds': [lb, ub],
                          'point': theta, 'got': f'{type(e).__name__}: {str(e)[:200]}'})
    print(json.dumps({'cases': n, 'failures': fails[:12]}))
    return 1 if fails else 0


if __name__ == '__main__':
    sys.exit(main())
