"""C05/C06 translation validation, native half (runs under /venv/bin/python on the REAL code).

For every SHAPE up to a bound it calls the real builders of biogeme.models (logit, loglogit, mev, logmev,
mev_endogenous_sampling, nested, lognested, nested_mev_mu, lognested_mev_mu, get_mev_for_nested(_mu),
get_mev_generating_for_nested, cnl, logcnl, cnlmu, logcnlmu, get_mev_for_cross_nested(_mu),
ordered_logit, ordered_probit) on real Expression objects whose leaves are Beta('V1'), Beta('AV1'),
Beta('MU1'), ..., serialises the resulting real Expression trees (hash-consed DAG: structurally equal
subtrees get the same node id, so "tuple syntax == object syntax" is decided exactly, for all values),
and evaluates the real trees at random points with the real Python evaluator (`get_value`) and, for a
subset, with the compiled engine (`get_value_c`).  The other half (bounded/c05_tv.py, python3-vt)
re-evaluates the serialised trees through per-class semantics in 30-digit arithmetic and compares with
the textbook formulas.

usage: c05_dump.py <C05|C06> <quick|thorough> <seed> <outfile>
prints one JSON line {"cases": n, "failures": [...]}; exit 0/1 (failures: a builder raised on a valid shape).
"""
import itertools
import json
import logging
import math
import sys
import warnings

logging.disable(logging.CRITICAL)
warnings.filterwarnings('ignore')

import numpy as np  # noqa: E402

from biogeme import models  # noqa: E402
from biogeme.expressions import Beta, Expression, Numeric  # noqa: E402
from biogeme.nests import (NestsForCrossNestedLogit, NestsForNestedLogit, OneNestForCrossNestedLogit,  # noqa: E402
                           OneNestForNestedLogit)

IDS = [1, 3, 4, 7, 8, 12]          # alternative identifiers are deliberately not 0..J-1


def B(name, value=0.0):
    return Beta(name, float(value), None, None, 0)


# --------------------------------------------------------------------------- serialisation
class Ser:
    """Hash-consing serialiser of real Expression trees."""

    def __init__(self):
        self.nodes = []          # index = node id
        self.index = {}          # structural key -> node id
        self.by_obj = {}         # id(expression) -> node id
        self.keep = []           # serialised objects stay alive, so that id() is never re-used

    def add(self, key, node):
        k = json.dumps(key, sort_keys=True)
        if k not in self.index:
            self.index[k] = len(self.nodes)
            self.nodes.append(node)
        return self.index[k]

    def ser(self, e):
        if not isinstance(e, Expression):
            if isinstance(e, (int, float, bool)):
                return self.add(['pynum', float(e)], {'c': 'Numeric', 'v': float(e), 'py': True})
            raise TypeError(f'not an expression: {type(e)}')
        if id(e) in self.by_obj:
            return self.by_obj[id(e)]
        self.keep.append(e)
        c = type(e).__name__
        if c == 'Numeric':
            n = {'c': c, 'v': float(e.value)}
            key = [c, n['v']]
        elif c in ('Beta', 'Variable'):
            n = {'c': c, 'name': e.name}
            key = [c, e.name]
        elif c in ('_bioLogLogit', '_bioLogLogitFullChoiceSet', 'LogLogit'):
            ch = self.ser(e.choice)
            ut = {str(i): self.ser(u) for i, u in e.util.items()}
            av = {str(i): self.ser(a) for i, a in e.av.items()}
            n = {'c': 'LogLogit', 'cls': c, 'choice': ch, 'util': ut, 'av': av, 'order': [int(i) for i in e.util]}
            key = ['LogLogit', ch, ut, av, n['order']]          # the two subclasses share get_value
        elif c == 'ConditionalSum':
            terms = [[self.ser(t.condition), self.ser(t.term)] for t in e.list_of_terms]
            n = {'c': c, 'terms': terms}
            key = [c, terms]
        elif c == 'PowerConstant':
            k = [self.ser(e.child)]
            n = {'c': c, 'k': k, 'exponent': float(e.exponent)}
            key = [c, k, n['exponent']]
        elif hasattr(e, 'left') and hasattr(e, 'right') and len(e.children) == 2:
            k = [self.ser(e.left), self.ser(e.right)]
            n = {'c': c, 'k': k}
            key = [c, k]
        elif hasattr(e, 'child') and len(e.children) == 1:
            k = [self.ser(e.child)]
            n = {'c': c, 'k': k}
            key = [c, k]
        else:
            k = [self.ser(x) for x in e.get_children()]
            n = {'c': c, 'k': k}
            key = [c, k]
        i = self.add(key, n)
        self.by_obj[id(e)] = i
        return i


# --------------------------------------------------------------------------- shapes
def nested_structures(ids, max_nests):
    """Every partial partition: each alternative is alone (0) or in nest 1..max_nests (canonical numbering)."""
    out = []
    J = len(ids)

    def rec(pos, labels, used):
        if pos == J:
            nests = [[ids[p] for p in range(J) if labels[p] == m] for m in range(1, used + 1)]
            out.append(nests)
            return
        for lab in range(0, min(used + 1, max_nests) + 1):
            rec(pos + 1, labels + [lab], max(used, lab))
    rec(0, [], 0)
    return out


def cnl_structures(ids, max_nests, reduce_symmetry):
    subsets = [list(c) for r in range(1, len(ids) + 1) for c in itertools.combinations(ids, r)]
    out, seen = [[]], set()
    for k in range(1, max_nests + 1):
        for combo in itertools.combinations(subsets, k):
            if reduce_symmetry:
                best = None
                for perm in itertools.permutations(ids):
                    mp = dict(zip(ids, perm))
                    key = tuple(sorted(tuple(sorted(mp[a] for a in s)) for s in combo))
                    best = key if best is None or key < best else best
                if best in seen:
                    continue
                seen.add(best)
            out.append([list(s) for s in combo])
    return out


def engine_tree(name):
    """Trees also evaluated through the compiled engine (the others only through the Python evaluator)."""
    return '@tuple' not in name and '#' not in name and not name.startswith('lnG') and not name.startswith('G')


VARIANTS = ('same-name', 'reused', 'reordered', 'unsorted-names')


def named_structure(variant, make_nest, make_nests, k):
    """The same nest structure (nests in the same positions) reached through a different naming history.

    same-name:      every nest carries the explicit name 'N'
    reused:         unnamed nest objects first used alone -- (A_2,), (A_3,), ... -- each is named 'nest_1' in place by
                    Nests.__init__; then (A_1, ..., A_k) is built and A_1 is named 'nest_1' too (the (A,), then (B, A) history)
    reordered:      the same unnamed objects first used in the reverse order (A_k, ..., A_1): names are nest_k..nest_1 when
                    the structure (A_1, ..., A_k) is built, i.e. do not follow the positions and sort in the other order
    unsorted-names: explicit names 'z1', 'y2', 'x3', ... (listed in the opposite of their sort order)
    make_nest(m, name) builds nest m; make_nests(tuple) builds the Nests object.
    """
    if variant == 'same-name':
        return make_nests(tuple(make_nest(m, 'N') for m in range(k)))
    if variant == 'unsorted-names':
        return make_nests(tuple(make_nest(m, f'{chr(122 - m)}{m + 1}') for m in range(k)))
    objs = [make_nest(m, None) for m in range(k)]
    if variant == 'reused':
        for m in range(1, k):
            make_nests((objs[m],))
    else:
        make_nests(tuple(reversed(objs)))
    return make_nests(tuple(objs))


def safe(f):
    try:
        v = f()
        if isinstance(v, (np.floating, np.integer)):
            v = v.item()
        if isinstance(v, np.ndarray):
            v = float(v)
        return v
    except Exception as e:          # recorded, judged by the other half
        return {'err': f'{type(e).__name__}: {str(e)[:160]}'}


class Shape:
    def __init__(self, sid, family, meta):
        self.sid, self.family, self.meta = sid, family, meta
        self.ser = Ser()
        self.trees = {}          # name -> node id
        self.real = {}           # name -> real Expression
        self.dep_choice = {}     # name -> bool
        self.points = []
        self.build_errors = []

    def tree(self, name, build, choice=True):
        try:
            e = build()
        except Exception as ex:
            self.build_errors.append(f'{name}: {type(ex).__name__}: {str(ex)[:200]}')
            return
        if not isinstance(e, Expression):
            e = Numeric(e)        # e.g. log_gi = 0 for an alternative alone (cnl)
        self.trees[name] = self.ser.ser(e)
        self.real[name] = e
        self.dep_choice[name] = choice

    def evaluate(self, env, choices, engine):
        pt = {'env': env, 'py': {}, 'c': {}}
        for name, e in self.real.items():
            chs = choices if self.dep_choice[name] else [None]
            pt['py'][name] = {}
            if engine:
                pt['c'][name] = {}
            for ch in chs:
                full = dict(env)
                if ch is not None:
                    full['CHOICE'] = float(ch)
                e.change_init_values(full)
                pt['py'][name][str(ch)] = safe(e.get_value)
                if engine and engine_tree(name):
                    pt['c'][name][str(ch)] = safe(lambda: e.get_value_c(prepare_ids=True))
        self.points.append(pt)

    def dump(self):
        return {'sid': self.sid, 'family': self.family, 'meta': self.meta, 'trees': self.trees,
                'dep_choice': self.dep_choice, 'nodes': self.ser.nodes, 'points': self.points,
                'build_errors': self.build_errors}


def leaves(ids, with_av):
    V = {i: B(f'V{i}') for i in ids}
    # the availability dictionary lists the alternatives in ANOTHER order than the utility dictionary for every second
    # alternative set (a legitimate input: dictionaries are matched by key, never by position)
    order = list(ids) if (sum(ids) + len(ids)) % 2 == 0 else list(reversed(ids))
    av = {i: B(f'AV{i}', 1.0) for i in order} if with_av else None
    return V, av, B('CHOICE', ids[0])


def av_patterns(ids, with_av, rng, full):
    if not with_av:
        return [None]
    pats = [p for p in itertools.product([1.0, 0.0], repeat=len(ids)) if any(p)]
    if not full and len(pats) > 6:
        keep = [pats[0]] + [pats[int(k)] for k in rng.choice(np.arange(1, len(pats)), size=5, replace=False)]
        pats = keep
    return [dict(zip(ids, p)) for p in pats]


_ENG = {}


def eng_pats(cfg, rng, with_av, J):
    """Indices of the availability patterns evaluated through the engine: all available + (engine_pats-1) others."""
    key = (id(rng), with_av, J)
    if key not in _ENG:
        n = (2 ** J - 1) if with_av else 1
        if not cfg['full_av']:
            n = min(n, 6)
        extra = list(rng.choice(np.arange(1, n), size=min(cfg['engine_pats'] - 1, n - 1), replace=False)) if n > 1 else []
        _ENG[key] = {0, *[int(x) for x in extra]}
    return _ENG[key]


def base_env(ids, rng, pat, wide=False):
    scale = 12.0 if wide else 2.0
    env = {f'V{i}': float(rng.normal() * scale) for i in ids}
    if pat is not None:
        env.update({f'AV{i}': pat[i] for i in ids})
    return env


def mu_value(rng):
    return 1.0 if rng.random() < 0.15 else float(1.0 + rng.random() * 3.0)


# --------------------------------------------------------------------------- families
def fam_logit(sid, ids, with_av, rng, cfg):
    s = Shape(sid, 'logit', {'ids': ids, 'av': with_av})
    V, av, ch = leaves(ids, with_av)
    s.tree('P', lambda: models.logit(V, av, ch))
    s.tree('logP', lambda: models.loglogit(V, av, ch))
    for k, pat in enumerate(av_patterns(ids, with_av, rng, cfg['full_av'])):
        for r in range(cfg['pts']):
            s.evaluate(base_env(ids, rng, pat, wide=(r == 1)), ids, engine=(k in eng_pats(cfg, rng, with_av, len(ids)) and r == 0))
    return s


def fam_mev(sid, ids, with_av, rng, cfg):
    s = Shape(sid, 'mev', {'ids': ids, 'av': with_av})
    V, av, ch = leaves(ids, with_av)
    LG = {i: B(f'LG{i}') for i in ids}
    W = {i: B(f'W{i}') for i in ids}
    s.tree('P', lambda: models.mev(V, LG, av, ch))
    s.tree('logP', lambda: models.logmev(V, LG, av, ch))
    s.tree('P_es', lambda: models.mev_endogenous_sampling(V, LG, av, W, ch))
    s.tree('logP_es', lambda: models.logmev_endogenous_sampling(V, LG, av, W, ch))
    for k, pat in enumerate(av_patterns(ids, with_av, rng, cfg['full_av'])):
        for r in range(cfg['pts']):
            env = base_env(ids, rng, pat)
            env.update({f'LG{i}': float(rng.normal()) for i in ids})
            env.update({f'W{i}': float(rng.normal()) for i in ids})
            s.evaluate(env, ids, engine=(k in eng_pats(cfg, rng, with_av, len(ids)) and r == 0))
    return s


def fam_nested(sid, ids, nests, with_av, rng, cfg, prop):
    zenv = {}
    alone = [i for i in ids if not any(i in n for n in nests)]
    s = Shape(sid, 'nested', {'ids': ids, 'nests': nests, 'alone': alone, 'av': with_av})
    V, av, ch = leaves(ids, with_av)
    MU = B('MU', 1.0)
    mus = [B(f'MU{m + 1}', 1.0) for m in range(len(nests))]

    def obj():
        return NestsForNestedLogit(list(ids), tuple(OneNestForNestedLogit(mus[m], list(n)) for m, n in enumerate(nests)))

    def tup():
        return tuple((mus[m], list(n)) for m, n in enumerate(nests))
    s.tree('P', lambda: models.nested(V, av, obj(), ch))
    s.tree('logP', lambda: models.lognested(V, av, obj(), ch))
    s.tree('P_mu', lambda: models.nested_mev_mu(V, av, obj(), ch, MU))
    s.tree('logP_mu', lambda: models.lognested_mev_mu(V, av, obj(), ch, MU))
    if len(nests) >= 2:
        for var in VARIANTS:
            def vobj(var=var):
                return named_structure(var, lambda m, nm: OneNestForNestedLogit(mus[m], list(nests[m]), nm),
                                       lambda t: NestsForNestedLogit(list(ids), t), len(nests))
            s.tree(f'P#{var}', lambda vobj=vobj: models.nested(V, av, vobj(), ch))
            s.tree(f'logP#{var}', lambda vobj=vobj: models.lognested(V, av, vobj(), ch))
            s.tree(f'P_mu#{var}', lambda vobj=vobj: models.nested_mev_mu(V, av, vobj(), ch, MU))
            if prop == 'C06':
                s.tree(f'G#{var}', lambda vobj=vobj: models.get_mev_generating_for_nested(V, av, vobj()), choice=False)
                try:
                    vg = models.get_mev_for_nested(V, av, vobj())
                    vgm = models.get_mev_for_nested_mu(V, av, vobj(), MU)
                    for i in ids:
                        s.tree(f'lnG#{var}:{i}', (lambda vg=vg, i=i: vg[i]), choice=False)
                        s.tree(f'lnG_mu#{var}:{i}', (lambda vgm=vgm, i=i: vgm[i]), choice=False)
                except Exception as ex:
                    s.build_errors.append(f'get_mev_for_nested#{var}: {type(ex).__name__}: {str(ex)[:200]}')
    if prop == 'C06':
        s.tree('P_logit', lambda: models.logit(V, av, ch))
        s.tree('G', lambda: models.get_mev_generating_for_nested(V, av, obj()), choice=False)
        s.tree('G@tuple', lambda: models.get_mev_generating_for_nested(V, av, tup()), choice=False)
        lg, lgm, lgt, lgmt = {}, {}, {}, {}
        try:
            lg = models.get_mev_for_nested(V, av, obj())
            lgm = models.get_mev_for_nested_mu(V, av, obj(), MU)
            lgt = models.get_mev_for_nested(V, av, tup())
            lgmt = models.get_mev_for_nested_mu(V, av, tup(), MU)
        except Exception as ex:
            s.build_errors.append(f'get_mev_for_nested: {type(ex).__name__}: {str(ex)[:200]}')
        for i in ids:
            for nm, d in (('lnG', lg), ('lnG_mu', lgm), ('lnG@tuple', lgt), ('lnG_mu@tuple', lgmt)):
                if i in d:
                    s.tree(f'{nm}:{i}', (lambda d=d, i=i: d[i]), choice=False)
                else:
                    s.build_errors.append(f'{nm}: no term for alternative {i}')
        if nests:          # legacy tuple syntax (the converter needs at least one tuple to recognise it)
            # plain NUMBERS as nest parameters (the first one exactly 1.0, as in the bottom-normalised specification), both syntaxes
            nums = [1.0 if m == 0 else 1.0 + 0.7 * m for m in range(len(nests))]
            s.tree('P_mu#num', lambda: models.nested_mev_mu(
                V, av, NestsForNestedLogit(list(ids), tuple(OneNestForNestedLogit(nums[m], list(n)) for m, n in enumerate(nests))), ch, MU))
            s.tree('P_mu#num@tuple', lambda: models.nested_mev_mu(V, av, tuple((nums[m], list(n)) for m, n in enumerate(nests)), ch, MU))
            s.tree('logP#num', lambda: models.lognested(
                V, av, NestsForNestedLogit(list(ids), tuple(OneNestForNestedLogit(nums[m], list(n)) for m, n in enumerate(nests))), ch))
            s.tree('logP#num@tuple', lambda: models.lognested(V, av, tuple((nums[m], list(n)) for m, n in enumerate(nests)), ch))
            s.tree('P@tuple', lambda: models.nested(V, av, tup(), ch))
            s.tree('logP@tuple', lambda: models.lognested(V, av, tup(), ch))
            s.tree('P_mu@tuple', lambda: models.nested_mev_mu(V, av, tup(), ch, MU))
            s.tree('logP_mu@tuple', lambda: models.lognested_mev_mu(V, av, tup(), ch, MU))

        # the same structure written as a cross-nested logit with 0/1 allocations
        def cn01(zeros):
            return NestsForCrossNestedLogit(list(ids), tuple(
                OneNestForCrossNestedLogit(mus[m], {i: (1.0 if i in n else 0.0) for i in ids if (i in n or (zeros and any(i in o for o in nests)))})
                for m, n in enumerate(nests)))
        # allocations given as PARAMETERS: when the model is built every nested alternative sits (value 1) in the NEXT nest and has
        # allocation 0 in its own; at the evaluation points the values are exchanged, so the model must be the nested logit again
        zenv = {}
        if len(nests) >= 2:
            zal = [dict() for _ in nests]
            for m, n in enumerate(nests):
                o = (m + 1) % len(nests)
                for i in n:
                    zal[m][i] = B(f'Z{m + 1}_{i}', 0.0)
                    zal[o][i] = B(f'Z{o + 1}_{i}', 1.0)
                    zenv[f'Z{m + 1}_{i}'], zenv[f'Z{o + 1}_{i}'] = 1.0, 0.0
            s.tree('P@cnl01b', lambda: models.cnl(V, av, NestsForCrossNestedLogit(list(ids), tuple(
                OneNestForCrossNestedLogit(mus[m], dict(zal[m])) for m in range(len(nests)))), ch))
        s.tree('P@cnl01', lambda: models.cnl(V, av, cn01(False), ch))
        s.tree('logP@cnl01', lambda: models.logcnl(V, av, cn01(False), ch))
        s.tree('P_mu@cnl01', lambda: models.cnlmu(V, av, cn01(False), ch, MU))
        if len(nests) >= 2:
            s.tree('P@cnl01z', lambda: models.cnl(V, av, cn01(True), ch))
            s.tree('P_mu@cnl01z', lambda: models.cnlmu(V, av, cn01(True), ch, MU))
    for k, pat in enumerate(av_patterns(ids, with_av, rng, cfg['full_av'])):
        for r in range(cfg['pts']):
            env = base_env(ids, rng, pat)
            env['MU'] = mu_value(rng)
            env.update({f'MU{m + 1}': mu_value(rng) for m in range(len(nests))})
            env.update(zenv if prop == 'C06' else {})
            s.evaluate(env, ids, engine=(k in eng_pats(cfg, rng, with_av, len(ids)) and r == 0))
        if prop == 'C06' and k < 3:
            # reductions: all nest parameters one; scale one
            env = base_env(ids, rng, pat)
            env['MU'] = 1.0
            env.update({f'MU{m + 1}': mu_value(rng) for m in range(len(nests))})
            env['_tag'] = 'mu=1'
            env.update(zenv)
            s.evaluate(env, ids, engine=(k == 0))
            if with_av and k == 0:
                # availabilities coded by a COUNT (0, 2, 3 ...): available means "not zero", in the scaled and in the unscaled version
                env = base_env(ids, rng, pat)
                for n_, i_ in enumerate(ids):
                    if env.get(f'AV{i_}', 1.0) != 0.0:
                        env[f'AV{i_}'] = float(2 + n_ % 2)
                env['MU'] = 1.0
                env.update({f'MU{m + 1}': mu_value(rng) for m in range(len(nests))})
                env['_tag'] = 'mu=1'
                env.update(zenv)
                s.evaluate(env, ids, engine=True)
            env = base_env(ids, rng, pat)
            env['MU'] = 1.0
            env.update({f'MU{m + 1}': 1.0 for m in range(len(nests))})
            env['_tag'] = 'all-one'
            env.update(zenv)
            s.evaluate(env, ids, engine=(k == 0))
    return s


def fam_cnl(sid, ids, nests, with_av, rng, cfg, prop):
    alone = [i for i in ids if not any(i in n for n in nests)]
    s = Shape(sid, 'cnl', {'ids': ids, 'nests': nests, 'alone': alone, 'av': with_av})
    V, av, ch = leaves(ids, with_av)
    MU = B('MU', 1.0)
    mus = [B(f'MU{m + 1}', 1.0) for m in range(len(nests))]
    # membership parameters are expressions evaluated LATER at other values: the first membership of an alternative that sits in
    # several nests has the value 0 when the model is built (and any value at the evaluation points)
    def a0(m, i):
        return 0.0 if any(i in later for later in nests[m + 1:]) and not any(i in earlier for earlier in nests[:m]) else 1.0
    al = [{i: B(f'A{m + 1}_{i}', a0(m, i)) for i in n} for m, n in enumerate(nests)]

    def obj():
        return NestsForCrossNestedLogit(list(ids), tuple(OneNestForCrossNestedLogit(mus[m], dict(al[m])) for m in range(len(nests))))

    def tup():
        return tuple((mus[m], dict(al[m])) for m in range(len(nests)))
    s.tree('P', lambda: models.cnl(V, av, obj(), ch))
    s.tree('logP', lambda: models.logcnl(V, av, obj(), ch))
    s.tree('P_mu', lambda: models.cnlmu(V, av, obj(), ch, MU))
    s.tree('logP_mu', lambda: models.logcnlmu(V, av, obj(), ch, MU))
    if len(nests) >= 2:
        for var in VARIANTS:
            def vobj(var=var):
                return named_structure(var, lambda m, nm: OneNestForCrossNestedLogit(mus[m], dict(al[m]), nm),
                                       lambda t: NestsForCrossNestedLogit(list(ids), t), len(nests))
            s.tree(f'P#{var}', lambda vobj=vobj: models.cnl(V, av, vobj(), ch))
            s.tree(f'logP#{var}', lambda vobj=vobj: models.logcnl(V, av, vobj(), ch))
            s.tree(f'P_mu#{var}', lambda vobj=vobj: models.cnlmu(V, av, vobj(), ch, MU))
    if prop == 'C06' and nests:
        s.tree('P@tuple', lambda: models.cnl(V, av, tup(), ch))
        s.tree('logP@tuple', lambda: models.logcnl(V, av, tup(), ch))
        s.tree('P_mu@tuple', lambda: models.cnlmu(V, av, tup(), ch, MU))
        s.tree('logP_mu@tuple', lambda: models.logcnlmu(V, av, tup(), ch, MU))
    for k, pat in enumerate(av_patterns(ids, with_av, rng, cfg['full_av'])):
        for r in range(cfg['pts']):
            env = base_env(ids, rng, pat)
            env['MU'] = mu_value(rng)
            if prop == 'C06' and r == 0:
                env['MU'] = 1.0
                env['_tag'] = 'mu=1'
            env.update({f'MU{m + 1}': mu_value(rng) for m in range(len(nests))})
            for i in ids:
                ms = [m for m, n in enumerate(nests) if i in n]
                w = rng.random(len(ms)) + 0.05
                w = w / w.sum()
                for m, x in zip(ms, w):
                    env[f'A{m + 1}_{i}'] = float(x)
            s.evaluate(env, ids, engine=(k in eng_pats(cfg, rng, with_av, len(ids)) and r == 0))
    return s


def fam_ordered(sid, K, kind, rng, cfg):
    levels = [2, 3, 5, 6, 9, 11, 12][:K]
    s = Shape(sid, 'ordered', {'levels': levels, 'cdf': kind})
    x, tau = B('X'), B('TAU')
    f = models.ordered_logit if kind == 'logit' else models.ordered_probit
    d = {}
    try:
        d = f(continuous_value=x, list_of_discrete_values=list(levels), tau_parameter=tau)
    except Exception as ex:
        s.build_errors.append(f'{f.__name__}: {type(ex).__name__}: {str(ex)[:200]}')
    if list(d) != levels:
        s.build_errors.append(f'keys {list(d)} != levels {levels}')
    for lv, e in d.items():
        s.tree(f'P:{lv}', (lambda e=e: e), choice=False)
    for r in range(cfg['pts'] * 4):
        env = {'X': float(rng.normal() * 2), 'TAU': float(rng.normal() * 2)}
        env.update({f'TAU_diff_{lv}': float(rng.random() * 3 + (0.0 if r % 4 else 1e-3)) for lv in levels[1:-1]})
        s.evaluate(env, [], engine=True)
    return s


def run_task(t):
    fam, sid, seed, args = t
    rng = np.random.default_rng([20240, seed, sid])
    _ENG.clear()
    f = {'logit': fam_logit, 'mev': fam_mev, 'nested': fam_nested, 'cnl': fam_cnl, 'ordered': fam_ordered}[fam]
    a = list(args)
    a.insert({'logit': 2, 'mev': 2, 'nested': 3, 'cnl': 3, 'ordered': 2}[fam], rng)
    return f(f's{sid}', *a).dump()


def main():
    prop, tier, seed, out = sys.argv[1], sys.argv[2], int(sys.argv[3]), sys.argv[4]
    jobs = int(sys.argv[5]) if len(sys.argv) > 5 else 6
    rng = np.random.default_rng(20240 + seed)
    thorough = tier == 'thorough'
    cfg = {'pts': 2 if not thorough else 4, 'full_av': True, 'engine_pats': 2 if not thorough else 4}
    maxJ, maxN, maxK = (4, 3, 5) if not thorough else (6, 4, 7)
    tasks = []
    if prop == 'C05':
        for J in range(1, maxJ + 1):
            for with_av in (False, True):
                tasks.append(('logit', (IDS[:J], with_av, cfg)))
                tasks.append(('mev', (IDS[:J], with_av, cfg)))
        for K in range(2, maxK + 1):
            for kind in ('logit', 'probit'):
                tasks.append(('ordered', (K, kind, cfg)))
    for J in range(2, maxJ + 1):
        ids = IDS[:J]
        big = J > 4
        c2 = dict(cfg, full_av=not big, pts=cfg['pts'] if not big else 1)
        structs = nested_structures(ids, maxN)
        if big:       # thorough tier, 5-6 alternatives: a random part of the structures
            structs = [st for st in structs if rng.random() < (0.34 if J == 5 else 0.08)]
        for nests in structs:
            for with_av in (False, True):
                tasks.append(('nested', (ids, nests, with_av, c2, prop)))
    for J in range(2, min(maxJ, 5) + 1):
        ids = IDS[:J]
        reduce_sym = (J >= 4) if not thorough else (J >= 5)
        nmax = maxN if J <= 3 else 3
        for nests in cnl_structures(ids, nmax, reduce_sym):
            for with_av in (False, True):
                c2 = dict(cfg, full_av=(J <= 3), pts=1 if J >= 4 else cfg['pts'], engine_pats=2)
                tasks.append(('cnl', (ids, nests, with_av, c2, prop)))
    tasks = [(fam, k, seed, args) for k, (fam, args) in enumerate(tasks)]
    import os
    if os.environ.get('C05_DRY'):
        from collections import Counter
        print(json.dumps({'tasks': Counter((t[0], len(t[3][0]) if t[0] != 'ordered' else t[3][0]) for t in tasks).most_common()}, default=str))
        return 0
    if jobs > 1:
        import multiprocessing as mp
        # the compiled engine leaks a few MB per evaluation: workers are recycled
        with mp.get_context('fork').Pool(jobs, maxtasksperchild=12) as pool:
            dumps = pool.map(run_task, tasks, chunksize=2)
    else:
        dumps = [run_task(t) for t in tasks]
    failures = []
    for d in dumps:
        for b in d['build_errors']:
            failures.append({'shape': d['sid'], 'family': d['family'], 'meta': d['meta'], 'error': b})
    with open(out, 'w') as f:
        json.dump({'prop': prop, 'tier': tier, 'seed': seed, 'bounds': {'alternatives': maxJ, 'nests': maxN, 'levels': maxK},
                   'shapes': dumps}, f)
    cases = sum(len(d['points']) * max(1, len(d['trees'])) for d in dumps)
    print(json.dumps({'cases': cases, 'shapes': len(dumps), 'failures': failures[:20]}))
    return 1 if failures else 0


if __name__ == '__main__':
    sys.exit(main())
