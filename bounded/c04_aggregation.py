"""Bounded stand-in for C04 (aggregation over observations) on the real code.

usage: /venv/bin/python c04_aggregation.py <quick|thorough> <seed>

Property C04: the sample log likelihood equals the sum over the observations of weight times the per-observation
value that `simulate` reports for the same parameters (weight one when no weight formula is given); the scaled
variant divides by the sample size; the result does not depend on the order of the rows, on the number of threads
(1, 2, 3, 7, N+3) nor on how the rows are split into parts whose values are added; gradient, Hessian and BHHH
aggregate in the same way (sum of w g_n, sum of w H_n, sum of w g_n g_n').

Oracle: plain Python sums (math.fsum) of  w_n * l_n  where the weights w_n are recomputed here from the data with the
weight formula's arithmetic and l_n is (a) the column that BIOGEME.simulate reports (the property relates these two
paths) and (b) the hand-written closed form of the model (binary logit, 3-alternative logit with availabilities,
normal regression with a log-scale parameter), which also supplies per-observation gradients and Hessians.
Tolerance 1e-10 relative to the sum of the magnitudes of the terms.

Clauses (names in the failure records)
  simulate-value     the simulated per-observation column against the closed form; simulated weight column against the
                     recomputed weights; columns in dict order; one row per observation
  sum                calculate_likelihood / calculate_likelihood_and_derivatives (unscaled) = sum w_n l_n(simulate)
  scaled             the scaled variants = the unscaled ones divided by the number of rows
  derivatives        gradient / Hessian / BHHH = sums of w g_n, w H_n, w g_n g_n' with per-row derivatives from
                     get_value_and_derivatives(aggregation=False) and from the closed form
  row-order          permuted rows (all permutations for N <= 4, random ones beyond): same value and derivatives
  threads            1, 2, 3, 7, N+3 threads: same value and derivatives (also for simulate)
  split              rows split into parts (random 2-way splits, k-way partitions, parts of one row, parts whose weights
                     are all zero): the parts' values and derivatives add up to those of the whole sample
  formula-keys       the accepted spellings of the dictionary keys ('log_like'/'loglike', 'weight'/'weights') and a
                     bare formula give the same numbers
"""
import itertools
import json
import math
import os
import random
import shutil
import subprocess
import sys
import tempfile
import time

import numpy as np

RTOL = 1e-10
NAME_POOL = ['zeta', 'alpha', 'mid', 'Beta2', 'beta10', 'beta9', '_u', 'Zed']


def pick_names(rng, k):
    while True:
        names = rng.sample(NAME_POOL, k)
        if sorted(names) != names:
            return names


def rnd(rng, lo, hi):
    return round(rng.uniform(lo, hi), 3)


# ----------------------------------------------------------------------------------------------------------------
# models: each returns dict(names (order of appearance), make(betas) -> biogeme expression, columns(rng, n) -> data,
#                           closed(theta, row, order) -> (l, g, H))
# ----------------------------------------------------------------------------------------------------------------
def model_binary_logit(rng):
    names = pick_names(rng, 3)
    b1, b2, asc = names

    def make(beta):
        from biogeme import models
        from biogeme.expressions import Variable
        v1 = beta(b1) * Variable('x1') + Variable('x2') * beta(b2)
        return models.loglogit({1: v1, 2: beta(asc)}, None, Variable('y'))

    def columns(rng, n):
        return {'x1': [rnd(rng, -2, 2) for _ in range(n)], 'x2': [rnd(rng, -2, 2) for _ in range(n)],
                'y': [rng.choice((1, 2)) for _ in range(n)]}

    def closed(theta, row, order):
        xv = np.zeros(3)
        xv[order[b1]], xv[order[b2]], xv[order[asc]] = row['x1'], row['x2'], -1.0
        d = theta[b1] * row['x1'] + theta[b2] * row['x2'] - theta[asc]
        p1 = 1.0 / (1.0 + math.exp(-d))
        y1 = 1.0 if row['y'] == 1 else 0.0
        return y1 * d - math.log1p(math.exp(d)), (y1 - p1) * xv, -p1 * (1 - p1) * np.outer(xv, xv)
    return dict(tag='binary-logit', names=names, make=make, columns=columns, closed=closed)


def model_mnl3(rng):
    names = pick_names(rng, 4)
    bt, a1, bc, a2 = names

    def make(beta):
        from biogeme import models
        from biogeme.expressions import Variable
        asc = {1: beta(a1), 2: beta(a2), 3: 0}
        util = {j: asc[j] + beta(bt) * Variable('t%d' % j) + beta(bc) * Variable('c%d' % j) for j in (1, 2, 3)}
        return models.loglogit(util, {j: Variable('av%d' % j) for j in (1, 2, 3)}, Variable('ch'))

    def columns(rng, n):
        d = {}
        for j in (1, 2, 3):
            d['t%d' % j] = [rnd(rng, 0.1, 3) for _ in range(n)]
            d['c%d' % j] = [rnd(rng, 0.1, 2) for _ in range(n)]
        d['ch'] = [rng.choice((1, 2, 3)) for _ in range(n)]
        for j in (1, 2, 3):
            d['av%d' % j] = [1 if (d['ch'][r] == j or rng.random() < 0.7) else 0 for r in range(n)]
        return d

    def closed(theta, row, order):
        xs, vs = {}, {}
        for j in (1, 2, 3):
            if row['av%d' % j] == 0:
                continue
            x = np.zeros(4)
            x[order[bt]], x[order[bc]] = row['t%d' % j], row['c%d' % j]
            if j == 1:
                x[order[a1]] = 1.0
            if j == 2:
                x[order[a2]] = 1.0
            xs[j] = x
            vs[j] = float(x @ np.array([theta[nm] for nm in sorted(theta)]))
        top = max(vs.values())
        den = sum(math.exp(v - top) for v in vs.values())
        p = {j: math.exp(vs[j] - top) / den for j in vs}
        c = int(row['ch'])
        mean = sum(p[j] * xs[j] for j in vs)
        return (vs[c] - top - math.log(den), xs[c] - mean,
                -(sum(p[j] * np.outer(xs[j], xs[j]) for j in vs) - np.outer(mean, mean)))
    return dict(tag='mnl3', names=names, make=make, columns=columns, closed=closed)


def model_regression(rng):
    names = pick_names(rng, 3)
    b1, b2, b3 = names

    def make(beta):
        from biogeme.expressions import Variable, exp
        r = Variable('yc') - beta(b1) - beta(b2) * Variable('x1')
        return -0.5 * r * r * exp(-2 * beta(b3)) - beta(b3)

    def columns(rng, n):
        return {'x1': [rnd(rng, -2, 2) for _ in range(n)], 'yc': [rnd(rng, -3, 3) for _ in range(n)]}

    def closed(theta, row, order):
        r = row['yc'] - theta[b1] - theta[b2] * row['x1']
        e2 = math.exp(-2 * theta[b3])
        x = row['x1']
        g = np.zeros(3)
        H = np.zeros((3, 3))
        i1, i2, i3 = order[b1], order[b2], order[b3]
        g[i1], g[i2], g[i3] = r * e2, r * x * e2, r * r * e2 - 1.0
        H[i1, i1] = -e2
        H[i2, i2] = -x * x * e2
        H[i3, i3] = -2 * r * r * e2
        H[i1, i2] = H[i2, i1] = -x * e2
        H[i1, i3] = H[i3, i1] = -2 * r * e2
        H[i2, i3] = H[i3, i2] = -2 * r * x * e2
        return -0.5 * r * r * e2 - theta[b3], g, H
    return dict(tag='regression', names=names, make=make, columns=columns, closed=closed)


MODELS = (model_binary_logit, model_mnl3, model_regression)

# weight specifications: (tag, biogeme formula maker, recomputation from a row)
WEIGHTS = (
    ('none', None, lambda row: 1.0),
    ('column', lambda: __import__('biogeme.expressions', fromlist=['Variable']).Variable('w'), lambda row: row['w']),
    ('2*column', lambda: 2 * __import__('biogeme.expressions', fromlist=['Variable']).Variable('w'),
     lambda row: 2 * row['w']),
    ('w+w2', lambda: (__import__('biogeme.expressions', fromlist=['Variable']).Variable('w')
                      + __import__('biogeme.expressions', fromlist=['Variable']).Variable('w2')),
     lambda row: row['w'] + row['w2']),
    ('fixed*column', lambda: (__import__('biogeme.expressions', fromlist=['Beta']).Beta('wscale', 1.5, None, None, 1)
                              * __import__('biogeme.expressions', fromlist=['Variable']).Variable('w')),
     lambda row: 1.5 * row['w']),
)
WEIGHT_VALUES = (0.0, 0.0, 0.5, 1.0, 1.0, 2.25, 3.0, 0.125)


class Poisoned(Exception):
    pass


class Checker:
    def __init__(self, tier, seed):
        import logging
        import warnings
        logging.disable(logging.CRITICAL)
        warnings.filterwarnings('ignore')
        self.tier, self.seed = tier, seed
        self.cases = 0
        self.failures = []
        self.hist = {}
        self.models_built = 0

    def fail(self, clause, sc, expected, got, extra=None):
        desc = {'model': sc['model']['tag'], 'free_in_order_of_appearance': sc['model']['names'], 'theta': sc['theta'],
                'weight': sc['weight'][0], 'rows': len(sc['rows']),
                'data': sc['rows'] if len(sc['rows']) <= 6 else sc['rows'][:3] + ['...']}
        if extra:
            desc.update(extra)
        key = clause + ' | ' + sc['model']['tag'] + ' | weight ' + sc['weight'][0]
        self.hist[key] = self.hist.get(key, 0) + 1

        def conv(o):
            if isinstance(o, np.ndarray):
                return o.tolist()
            if isinstance(o, (np.floating, np.integer)):
                return o.item()
            return str(o)
        if len(self.failures) < 10:
            self.failures.append(json.loads(json.dumps({'clause': clause, 'case': desc, 'expected': expected, 'got': got},
                                                       default=conv)))
        else:
            self.failures.append(None)

    def sentinel_ok(self):
        import biogeme.expressions as ex
        try:
            b = ex.Beta('s', 2.0, None, None, 0)
            return float((b * b).get_value_c(prepare_ids=True)) == 4.0
        except Exception:
            return False

    def guarded(self, clause, sc, fn, extra=None):
        try:
            return fn()
        except Exception as e:  # noqa
            self.fail(clause, sc, 'a result', 'raised %s: %s' % (type(e).__name__, str(e)[:300]), extra)
            if not self.sentinel_ok():
                raise Poisoned()
            return None

    # -- building -------------------------------------------------------------------------------------------
    def database(self, rows):
        import pandas as pd
        import biogeme.database as bdb
        cols = list(rows[0])
        return bdb.Database('c04', pd.DataFrame({c: [r[c] for r in rows] for c in cols}))

    def biogeme(self, sc, rows, threads, keys=('log_like', 'weight'), bare=False, extra_formulas=None):
        from biogeme.biogeme import BIOGEME
        from biogeme.parameters import Parameters
        import biogeme.expressions as ex
        init = {nm: 0.05 * (i + 1) for i, nm in enumerate(sc['model']['names'])}
        store = {}

        def beta(nm):
            if nm not in store:
                store[nm] = ex.Beta(nm, init[nm], None, None, 0)
            return store[nm]
        like = sc['model']['make'](beta)
        wmake = sc['weight'][1]
        if wmake is None:
            formulas = like if bare else {keys[0]: like}
        else:
            formulas = {keys[0]: like, keys[1]: wmake()}
        if extra_formulas and isinstance(formulas, dict):
            formulas.update(extra_formulas(beta))
        par = Parameters()
        par.set_value('number_of_threads', threads, section='MultiThreading')
        par.set_value('save_iterations', False, section='Estimation')
        self.models_built += 1
        return BIOGEME(self.database(rows), formulas, parameters=par)

    def evaluate(self, sc, rows, threads, clause, extra=None, **kw):
        """(f, g, H, BHHH) unscaled through calculate_likelihood_and_derivatives"""
        def run():
            bg = self.biogeme(sc, rows, threads, **kw)
            out = bg.calculate_likelihood_and_derivatives(sc['x'], scaled=False, hessian=True, bhhh=True)
            return (float(out.function), np.array(out.gradient, dtype=float), np.array(out.hessian, dtype=float),
                    np.array(out.bhhh, dtype=float))
        return self.guarded(clause, sc, run, extra)

    # -- comparing ------------------------------------------------------------------------------------------
    def close(self, got, want, scale):
        got, want, scale = np.asarray(got, dtype=float), np.asarray(want, dtype=float), np.asarray(scale, dtype=float)
        if got.shape != want.shape:
            return False
        return bool(np.all(np.isfinite(got)) and np.all(np.abs(got - want) <= RTOL * scale + 1e-300))

    def same(self, clause, sc, got, ref, scales, extra):
        """got / ref: (f, g, H, B) tuples"""
        self.cases += 1
        if got is None:
            return
        for a, b, s, what in zip(got, ref, scales, ('value', 'gradient', 'hessian', 'bhhh')):
            if not self.close(a, b, s):
                self.fail(clause, sc, b, a, dict(extra, what=what))
                return

    def terms(self, sc, rows, l_col):
        """oracle sums for a list of rows: weights recomputed here, l_n taken from l_col (dict row id -> value)"""
        order = sc['order']
        n = len(order)
        w = [sc['weight'][2](r) for r in rows]
        fs, gs, hs, bs = [], [], [], []
        for r, wr in zip(rows, w):
            l, g, h = sc['per_row'][r['id']]
            fs.append(wr * l_col[r['id']])
            gs.append(wr * g)
            hs.append(wr * h)
            bs.append(wr * np.outer(g, g))
        f = math.fsum(fs)
        g = np.array([math.fsum(v[i] for v in gs) for i in range(n)])
        h = np.array([[math.fsum(v[i][j] for v in hs) for j in range(n)] for i in range(n)])
        b = np.array([[math.fsum(v[i][j] for v in bs) for j in range(n)] for i in range(n)])
        scales = (math.fsum(abs(v) for v in fs),
                  np.array([math.fsum(abs(v[i]) for v in gs) for i in range(n)]),
                  np.array([[math.fsum(abs(v[i][j]) for v in hs) for j in range(n)] for i in range(n)]),
                  np.array([[math.fsum(abs(v[i][j]) for v in bs) for j in range(n)] for i in range(n)]))
        return (f, g, h, b), scales

    # -- one scenario ---------------------------------------------------------------------------------------
    def run(self, idx, sc):
        rng = random.Random(self.seed * 65537 + idx)
        rows = sc['rows']
        nrows = len(rows)
        names = sorted(sc['model']['names'])
        sc['order'] = {nm: i for i, nm in enumerate(names)}
        sc['x'] = [sc['theta'][nm] for nm in names]
        closed = {r['id']: sc['model']['closed'](sc['theta'], r, sc['order']) for r in rows}
        weights = [sc['weight'][2](r) for r in rows]
        has_w = sc['weight'][1] is not None

        # ---- simulate: per-observation values (and weights) as reported
        def simulate():
            bg = self.biogeme(sc, rows, 1 + idx % 3)
            return bg, bg.simulate(dict(sc['theta']))
        res = self.guarded('simulate-value', sc, simulate)
        if res is None:
            return
        bg, sim = res
        self.cases += 1
        want_cols = ['log_like'] + (['weight'] if has_w else [])
        if list(sim.columns) != want_cols or len(sim) != nrows:
            self.fail('simulate-value', sc, {'columns': want_cols, 'rows': nrows},
                      {'columns': list(sim.columns), 'rows': len(sim)})
            return
        l_sim = {r['id']: float(v) for r, v in zip(rows, sim['log_like'])}
        for r in rows:
            self.cases += 1
            if abs(l_sim[r['id']] - closed[r['id']][0]) > 1e-9 * max(1.0, abs(closed[r['id']][0])):
                self.fail('simulate-value', sc, closed[r['id']][0], l_sim[r['id']], {'row': r})
                break
        if has_w:
            self.cases += 1
            if [float(v) for v in sim['weight']] != [float(v) for v in weights]:
                self.fail('simulate-value', sc, weights, [float(v) for v in sim['weight']], {'what': 'weight column'})
        # ---- per-row derivatives through the engine (aggregation=False)
        import biogeme.expressions as ex
        store = {}

        def beta(nm):
            if nm not in store:
                store[nm] = ex.Beta(nm, 0.3, None, None, 0)
            return store[nm]
        like = sc['model']['make'](beta)
        db = self.database(rows)
        rr = self.guarded('derivatives', sc, lambda: like.get_value_and_derivatives(
            betas=dict(sc['theta']), database=db, aggregation=False, gradient=True, hessian=True, bhhh=True,
            prepare_ids=True))
        if rr is None:
            return
        per_row_engine = {r['id']: (float(rr.functions[i]), np.array(rr.gradients[i], dtype=float),
                                    np.array(rr.hessians[i], dtype=float)) for i, r in enumerate(rows)}
        for r in rows:
            self.cases += 1
            ce, ee = closed[r['id']], per_row_engine[r['id']]
            for a, b, what in ((ee[1], ce[1], 'gradient'), (ee[2], ce[2], 'hessian')):
                if np.max(np.abs(a - b)) > 1e-9 * max(1.0, np.max(np.abs(b))):
                    self.fail('derivatives', sc, b, a, {'what': 'per-row %s against the closed form' % what, 'row': r})
        # ---- the whole sample
        sc['per_row'] = per_row_engine
        ref_sim, scales = self.terms(sc, rows, l_sim)
        sc['per_row'] = closed
        ref_closed, _ = self.terms(sc, rows, {k: v[0] for k, v in closed.items()})

        def full():
            out = bg.calculate_likelihood_and_derivatives(sc['x'], scaled=False, hessian=True, bhhh=True)
            out_s = bg.calculate_likelihood_and_derivatives(sc['x'], scaled=True, hessian=True, bhhh=True)
            return (out, out_s, bg.calculate_likelihood(sc['x'], scaled=False), bg.calculate_likelihood(sc['x'], scaled=True),
                    bg.database.get_sample_size())
        res = self.guarded('sum', sc, full)
        if res is None:
            return
        out, out_s, lk, lk_s, ssize = res
        whole = (float(out.function), np.array(out.gradient, dtype=float), np.array(out.hessian, dtype=float),
                 np.array(out.bhhh, dtype=float))
        self.cases += 3
        if not self.close(whole[0], ref_sim[0], scales[0]):
            self.fail('sum', sc, ref_sim[0], whole[0], {'through': 'calculate_likelihood_and_derivatives',
                                                       'simulated': [l_sim[r['id']] for r in rows], 'weights': weights})
        if not self.close(lk, ref_sim[0], scales[0]):
            self.fail('sum', sc, ref_sim[0], float(lk), {'through': 'calculate_likelihood'})
        self.same('derivatives', sc, whole, ref_sim, scales, {'per_row_source': 'get_value_and_derivatives(aggregation=False)'})
        # closed forms that are exactly 0 (probability 1: single available alternative) meet engine values of the size of a
        # rounding error of the weighted terms: the floor of the scale is relative to the total weight, not to the entry
        wsum = math.fsum(abs(sc['weight'][2](r)) for r in rows)
        self.same('derivatives', sc, whole, ref_closed, [np.maximum(s, 1e-6 * max(float(np.max(s)), wsum, 1e-300)) * 10 for s in scales],
                  {'per_row_source': 'closed form'})
        # ---- scaled
        self.cases += 2
        if ssize != nrows:
            self.fail('scaled', sc, nrows, ssize, {'what': 'sample size'})
        sc_ref = tuple(v / float(nrows) for v in ref_sim)
        sc_scales = tuple(v / float(nrows) for v in scales)
        self.same('scaled', sc, (float(out_s.function), np.array(out_s.gradient, dtype=float),
                                 np.array(out_s.hessian, dtype=float), np.array(out_s.bhhh, dtype=float)),
                  sc_ref, sc_scales, {'through': 'calculate_likelihood_and_derivatives(scaled=True)'})
        if not self.close(lk_s, sc_ref[0], sc_scales[0]):
            self.fail('scaled', sc, sc_ref[0], float(lk_s), {'through': 'calculate_likelihood(scaled=True)'})
        sc['per_row'] = per_row_engine
        # ---- threads
        for th in (1, 2, 3, 7, nrows + 3):
            got = self.evaluate(sc, rows, th, 'threads', {'threads': th})
            self.same('threads', sc, got, whole, scales, {'threads': th})

            def sim_th():
                return self.biogeme(sc, rows, th).simulate(dict(sc['theta']))

            def history():
                # one object: likelihood, then simulate, then the likelihood again (the engine keeps ONE thread counter and the row
                # blocks of the likelihood laid out at construction: a simulation must leave the likelihood entry points alone)
                b = self.biogeme(sc, rows, th)
                before = b.calculate_likelihood(sc['x'], scaled=False)
                b.simulate(dict(sc['theta']))
                out2 = b.calculate_likelihood_and_derivatives(sc['x'], scaled=False, hessian=True, bhhh=True)
                return before, b.calculate_likelihood(sc['x'], scaled=False), out2
            hs = self.guarded('history', sc, history, {'threads': th, 'history': 'likelihood; simulate; likelihood'})
            if hs is not None:
                self.cases += 1
                after = (float(hs[2].function), np.array(hs[2].gradient, dtype=float), np.array(hs[2].hessian, dtype=float),
                         np.array(hs[2].bhhh, dtype=float))
                if not (self.close(hs[0], whole[0], scales[0]) and self.close(hs[1], whole[0], scales[0])):
                    self.fail('history', sc, whole[0], [float(hs[0]), float(hs[1])], {'threads': th, 'history': 'likelihood; simulate; likelihood'})
                else:
                    self.same('history', sc, after, whole, scales, {'threads': th, 'history': 'likelihood; simulate; likelihood and derivatives'})
            st = self.guarded('threads', sc, sim_th, {'threads': th, 'through': 'simulate'})
            if st is not None:
                self.cases += 1
                if [float(v) for v in st['log_like']] != [l_sim[r['id']] for r in rows]:
                    self.fail('threads', sc, [l_sim[r['id']] for r in rows], [float(v) for v in st['log_like']],
                              {'threads': th, 'through': 'simulate'})
        # ---- row order
        if nrows <= 4:
            perms = list(itertools.permutations(range(nrows)))[1:]
        else:
            perms = [tuple(rng.sample(range(nrows), nrows)) for _ in range(4 if self.tier == 'quick' else 12)]
            perms.append(tuple(reversed(range(nrows))))
        for pm in perms:
            got = self.evaluate(sc, [rows[i] for i in pm], 1 + (sum(pm[:2]) % 3), 'row-order', {'permutation': list(pm)})
            self.same('row-order', sc, got, whole, scales, {'permutation': list(pm)})
        # ---- splits
        splits = []
        if nrows >= 2:
            for _ in range(3 if self.tier == 'quick' else 8):
                mask = [rng.random() < 0.5 for _ in range(nrows)]
                if all(mask) or not any(mask):
                    mask[0] = not mask[0]
                splits.append([[i for i in range(nrows) if mask[i]], [i for i in range(nrows) if not mask[i]]])
            k = rng.randrange(2, min(nrows, 5) + 1)
            cut = sorted(rng.sample(range(1, nrows), k - 1))
            splits.append([list(range(a, b)) for a, b in zip([0] + cut, cut + [nrows])])
            if nrows <= 6 or self.tier != 'quick':
                splits.append([[i] for i in range(nrows)])
            zero = [i for i in range(nrows) if weights[i] == 0.0]
            if has_w and zero and len(zero) < nrows:
                splits.append([zero, [i for i in range(nrows) if weights[i] != 0.0]])
        for parts in splits:
            tot = None
            ok = True
            for part in parts:
                got = self.evaluate(sc, [rows[i] for i in part], 1 + len(part) % 3, 'split', {'parts': parts, 'part': part})
                if got is None:
                    ok = False
                    break
                # every part also obeys the sum property on its own
                pref, pscales = self.terms(sc, [rows[i] for i in part], l_sim)
                self.same('split', sc, got, pref, pscales, {'parts': parts, 'part': part, 'what_kind': 'one part against its own sum'})
                tot = got if tot is None else tuple(a + b for a, b in zip(tot, got))
            if ok:
                self.same('split', sc, tot, whole, scales, {'parts': parts})
        # ---- spellings of the dictionary keys
        variants = [dict(keys=('loglike', 'weights')), dict(keys=('log_like', 'weights')), dict(keys=('loglike', 'weight'))]
        if not has_w:
            variants.append(dict(bare=True))
        for kw in variants:
            got = self.evaluate(sc, rows, 2, 'formula-keys', {'variant': str(kw)}, **kw)
            self.same('formula-keys', sc, got, whole, scales, {'variant': str(kw)})
        # other formulas next to the likelihood must not disturb it
        got = self.evaluate(sc, rows, 2, 'formula-keys', {'variant': 'extra simulated formulas in the dict'},
                            extra_formulas=(lambda beta: {'another': 3 * beta(sc['model']['names'][0])})) if has_w else None
        if got is not None:
            self.same('formula-keys', sc, got, whole, scales, {'variant': 'extra formula in the dict'})


def scenarios(tier, seed):
    rng = random.Random(seed)
    out = []
    q = tier == 'quick'
    sizes = [1, 2, 3, 4, 4, 7, 12] if q else [1, 2, 3, 4, 4, 5, 8, 13, 21, 34, 47, 60]
    rep = 1 if q else 2
    for _ in range(rep):
        for size in sizes:
            for mi, mk in enumerate(MODELS):
                model = mk(rng)
                cols = model['columns'](rng, size)
                cols['w'] = [rng.choice(WEIGHT_VALUES) for _ in range(size)]
                cols['w2'] = [rng.choice((0.0, 0.25, 1.0)) for _ in range(size)]
                if all(v == 0.0 for v in cols['w']):
                    cols['w'][0] = 1.0
                rows = [dict({c: cols[c][i] for c in cols}, id=i) for i in range(size)]
                wchoices = [WEIGHTS[0], WEIGHTS[1 + (len(out) + mi) % 4]]
                if not q:
                    wchoices.append(WEIGHTS[1 + (len(out) + mi + 1) % 4])
                for wt in wchoices:
                    theta = {nm: rnd(rng, -1.0, 1.0) for nm in model['names']}
                    out.append(dict(model=model, rows=rows, weight=wt, theta=theta))
    return out


def supervise(tier, seed, nparts, deadline, prefix, died_clause):
    """run the worker processes; returns (list of the workers' result dicts, number of respawns).  Everything the
    workers write lives under one temporary directory that is removed here, whatever happens."""
    root = tempfile.mkdtemp(prefix=prefix)
    results, respawns, procs = [], 0, {}

    def spawn(part, start):
        spec = {'tier': tier, 'seed': seed, 'part': part, 'nparts': nparts, 'start': start, 'deadline': deadline,
                'root': root}
        return subprocess.Popen([sys.executable, os.path.abspath(__file__), '--worker', json.dumps(spec)],
                                stdout=subprocess.PIPE, stderr=subprocess.PIPE, text=True)
    try:
        for part in range(nparts):
            procs[part] = spawn(part, 0)
        while procs:
            for part in list(procs):
                out, err = procs[part].communicate()
                code = procs[part].returncode
                del procs[part]
                line = out.strip().splitlines()[-1] if out.strip() else ''
                try:
                    res = json.loads(line)
                    if not isinstance(res, dict) or 'nfail' not in res:
                        raise ValueError
                except ValueError:
                    # the worker died (e.g. a crash inside the engine): take what it had finished, record the item it
                    # was working on and resume behind it
                    try:
                        with open(os.path.join(root, 'state_%d.json' % part)) as fh:
                            state = json.load(fh)
                        os.remove(os.path.join(root, 'state_%d.json' % part))
                        res = state['result']
                        res['nfail'] += 1
                        res['failures'].append({'clause': died_clause, 'case': {'item': state['what']},
                                                'expected': 'a result', 'got': 'the process died (exit code %s): %s'
                                                % (code, (err or '')[-300:])})
                        key = died_clause + ' | process died'
                        res['hist'][key] = res['hist'].get(key, 0) + 1
                        res['resume'] = state['current'] + 1
                    except (OSError, ValueError, KeyError):
                        res = {'cases': 0, 'nfail': 1, 'hist': {'harness | no result line': 1}, 'resume': None,
                               'timed_out': False,
                               'failures': [{'clause': 'harness', 'case': {'worker': part}, 'expected': 'a result line',
                                             'got': (err or out)[-600:]}]}
                results.append(res)
                if res.get('resume') is not None and respawns < 40:
                    respawns += 1
                    procs[part] = spawn(part, res['resume'])
    finally:
        for pr in procs.values():
            try:
                pr.kill()
            except OSError:
                pass
        shutil.rmtree(root, ignore_errors=True)
    return results, respawns


def save_state(root, part, state):
    tmp = os.path.join(root, 'state_%d.tmp' % part)
    with open(tmp, 'w') as fh:
        json.dump(state, fh)
    os.replace(tmp, os.path.join(root, 'state_%d.json' % part))


def worker_main(spec):
    tier, seed, part, nparts, start = spec['tier'], spec['seed'], spec['part'], spec['nparts'], spec['start']
    root = spec['root']
    os.chdir(tempfile.mkdtemp(prefix='w%d_' % part, dir=root))
    ck = Checker(tier, seed)
    scs = scenarios(tier, seed)
    resume, timed_out = None, False

    def result():
        return {'cases': ck.cases, 'failures': [x for x in ck.failures if x is not None], 'nfail': len(ck.failures),
                'resume': resume, 'hist': ck.hist, 'nsc': len(scs), 'timed_out': timed_out,
                'models_built': ck.models_built, 'maxrows': max(len(s['rows']) for s in scs)}
    for pos in range(start, len(scs)):
        if pos % nparts != part:
            continue
        if time.time() > spec['deadline']:
            timed_out = True
            break
        save_state(root, part, {'current': pos, 'result': result(),
                                'what': '%s, %d rows, weight %s, theta %s' % (scs[pos]['model']['tag'], len(scs[pos]['rows']),
                                                                             scs[pos]['weight'][0], scs[pos]['theta'])})
        try:
            ck.run(pos, scs[pos])
        except Poisoned:
            resume = pos + 1
            break
    print(json.dumps(result()))


def main():
    if len(sys.argv) >= 3 and sys.argv[1] == '--worker':
        worker_main(json.loads(sys.argv[2]))
        return 0
    tier = sys.argv[1] if len(sys.argv) > 1 else 'quick'
    seed = int(sys.argv[2]) if len(sys.argv) > 2 else 0
    t0 = time.time()
    deadline = t0 + (50 if tier == 'quick' else 560)
    results, respawns = supervise(tier, seed, 6 if tier == 'quick' else 8, deadline, 'c04_', 'sum')
    cases, failures, nfail, hist, nsc, timed_out, built, maxrows = 0, [], 0, {}, 0, False, 0, 0
    for res in results:
        cases += res['cases']
        nfail += res['nfail']
        failures += res['failures']
        nsc, maxrows = res.get('nsc', nsc), res.get('maxrows', maxrows)
        built += res.get('models_built', 0)
        timed_out = timed_out or res['timed_out']
        for k, v in res['hist'].items():
            hist[k] = hist.get(k, 0) + v
    for k in sorted(hist):
        print('FAIL', hist[k], k)
    print('elapsed %.1f s, respawns %d, failures in total %d' % (time.time() - t0, respawns, nfail))
    bound = ('%d scenarios = {binary logit, 3-alternative logit with availabilities, normal regression} x data sets of 1..%d '
             'rows x {no weight, weight column / 2*column / sum of two columns / fixed parameter * column, with zero '
             'weights}; 3-4 free parameters at random values; every scenario: simulate against closed forms, value '
             'and gradient/Hessian/BHHH against fsum of weight * per-row terms, scaled variants, threads 1/2/3/7/N+3, all '
             'row permutations for N <= 4 and %s random ones beyond, %s random 2-way splits + one k-way partition + '
             'single-row parts + zero-weight part, four spellings of the formula keys; %d BIOGEME objects built; tolerance '
             '1e-10 of the sum of the magnitudes of the terms; seed %d%s'
             % (nsc, maxrows, '5' if tier == 'quick' else '13', '3' if tier == 'quick' else '8', built, seed,
                '; TIME BUDGET HIT' if timed_out else ''))
    print(json.dumps({'cases': cases, 'bound': bound, 'failures': failures[:10]}))
    return 0 if nfail == 0 else 1


if __name__ == '__main__':
    sys.exit(main())
