"""C13 bounded stand-in: operation sequences on small tables, real code vs a row-level oracle.

Runs under /venv/bin/python on the real biogeme.database / biogeme.tools.database.  The oracle is
plain Python over lists of dicts (one dict per row, '_label' = index label); it never calls pandas
to decide what the expected table is.

Bounds (stated in the evidence):
  tables    : fixed catalogue (<= 6 rows, <= 3 groups; default / shifted / permuted / DUPLICATE /
              all-equal / gapped / string index labels) + `ntab` generated ones of the same shape
  sequences : state-changing operations remove / add_column / define_variable / scale_column /
              panel / extract_rows, ALL sequences of length <= `exh` on the catalogue and `nrand`
              random ones of length 3; after the last operation every observer is run:
              count, sample_with_replacement, sample_individual_map_with_replacement, split
              (2 and 3 slices, with and without a group column), generate_flat_panel_dataframe /
              flatten_database.
usage: c13_native.py <tier> <seed>          -> one JSON line {"cases", "failures", "by_clause"}
       c13_native.py --case '<json>'        -> re-run one failing case (witness of a failure)
"""
import itertools
import json
import math
import sys
import warnings
from collections import Counter

import numpy as np
import pandas as pd

warnings.simplefilter('ignore')

CLAUSES = ['remove.rows-and-count', 'remove.rows-and-count.duplicate-labels', 'remove.individual-map-current', 'add_column.values', 'define_variable.values',
           'scale_column.one-column', 'panel.map', 'extract_rows.positional', 'count.value',
           'sample_with_replacement.existing-rows', 'sample_individual_map.existing-individuals',
           'split.folds', 'flatten.values', 'harness']

BASE_COLS = ['uid', 'g', 'x', 'y']


# --------------------------------------------------------------------------------------------
# tables
# --------------------------------------------------------------------------------------------
def table(labels, g, x, y):
    n = len(labels)
    assert len(g) == len(x) == len(y) == n
    return {'labels': list(labels), 'g': list(g), 'x': list(x), 'y': list(y)}


CATALOGUE = [
    table([0, 1, 2, 3, 4], [1, 1, 2, 2, 3], [0.5, 3.5, 2.5, 1.5, 4.5], [0, 1, 2, 1, 0]),          # default index
    table([10, 20, 30, 40], [2, 2, 1, 1], [3.5, 0.5, 2.75, 3.5], [1, 1, 0, 2]),                    # shifted, groups unsorted
    table([3, 0, 2, 1, 4, 5], [1, 2, 1, 3, 3, 2], [1.5, 2.5, 3.5, 0.5, 4.5, 2.5], [2, 0, 1, 1, 0, 2]),  # permuted, groups scattered
    table([0, 0, 1, 1, 2], [1, 1, 1, 2, 2], [0.5, 3.5, 4.5, 1.5, 2.75], [0, 1, 1, 2, 0]),         # DUPLICATE labels
    table([5, 5, 5], [3, 3, 3], [3.5, 0.5, 2.75], [1, 0, 2]),                                     # one label for all
    table([0, 2, 5, 9], [1, 2, 2, 3], [4.5, 1.5, 3.5, 0.5], [1, 1, 0, 2]),                        # gaps
    table([7], [2], [3.5], [1]),                                                                # single row
    table([4, 4], [1, 2], [0.5, 3.5], [2, 1]),                                                  # two rows, one label
    table(['a', 'b', 'a', 'c'], [2, 2, 3, 3], [2.75, 3.5, 0.5, 4.5], [0, 2, 1, 1]),               # string labels, duplicate
    table([2, 1, 0, 0, 1, 2], [3, 3, 1, 1, 2, 2], [0.5, 1.5, 2.5, 3.5, 4.5, 2.75], [1, 0, 2, 1, 1, 0]),  # every label twice
]


def random_table(rng):
    n = int(rng.integers(1, 7))
    kind = int(rng.integers(0, 5))
    if kind == 0:
        labels = list(range(n))
    elif kind == 1:
        labels = [int(v) for v in rng.permutation(n * 2)[:n]]
    elif kind == 2:
        labels = [int(v) for v in rng.integers(0, max(1, n // 2) + 1, size=n)]     # many duplicates
    elif kind == 3:
        labels = [int(v) for v in np.cumsum(rng.integers(1, 4, size=n))]           # gaps
    else:
        labels = [int(v) for v in rng.integers(-3, 4, size=n)]
    ng = int(rng.integers(1, 4))
    g = [int(v) for v in rng.integers(1, ng + 1, size=n)]
    if rng.integers(0, 2):                                                         # contiguous groups half of the time
        order = [int(v) for v in rng.permutation(np.arange(1, 4))]
        g = sorted(g, key=order.index)
    x = [float(v) for v in rng.choice([0.5, 1.5, 2.5, 2.75, 3.5, 4.5], size=n)]
    y = [int(v) for v in rng.integers(0, 3, size=n)]
    return table(labels, g, x, y)


def big_table(rng, n=40):
    """thorough tier: larger table (panel sort stability, fold arithmetic with remainders)"""
    labels = [int(v) for v in rng.integers(0, n // 2, size=n)]
    ids = [int(v) for v in rng.permutation(np.arange(1, 8))]
    g = sorted([int(v) for v in rng.integers(1, 8, size=n)], key=ids.index)
    x = [float(v) for v in rng.choice([0.5, 1.5, 2.5, 2.75, 3.5, 4.5], size=n)]
    y = [int(v) for v in rng.integers(0, 3, size=n)]
    return table(labels, g, x, y)


def make_frame(t):
    n = len(t['labels'])
    return pd.DataFrame({'uid': [101 + i for i in range(n)], 'g': t['g'], 'x': t['x'], 'y': t['y']},
                        index=list(t['labels']))


# --------------------------------------------------------------------------------------------
# oracle state: plain Python
# --------------------------------------------------------------------------------------------
class Model:
    def __init__(self, t):
        n = len(t['labels'])
        self.cols = list(BASE_COLS)
        self.rows = [{'_label': t['labels'][i], 'uid': 101 + i, 'g': t['g'][i], 'x': t['x'][i], 'y': t['y'][i]}
                     for i in range(n)]
        self.panel = None
        self.excluded = 0

    def groups_contiguous(self, col):
        seen, last = set(), object()
        for r in self.rows:
            v = r[col]
            if v != last:
                if v in seen:
                    return False
                seen.add(v)
                last = v
        return True

    def individual_map(self):
        """expected (id, first position, last position) per individual, from the current rows"""
        out, col = [], self.panel
        for p, r in enumerate(self.rows):
            if out and out[-1][0] == r[col]:
                out[-1][2] = p
            else:
                out.append([r[col], p, p])
        return out


def num_eq(a, b):
    try:
        a, b = float(a), float(b)
    except (TypeError, ValueError):
        return a == b
    if math.isnan(a) or math.isnan(b):
        return math.isnan(a) and math.isnan(b)
    return a == b or abs(a - b) <= 1e-12 * max(1.0, abs(a), abs(b))


def plain(v):
    """numpy scalar -> plain Python number (ints stay ints when integral)"""
    try:
        f = float(v)
    except (TypeError, ValueError):
        return v
    return int(f) if f == int(f) else f


def frame_rows(df):
    cols = list(df.columns)
    data = {c: df[c].tolist() for c in cols}
    labels = df.index.tolist()
    return cols, [dict({'_label': labels[i]}, **{c: data[c][i] for c in cols}) for i in range(len(labels))]


def row_eq(a, b, cols, labels=True):
    if labels and a['_label'] != b['_label']:
        return False
    return all(num_eq(a[c], b[c]) for c in cols)


def row_key(r, cols):
    return (str(r['_label']), tuple(round(float(r[c]), 9) for c in cols))


def diff_frame(df, model, relabel_ok=False):
    """None when the frame is exactly the model (columns in order, rows in order, labels, values)."""
    cols, rows = frame_rows(df)
    if cols != model.cols:
        return f'columns {cols} expected {model.cols}'
    if len(rows) != len(model.rows):
        return f'{len(rows)} rows {[(r["_label"], r.get("uid")) for r in rows]} expected {len(model.rows)} rows ' \
               f'{[(r["_label"], r.get("uid")) for r in model.rows]}'
    labels_ok = all(a['_label'] == b['_label'] for a, b in zip(rows, model.rows))
    if not labels_ok:
        if relabel_ok and [r['_label'] for r in rows] == list(range(len(rows))):
            for p, r in enumerate(model.rows):
                r['_label'] = p
        else:
            return f'index labels {[r["_label"] for r in rows]} expected {[r["_label"] for r in model.rows]}'
    for p, (a, b) in enumerate(zip(rows, model.rows)):
        if not row_eq(a, b, cols, labels=False):
            return f'row at position {p}: {a} expected {b}'
    return None


# --------------------------------------------------------------------------------------------
# formulas: (builder of the biogeme expression, plain Python value on one row, columns needed)
# --------------------------------------------------------------------------------------------
def formulas():
    from biogeme.expressions import Variable as Var
    return {
        'x>2.6': (lambda: Var('x') > 2.6, lambda r: 1.0 if r['x'] > 2.6 else 0.0, {'x'}),
        'g==1': (lambda: Var('g') == 1, lambda r: 1.0 if r['g'] == 1 else 0.0, {'g'}),
        'x>1&y!=0': (lambda: (Var('x') > 1.2) * (Var('y') != 0), lambda r: (1.0 if r['x'] > 1.2 else 0.0) * (1.0 if r['y'] != 0 else 0.0), {'x', 'y'}),
        'y-1': (lambda: Var('y') - 1, lambda r: r['y'] - 1, {'y'}),                  # indicator values -1 / 0 / 1
        'const0': (lambda: 0, lambda r: 0.0, set()),
        'const1': (lambda: 1, lambda r: 1.0, set()),
        '2x+g': (lambda: Var('x') * 2 + Var('g'), lambda r: r['x'] * 2 + r['g'], {'x', 'g'}),
        'y-x': (lambda: Var('y') - Var('x'), lambda r: r['y'] - r['x'], {'x', 'y'}),
        'x*y': (lambda: Var('x') * Var('y'), lambda r: r['x'] * r['y'], {'x', 'y'}),
        'n1>4': (lambda: Var('n1') > 4, lambda r: 1.0 if r['n1'] > 4 else 0.0, {'n1'}),
    }


STATE_OPS = ([('remove', c) for c in ('x>2.6', 'g==1', 'x>1&y!=0', 'y-1', 'const0', 'const1', 'n1>4')] +
             [('add_column', '2x+g', 'n1'), ('add_column', 'y-x', 'n2'), ('define_variable', 'd1', 'x*y'),
              ('scale_column', 'x', 0.5), ('scale_column', 'y', 3), ('panel', 'g'),
              ('extract_rows', 'all'), ('extract_rows', 'tail'), ('extract_rows', 'repeat'),
              ('extract_rows', 'beyond'), ('extract_rows', 'negative')])


class Stop(Exception):
    """the sequence ends here (expected error outcome reached)"""


class Ctx:
    def __init__(self):
        self.fails = []            # (clause, detail)
        self.F = formulas()

    def fail(self, clause, detail):
        self.fails.append((clause, str(detail)[:600]))


def expect_raises(ctx, clause, what, fn, exc_names):
    try:
        fn()
    except Exception as e:                      # noqa: BLE001
        if type(e).__name__ in exc_names:
            return True
        ctx.fail(clause, f'{what}: raised {type(e).__name__}: {e}; expected {exc_names}')
        return True
    ctx.fail(clause, f'{what}: no exception, expected {exc_names}')
    return False


# --------------------------------------------------------------------------------------------
# state-changing operations: real call + oracle update + comparison
# --------------------------------------------------------------------------------------------
def apply_op(ctx, db, model, op):
    from biogeme.database import Database
    kind = op[0]
    n = len(model.rows)
    if kind in ('remove', 'add_column', 'define_variable'):
        fname = op[1] if kind != 'define_variable' else op[2]
        build, pyf, needs = ctx.F[fname]
        if not needs <= set(model.cols):
            return db                                   # formula not applicable in this state: skipped
    if kind == 'remove':
        # two obligations: tables whose index labels are pairwise distinct when remove is called / tables with duplicates
        labels = [str(r['_label']) for r in model.rows]
        clause = 'remove.rows-and-count' if len(set(labels)) == len(labels) else 'remove.rows-and-count.duplicate-labels'
        if n == 0:
            expect_raises(ctx, clause, 'remove on an empty table', lambda: db.remove(build()), {'BiogemeError'})
            raise Stop
        try:
            db.remove(build())
        except Exception as e:                      # noqa: BLE001
            ctx.fail(clause, f'remove({fname}) raised {type(e).__name__}: {e}')
            raise Stop
        ind = [pyf(r) for r in model.rows]
        model.rows = [r for r, v in zip(model.rows, ind) if v == 0]
        model.excluded = sum(1 for v in ind if v != 0)
        d = diff_frame(db.data, model, relabel_ok=model.panel is not None)
        if d:
            ctx.fail(clause, f'remove({fname}): rows kept differ from rows with zero indicator {ind}: {d}')
            raise Stop
        if db.excludedData != model.excluded:
            ctx.fail(clause, f'remove({fname}): excludedData={db.excludedData}, rows with non-zero indicator={model.excluded}')
        return db
    if kind in ('add_column', 'define_variable'):
        clause = kind + '.values'
        name = op[2] if kind == 'add_column' else op[1]
        call = (lambda: db.add_column(build(), name)) if kind == 'add_column' else (lambda: db.define_variable(name, build()))
        if n == 0:
            expect_raises(ctx, clause, f'{kind} on an empty table', call, {'BiogemeError'})
            raise Stop
        if name in model.cols:
            expect_raises(ctx, clause, f'{kind} of an existing column', call, {'ValueError'})
            d = diff_frame(db.data, model)
            if d:
                ctx.fail(clause, f'table changed by a rejected {kind}: {d}')
            raise Stop
        try:
            res = call()
        except Exception as e:                      # noqa: BLE001
            ctx.fail(clause, f'{kind}({fname}) raised {type(e).__name__}: {e}')
            raise Stop
        vals = [pyf(r) for r in model.rows]
        for r, v in zip(model.rows, vals):
            r[name] = v
        model.cols.append(name)
        d = diff_frame(db.data, model)
        if d:
            ctx.fail(clause, f'{kind}({fname} -> {name}): {d}')
            raise Stop
        if kind == 'add_column':
            got = list(res.tolist())
            if len(got) != len(vals) or not all(num_eq(a, b) for a, b in zip(got, vals)) or res.index.tolist() != [r['_label'] for r in model.rows]:
                ctx.fail(clause, f'returned column {got} (labels {res.index.tolist()}) expected {vals}')
        else:
            if getattr(res, 'name', None) != name:
                ctx.fail(clause, f'define_variable returned {res!r}, expected Variable({name!r})')
        if name not in db.variables or getattr(db.variables[name], 'name', None) != name:
            ctx.fail(clause, f'variables[{name!r}] not registered')
        return db
    if kind == 'scale_column':
        clause = 'scale_column.one-column'
        col, s = op[1], op[2]
        try:
            db.scale_column(col, s)
        except Exception as e:                      # noqa: BLE001
            ctx.fail(clause, f'scale_column({col}, {s}) raised {type(e).__name__}: {e}')
            raise Stop
        for r in model.rows:
            r[col] = r[col] * s
        d = diff_frame(db.data, model)
        if d:
            ctx.fail(clause, f'scale_column({col}, {s}): {d}')
            raise Stop
        return db
    if kind == 'panel':
        clause = 'panel.map'
        col = op[1]
        if n == 0:
            raise Stop
        if not model.groups_contiguous(col):
            expect_raises(ctx, clause, 'panel on scattered individuals', lambda: db.panel(col), {'BiogemeError'})
            raise Stop
        try:
            db.panel(col)
        except Exception as e:                      # noqa: BLE001
            ctx.fail(clause, f'panel({col}) raised {type(e).__name__}: {e}')
            raise Stop
        model.panel = col
        # rows sorted by individual (order inside an individual: any), index renumbered
        cols, rows = frame_rows(db.data)
        want = sorted(model.rows, key=lambda r: r[col])
        if cols != model.cols or len(rows) != len(want):
            ctx.fail(clause, f'panel({col}): shape changed: columns {cols}, {len(rows)} rows')
            raise Stop
        if [r['_label'] for r in rows] != list(range(len(rows))):
            ctx.fail(clause, f'panel({col}): index not renumbered: {[r["_label"] for r in rows]}')
        if [r[col] for r in rows] != [r[col] for r in want]:
            ctx.fail(clause, f'panel({col}): rows not sorted by individual: {[r[col] for r in rows]}')
            raise Stop
        if sorted(r['uid'] for r in rows) != sorted(r['uid'] for r in want):
            ctx.fail(clause, f'panel({col}): rows lost or duplicated: {[r["uid"] for r in rows]}')
            raise Stop
        by_uid = {r['uid']: r for r in model.rows}
        for r in rows:
            if not row_eq(r, by_uid[r['uid']], cols, labels=False):
                ctx.fail(clause, f'panel({col}): row values changed: {r} was {by_uid[r["uid"]]}')
                raise Stop
        model.rows = [dict(by_uid[r['uid']], _label=p) for p, r in enumerate(rows)]
        check_individual_map(ctx, db, model, clause, 'panel')
        return db
    if kind == 'extract_rows':
        clause = 'extract_rows.positional'
        sel = {'all': list(range(n)), 'tail': list(range(1, n)), 'repeat': [n - 1, 0, 0] if n else [],
               'beyond': [0, n], 'negative': [-1]}[op[1]]
        arg = range(1, n) if op[1] == 'tail' else (range(n) if op[1] == 'all' else sel)
        if any(i < 0 or i >= n for i in sel):
            expect_raises(ctx, clause, f'extract_rows({sel}) with {n} rows', lambda: db.extract_rows(arg), {'IndexError'})
            raise Stop
        if not sel:
            expect_raises(ctx, clause, 'extract_rows of no row', lambda: db.extract_rows(arg), {'BiogemeError'})
            raise Stop
        try:
            new = db.extract_rows(arg)
        except Exception as e:                      # noqa: BLE001
            ctx.fail(clause, f'extract_rows({sel}) raised {type(e).__name__}: {e}')
            raise Stop
        d0 = diff_frame(db.data, model)
        if d0:
            ctx.fail(clause, f'extract_rows({sel}) changed the source table: {d0}')
        model.rows = [dict(model.rows[p]) for p in sel]
        model.panel = None
        model.excluded = 0
        d = diff_frame(new.data, model)
        if d:
            ctx.fail(clause, f'extract_rows({sel}): {d}')
            raise Stop
        if not isinstance(new, Database) or new.is_panel():
            ctx.fail(clause, 'extract_rows: result is not a fresh cross-sectional Database')
        return new
    raise AssertionError(op)


def check_individual_map(ctx, db, model, clause, what):
    """individualMap == one [first, last] position range per individual of the CURRENT table"""
    want = model.individual_map()
    im = db.individualMap
    got = [[plain(im.index[i]), plain(im.iloc[i, 0]), plain(im.iloc[i, 1])] for i in range(len(im))]
    if sorted(map(repr, got)) != sorted(map(repr, [[plain(v) for v in e] for e in want])):
        ctx.fail(clause, f'{what}: individualMap (id, first, last) = {got}; the table implies {want}')
        return False
    return True


# --------------------------------------------------------------------------------------------
# observers (do not change the table)
# --------------------------------------------------------------------------------------------
def observe(ctx, db, model, rng):
    n = len(model.rows)
    cols = model.cols
    # count ------------------------------------------------------------------
    for col, value in (('y', 1), ('g', 2.0), ('x', 3.5), ('y', 99)):
        want = sum(1 for r in model.rows if r[col] == value)
        try:
            got = db.count(col, value)
            if int(got) != want:
                ctx.fail('count.value', f'count({col}, {value}) = {got}, the table has {want}')
        except Exception as e:                      # noqa: BLE001
            ctx.fail('count.value', f'count({col}, {value}) raised {type(e).__name__}: {e}')
    if n == 0:
        return
    # sample_with_replacement --------------------------------------------------
    for size in (None, 4):
        clause = 'sample_with_replacement.existing-rows'
        try:
            s = db.sample_with_replacement(size)
        except Exception as e:                      # noqa: BLE001
            ctx.fail(clause, f'sample_with_replacement({size}) raised {type(e).__name__}: {e}')
            continue
        scols, srows = frame_rows(s)
        if scols != cols or len(srows) != (n if size is None else size):
            ctx.fail(clause, f'sample_with_replacement({size}): {len(srows)} rows, columns {scols}')
        for r in srows:
            if not any(row_eq(r, m, cols) for m in model.rows):
                ctx.fail(clause, f'sample_with_replacement({size}): row {r} is not a row of the table')
                break
    # sample_individual_map_with_replacement -----------------------------------
    clause = 'sample_individual_map.existing-individuals'
    if model.panel is None:
        expect_raises(ctx, clause, 'sample_individual_map_with_replacement on cross-sectional data',
                      lambda: db.sample_individual_map_with_replacement(), {'BiogemeError'})
    else:
        want = model.individual_map()
        for size in (None, 5):
            try:
                s = db.sample_individual_map_with_replacement(size)
            except Exception as e:                  # noqa: BLE001
                ctx.fail(clause, f'sample_individual_map_with_replacement({size}) raised {type(e).__name__}: {e}')
                continue
            got = [[plain(s.index[i]), plain(s.iloc[i, 0]), plain(s.iloc[i, 1])] for i in range(len(s))]
            if len(got) != (len(db.individualMap) if size is None else size):
                ctx.fail(clause, f'sample_individual_map_with_replacement({size}): {len(got)} entries')
            bad = [e for e in got if e not in [[plain(v) for v in w] for w in want]]
            if bad:
                ctx.fail(clause, f'sample_individual_map_with_replacement({size}): sampled entry (id, first, last) = {bad[0]} '
                                 f'is not an individual of the current table, which implies {want}')
    # split ---------------------------------------------------------------------
    clause = 'split.folds'
    expect_raises(ctx, clause, 'split(1)', lambda: db.split(1), {'BiogemeError'})
    if model.panel is not None:
        expect_raises(ctx, clause, 'split grouped by another column than the panel column',
                      lambda: db.split(2, groups='y'), {'BiogemeError'})
    for k, groups in ((2, None), (3, None), (2, 'g'), (3, 'g'), (4, 'y')):
        if model.panel is not None and groups == 'y':
            continue
        eff = model.panel if model.panel is not None else groups
        try:
            folds = db.split(k, groups=groups)
        except Exception as e:                      # noqa: BLE001
            ctx.fail(clause, f'split({k}, {groups}) raised {type(e).__name__}: {e}')
            continue
        what = f'split({k}, groups={groups})'
        if len(folds) != k:
            ctx.fail(clause, f'{what}: {len(folds)} folds')
            continue
        # identical rows may occur (extract_rows with repeated positions): everything is counted as multisets
        table_ms = Counter(row_key(r, cols) for r in model.rows)
        seen = Counter()
        ok = True
        for i, f in enumerate(folds):
            vc, vrows = frame_rows(f.validation)
            ec, erows = frame_rows(f.estimation)
            if vc != cols or ec != cols:
                ctx.fail(clause, f'{what}: fold {i} columns {vc} / {ec}')
                ok = False
                break
            vms = Counter(row_key(r, cols) for r in vrows)
            ems = Counter(row_key(r, cols) for r in erows)
            alien = [k for k in list(vms) + list(ems) if k not in table_ms]
            if alien:
                ctx.fail(clause, f'{what}: fold {i} contains {alien[0]}, which is not a row of the table')
                ok = False
                break
            if vms - table_ms:
                ctx.fail(clause, f'{what}: validation part {i} repeats a row: {sorted((vms - table_ms).elements())}')
                ok = False
            comp = table_ms - vms
            if ems != comp:
                ctx.fail(clause, f'{what}: estimation part {i} = rows {sorted(r["uid"] for r in erows)}, complement of its validation '
                                 f'part (rows {sorted(r["uid"] for r in vrows)}) = {sorted(k[1][0] for k in comp.elements())}')
                ok = False
            seen += vms
            if eff is not None:
                gv = {r[eff] for r in vrows}
                ge = {r[eff] for r in erows}
                if gv & ge:
                    ctx.fail(clause, f'{what}: group(s) {sorted(gv & ge)} of column {eff} separated by fold {i}')
                    ok = False
        if ok and seen != table_ms:
            ctx.fail(clause, f'{what}: validation parts together = rows {sorted(k[1][0] for k in seen.elements())}, '
                             f'table = {sorted(r["uid"] for r in model.rows)}')
    # flatten -------------------------------------------------------------------
    clause = 'flatten.values'
    from biogeme.tools.database import flatten_database
    variants = [('flatten_database(auto)', lambda: flatten_database(db.data, 'g'), None),
                ('flatten_database(identical_columns=[])', lambda: flatten_database(db.data, 'g', identical_columns=[]), [])]
    if model.panel is not None:
        variants.append(('generate_flat_panel_dataframe()', lambda: db.generate_flat_panel_dataframe(), None))
    else:
        expect_raises(ctx, clause, 'generate_flat_panel_dataframe on cross-sectional data',
                      lambda: db.generate_flat_panel_dataframe(), {'BiogemeError'})
    for what, fn, ident in variants:
        try:
            flat = fn()
        except Exception as e:                      # noqa: BLE001
            ctx.fail(clause, f'{what} raised {type(e).__name__}: {e}')
            continue
        check_flat(ctx, clause, what, flat, model, 'g', ident)
        d = diff_frame(db.data, model)
        if d:
            ctx.fail(clause, f'{what} changed the table: {d}')
            return


def check_flat(ctx, clause, what, flat, model, mid, ident):
    groups = {}
    for r in model.rows:
        groups.setdefault(r[mid], []).append(r)
    others = [c for c in model.cols if c != mid]
    if ident is None:
        identical = [c for c in others if all(all(num_eq(r[c], rs[0][c]) for r in rs) for rs in groups.values())]
    else:
        identical = list(ident)
    varying = sorted(c for c in others if c not in identical)
    width = max(len(rs) for rs in groups.values())
    want_cols = set(identical) | {f'{i}_{c}' for i in range(1, width + 1) for c in varying}
    got_cols = list(flat.columns)
    if set(got_cols) != want_cols or len(got_cols) != len(want_cols):
        ctx.fail(clause, f'{what}: columns {got_cols} expected {sorted(want_cols)}')
        return
    ids = flat.index.tolist()
    if sorted(float(i) for i in ids) != sorted(float(i) for i in groups):
        ctx.fail(clause, f'{what}: one line per individual expected, got index {ids} for individuals {sorted(groups)}')
        return
    for pos, i in enumerate(ids):
        rs = groups[[k for k in groups if float(k) == float(i)][0]]
        for c in identical:
            if not num_eq(flat[c].tolist()[pos], rs[0][c]):
                ctx.fail(clause, f'{what}: individual {i} column {c} = {flat[c].tolist()[pos]}, table has {rs[0][c]}')
                return
        for k in range(1, width + 1):
            for c in varying:
                want = rs[k - 1][c] if k <= len(rs) else float('nan')
                got = flat[f'{k}_{c}'].tolist()[pos]
                if not num_eq(got, want):
                    ctx.fail(clause, f'{what}: individual {i} column {k}_{c} = {got}, table implies {want}')
                    return


# --------------------------------------------------------------------------------------------
# driver
# --------------------------------------------------------------------------------------------
def run_case(t, ops, seed):
    """-> list of (clause, detail) for one table and one operation sequence"""
    from biogeme.database import Database
    ctx = Ctx()
    rng = np.random.default_rng(seed)
    np.random.seed(seed % (2 ** 31))
    try:
        db = Database('c13', make_frame(t))
        model = Model(t)
        d = diff_frame(db.data, model)
        if d:
            ctx.fail('harness', f'initial table differs from its model: {d}')
            return ctx.fails
        try:
            for op in ops:
                db = apply_op(ctx, db, model, tuple(op))
                if model.panel is not None and op[0] in ('remove',):
                    # the individual map must describe the table that is left
                    check_individual_map(ctx, db, model, 'remove.individual-map-current',
                                         f'after {op[0]} on panel data')
        except Stop:
            return ctx.fails
        if not ctx.fails:
            observe(ctx, db, model, rng)
    except Exception as e:                          # noqa: BLE001
        import traceback
        ctx.fail('harness', f'unexpected {type(e).__name__}: {e} :: {traceback.format_exc()[-400:]}')
    return ctx.fails


def sequences(max_len):
    for L in range(0, max_len + 1):
        yield from itertools.product(STATE_OPS, repeat=L)


def useful(ops):
    """prune sequences that cannot reach new behaviour (keeps the enumeration exhaustive up to these rules):
    nothing follows an operation that always ends the sequence"""
    for i, op in enumerate(ops[:-1]):
        if op[0] == 'extract_rows' and op[1] in ('beyond', 'negative'):
            return False
    return True


def replay(prefix, seed=0):
    """used by the replay of a failed / undecided deductive obligation: catalogue tables, every sequence of
    length <= 1, 150 random sequences of length 2; -> (cases, failures whose clause starts with prefix)"""
    rng = np.random.default_rng(seed + 77)
    cases, bad = 0, []
    todo = [(t, ops) for t in CATALOGUE for ops in sequences(1)]
    for _ in range(150):
        t = CATALOGUE[int(rng.integers(0, len(CATALOGUE)))]
        todo.append((t, tuple(STATE_OPS[int(i)] for i in rng.integers(0, len(STATE_OPS), size=2))))
    for t, ops in todo:
        cases += 1
        for clause, detail in run_case(t, ops, seed + cases):
            if clause.startswith(prefix):
                bad.append({'clause': clause, 'detail': detail, 'labels': t['labels'], 'ops': [list(o) for o in ops]})
    return cases, bad


def main(argv):
    if argv and argv[0] == '--case':
        case = json.loads(argv[1])
        fails = run_case(case['table'], case['ops'], case.get('seed', 0))
        print(json.dumps({'cases': 1, 'failures': [{'clause': c, 'detail': d} for c, d in fails]}))
        return 1 if fails else 0
    tier = argv[0] if argv else 'quick'
    seed = int(argv[1]) if len(argv) > 1 else 0
    rng = np.random.default_rng(seed + 1313)
    # (tables with ALL sequences up to length L, L) ; the remaining catalogue tables get all sequences of length <= 1
    deep = [0, 3, 2, 9] if tier == 'quick' else [0, 3, 9]     # default index, duplicate labels, (permuted + scattered groups,) every label twice
    if tier == 'quick':
        exh_len, nrand, ntab, nbig = 2, 250, 12, 0
    else:
        exh_len, nrand, ntab, nbig = 3, 4000, 200, 40
    gen_tables = [random_table(rng) for _ in range(ntab)]
    cases = 0
    failures = []
    by_clause = {c: 0 for c in CLAUSES}
    per_clause_kept = {c: 0 for c in CLAUSES}

    def do(t, ops, s):
        nonlocal cases
        cases += 1
        for clause, detail in run_case(t, ops, s):
            by_clause[clause] = by_clause.get(clause, 0) + 1
            if per_clause_kept.get(clause, 0) < 3:
                per_clause_kept[clause] = per_clause_kept.get(clause, 0) + 1
                failures.append({'clause': clause, 'detail': detail, 'table': t, 'ops': [list(o) for o in ops], 'seed': s})

    # counting is EXACT: values that are merely close to the searched one (large codes differing by one unit, 250.0 vs 250.001,
    # tiny values next to 0) are other values; also after remove() left gaps in the index and after scale_column
    cases += 1
    try:
        import pandas as pd
        import biogeme.database as bdb
        from biogeme.expressions import Variable
        zone = [100001, 100001, 100002, 100002, 100003, 100001, 250000, 250001]
        dist = [250.0, 250.001, 0.0, 1e-9, 250.0005, 13.5, 250.0, 7.25]
        d = bdb.Database('c13count', pd.DataFrame({'zone': zone, 'dist': dist}))
        bad = []
        for col, val, want in (('zone', 100001, 3), ('zone', 100002, 2), ('zone', 250000, 1), ('dist', 250.0, 2), ('dist', 0.0, 1), ('dist', 250.001, 1)):
            got = int(d.count(col, val))
            if got != want:
                bad.append(f'count({col}, {val}) = {got}, the table has {want}')
        d.remove(Variable('dist') == 13.5)
        d.scale_column('dist', 1000.0)
        for col, val, want in (('zone', 100001, 2), ('dist', 250000.0, 2), ('dist', 250001.0, 1)):
            got = int(d.count(col, val))
            if got != want:
                bad.append(f'after remove + scale_column: count({col}, {val}) = {got}, the table has {want}')
        for b in bad[:3]:
            by_clause['count.value'] = by_clause.get('count.value', 0) + 1
            failures.append({'clause': 'count.value', 'detail': b, 'table': {'labels': list(range(len(zone))), 'g': [], 'x': zone, 'y': dist}, 'ops': [], 'seed': 0})
    except Exception as e:                      # noqa: BLE001
        by_clause['count.value'] = by_clause.get('count.value', 0) + 1
        failures.append({'clause': 'count.value', 'detail': f'count on close values raised {type(e).__name__}: {e}', 'table': {'labels': [], 'g': [], 'x': [], 'y': []}, 'ops': [], 'seed': 0})

    for ti, t in enumerate(CATALOGUE):
        L = exh_len if ti in deep else (1 if tier == 'quick' else 2)
        for ops in sequences(L):
            if useful(ops):
                do(t, ops, seed + cases)
    for t in gen_tables:
        for ops in sequences(1):
            do(t, ops, seed + cases)
    all_tables = CATALOGUE + gen_tables
    for _ in range(nrand):
        t = all_tables[int(rng.integers(0, len(all_tables)))]
        ops = tuple(STATE_OPS[int(i)] for i in rng.integers(0, len(STATE_OPS), size=3))
        do(t, ops, seed + cases)
    for _ in range(nbig):
        t = big_table(rng)
        for ops in ((), (('panel', 'g'),), (('remove', 'x>2.6'), ('panel', 'g')), (('extract_rows', 'repeat'), ('remove', 'g==1')),
                    (('panel', 'g'), ('remove', 'y-1'))):
            do(t, ops, seed + cases)
    print(json.dumps({'cases': cases, 'failures': failures, 'by_clause': by_clause}, default=str))
    return 1 if failures else 0


if __name__ == '__main__':
    sys.exit(main(sys.argv[1:]))
