"""Bounded stand-in for property C12 (invalid specifications are refused with BiogemeError wherever
the fault sits; the missing-data code is never used; fault-free specifications are accepted).

usage: /venv/bin/python /verif/bounded/c12_faults.py <quick|thorough> <seed>
       env C12_SPAWN=1   : one brand-new interpreter per case (slow) instead of one fork per case
       env C12_MATRIX=1  : print the full outcome matrix before the final JSON line

Fault planting.  HOSTS are valid formulas with one hole, one per operand position of every operator
kind (binary, unary, comparison, Elem entries/key, ConditionalSum terms/conditions, bioMultSum list/dict
entries, bioLinearUtility variables, LogLogit utilities/availabilities/choice, MonteCarlo, Integrate,
Derive, PanelLikelihoodTrajectory, Catalog members); WRAPPERS put a host under a second operator.
FAULTS are elements planted in the hole.  Every case is executed in its own process (forked from a
pristine parent that has imported biogeme but never called the engine; the engine's sticky error
state therefore starts clean in every case) through two entry points:
    expr    : e.get_value_and_derivatives(database=db, prepare_ids=True)
    biogeme : BIOGEME(db, e, parameters=Parameters()) then calculate_likelihood
Oracle (from the property statement): a planted fault must end in biogeme.exceptions.BiogemeError
(any other exception type, a number, or a dead process is a failure); the same host with a valid
element in the hole must give a finite number; a hole that reads a column holding the declared
missing-data code in row 1 must end in an exception (any type), unless the hole is in an Elem /
ConditionalSum branch not selected for that row, in which case the exact numeric value is expected.
"""
import json
import math
import os
import random
import select
import shutil
import signal
import subprocess
import sys
import tempfile
import time

CODE = 99999

# ------------------------------------------------------------------------------------------------
# catalogue (names only; the objects are built in the child process)
# ------------------------------------------------------------------------------------------------
HOSTS = [
    # binary operators, both operand positions
    'plus_l', 'plus_r', 'minus_l', 'minus_r', 'times_l', 'times_r', 'div_l', 'div_r', 'pow_l', 'pow_r',
    'min_l', 'min_r', 'max_l', 'max_r', 'and_l', 'and_r', 'or_l', 'or_r',
    # unary operators
    'neg', 'exp', 'log', 'sin', 'cos', 'logzero', 'powconst', 'normalcdf', 'belongs', 'derive',
    # comparisons, both operand positions
    'eq_l', 'eq_r', 'ne_l', 'ne_r', 'le_l', 'le_r', 'ge_l', 'ge_r', 'lt_l', 'lt_r', 'gt_l', 'gt_r',
    # n-ary
    'elem_entry_sel', 'elem_entry_var', 'elem_key', 'condsum_term', 'condsum_cond', 'multsum_list', 'multsum_dict',
    'linutil_var',
    # logit
    'logit_util', 'logit_util_noav', 'logit_avail', 'logit_choice',
    # integration operators and catalogs
    'mc', 'integrate', 'catalog_selected', 'catalog_inner',
]
VARIABLE_ONLY_HOSTS = {'linutil_var'}
# holes in which any real number (negative, zero, non-integer) is a valid operand: only these are used to check that a
# correctly placed draw / integration variable, or a host nested in another host, is ACCEPTED
ANY_REAL_HOLE = {'plus_l', 'plus_r', 'minus_l', 'minus_r', 'times_l', 'times_r', 'div_l', 'min_l', 'min_r', 'max_l', 'max_r',
                 'and_l', 'and_r', 'or_l', 'or_r', 'neg', 'exp', 'sin', 'cos', 'powconst', 'normalcdf', 'derive',
                 'eq_l', 'eq_r', 'ne_l', 'ne_r', 'le_l', 'le_r', 'ge_l', 'ge_r', 'lt_l', 'lt_r', 'gt_l', 'gt_r',
                 'elem_entry_sel', 'elem_entry_var', 'condsum_term', 'condsum_cond', 'multsum_list', 'multsum_dict',
                 'logit_util', 'logit_util_noav', 'mc', 'integrate', 'catalog_selected', 'catalog_inner'}
IN_MC = {'mc'}
IN_INT = {'integrate'}
WRAPPERS = ['none', 'mc_w', 'int_w', 'cmp_w', 'elem_w', 'condsum_w', 'logit_w', 'catalog_w', 'multsum_w']
PLACEMENT_FAULTS = ['unknown_column', 'dup_beta_column', 'dup_free_fixed', 'draws_outside_mc', 'rv_outside_integral',
                    'logit_av_mismatch', 'logit_av_missing_key', 'logit_av_extra_key', 'logit_bad_choice']
EXTRA_FAULTS = ['extra_mc_without_draws', 'extra_integrate_without_rv', 'extra_nested_mc', 'extra_plt_without_panel']
WARNING_ONLY = ['chosen_alternative_unavailable', 'chained_comparison', 'belongs_to_non_integer_set']
VARIABLE_FAULTS = {'unknown_column'}          # faults that are themselves a Variable (fit a variable-only hole)


def gen_cases(tier, rng):
    cases = []

    def add(**kw):
        kw['id'] = len(cases)
        cases.append(kw)
    single = [(h, 'none') for h in HOSTS]
    if tier == 'quick':
        wrapped = [(rng.choice(HOSTS), w) for w in WRAPPERS[1:] for _ in range(2)]
    else:
        wrapped = [(h, w) for h in HOSTS for w in WRAPPERS[1:]]
    for host, wrap in single + wrapped:
        entries = ['expr', 'biogeme', 'biogeme_dict']      # biogeme_dict: the formula is the log likelihood entry of a DICTIONARY of formulas
        in_mc = host in IN_MC or wrap == 'mc_w'
        in_int = host in IN_INT or wrap == 'int_w'
        if host in IN_MC and wrap == 'mc_w':
            continue            # MonteCarlo inside MonteCarlo is itself a fault
        # fault-free host: accepted
        for entry in entries:
            add(group='valid', host=host, wrap=wrap, fault='none', entry=entry, db='plain', expect='number')
        for fault in PLACEMENT_FAULTS + (EXTRA_FAULTS if (wrap == 'none' or tier == 'thorough') else []):
            if host in VARIABLE_ONLY_HOSTS and fault not in VARIABLE_FAULTS:
                continue
            if fault == 'draws_outside_mc' and in_mc:
                # correct placement: must be accepted
                for entry in (entries if host in ANY_REAL_HOLE else []):
                    add(group='valid', host=host, wrap=wrap, fault='draws_inside_mc', entry=entry, db='plain', expect='number')
                continue
            if fault == 'rv_outside_integral' and in_int:
                for entry in (entries if host in ANY_REAL_HOLE else []):
                    add(group='valid', host=host, wrap=wrap, fault='rv_inside_integral', entry=entry, db='plain', expect='number')
                continue
            if fault in ('extra_mc_without_draws', 'extra_nested_mc') and in_mc:
                continue
            if fault == 'extra_integrate_without_rv' and in_int:
                continue
            for entry in entries:
                add(group='plant', host=host, wrap=wrap, fault=fault, entry=entry, db='plain', expect='BiogemeError')
        # second derivatives without first ones
        if wrap == 'none' or tier == 'thorough':
            for which in ('hessian', 'bhhh'):
                add(group='plant', host=host, wrap=wrap, fault='second_without_first_' + which, entry='expr', db='plain',
                    expect='BiogemeError')
        # panel data: a data variable outside the trajectory operator / everything inside it
        if wrap == 'none' or tier == 'thorough':
            if not in_mc:
                for entry in entries:
                    add(group='plant', host=host, wrap=wrap, fault='var_outside_trajectory', entry=entry, db='panel',
                        expect='BiogemeError')
                    add(group='valid', host=host, wrap=wrap, fault='all_inside_trajectory', entry=entry, db='panel',
                        expect='number')
        # missing-data code read by the hole
        if wrap == 'none' or tier == 'thorough':
            for entry in entries:
                if host == 'or_r':      # y | m : the engine does not evaluate m when y != 0
                    add(group='missing', host=host, wrap=wrap, fault='code_in_unselected_branch', entry=entry, db='plain',
                        expect='value')
                elif host == 'elem_entry_var' or host == 'condsum_term':
                    add(group='missing', host=host, wrap=wrap, fault='code_in_unselected_branch', entry=entry, db='plain',
                        expect='value')
                    add(group='missing', host=host, wrap=wrap, fault='code_in_selected_branch', entry=entry, db='plain',
                        expect='exception')
                else:
                    add(group='missing', host=host, wrap=wrap, fault='code_read', entry=entry, db='plain', expect='exception')
    # thorough: host inside host
    if tier == 'thorough':
        pairs = [(rng.choice(HOSTS), rng.choice(HOSTS)) for _ in range(150)]
        for inner, outer in pairs:
            if outer in VARIABLE_ONLY_HOSTS or (inner in IN_MC and outer in IN_MC):
                continue
            fault = rng.choice(['unknown_column', 'dup_beta_column', 'logit_av_mismatch', 'logit_bad_choice',
                                'draws_outside_mc', 'rv_outside_integral'])
            if inner in VARIABLE_ONLY_HOSTS and fault not in VARIABLE_FAULTS:
                continue
            if (fault == 'draws_outside_mc' and (inner in IN_MC or outer in IN_MC)) or \
                    (fault == 'rv_outside_integral' and (inner in IN_INT or outer in IN_INT)):
                continue
            for entry in ('expr', 'biogeme'):
                add(group='plant', host=inner, wrap='host:' + outer, fault=fault, entry=entry, db='plain', expect='BiogemeError')
                if outer in ANY_REAL_HOLE:
                    add(group='valid', host=inner, wrap='host:' + outer, fault='none', entry=entry, db='plain', expect='number')
    # declared (non-default) missing-data code
    for name, expect in [('declared_fractional_code_read_likelihood', 'exception'), ('value_next_to_a_fractional_code_harmless', 'value'),
                         ('declared_code_read_likelihood', 'exception'), ('default_code_harmless_when_other_declared', 'value'),
                         ('declared_code_unread_column', 'value'), ('declared_code_weight_default_code_harmless', 'value'),
                         ('declared_code_read_expression_after_construction', 'exception'),
                         ('declared_code_read_simulate', 'exception_or_nan'), ('declared_code_simulate_default_harmless', 'value'),
                         ('default_code_read_likelihood', 'exception'), ('default_code_read_simulate', 'exception_or_nan')]:
        add(group='declared', host='-', wrap='-', fault=name, entry='biogeme', db='plain', expect=expect)
    # data faults
    for name in ['empty', 'empty_with_columns', 'string_first', 'string_middle', 'string_last', 'string_unused_column',
                 'numeric_strings', 'nan_first_cell', 'nan_middle', 'nan_last_cell', 'none_value', 'nan_unused_column',
                 'datetime_column', 'nan_float32_column', 'nan_float16_column', 'nan_in_nullable_float_column']:
        add(group='data', host='-', wrap='-', fault=name, entry='database', db='-', expect='BiogemeError')
    # histories: the SAME objects are first evaluated on a valid specification, then the fault appears (a validation remembered from
    # an earlier evaluation must not let it through)
    for name in ['catalog_switched_to_member_with_rv_outside_integral', 'catalog_switched_to_member_with_draws_outside_mc',
                 'function_after_its_column_was_removed']:
        add(group='history', host='-', wrap='-', fault=name, entry='expr', db='-', expect='BiogemeError')
    add(group='history', host='-', wrap='-', fault='catalog_switched_back_to_the_valid_member', entry='expr', db='-', expect='number')
    for name in ['nan_after_construction', 'string_after_construction']:
        add(group='data', host='-', wrap='-', fault=name, entry='biogeme', db='-', expect='BiogemeError')
    add(group='valid', host='-', wrap='-', fault='clean_int_and_float_columns', entry='database', db='-', expect='number')
    # nests
    for fn in ['lognested', 'nested', 'get_mev_for_nested', 'lognested_mev_mu', 'nested_mev_mu']:
        for name in ['overlap_01', 'overlap_12', 'overlap_02', 'overlap_all', 'outside_choice_set_0', 'outside_choice_set_2',
                     'old_tuple_overlap']:
            add(group='nests', host=fn, wrap='-', fault=name, entry='model', db='plain', expect='BiogemeError')
        add(group='valid', host=fn, wrap='-', fault='partition', entry='model', db='plain', expect='number')
        add(group='valid', host=fn, wrap='-', fault='partition_with_alone_alternative', entry='model', db='plain', expect='number')
    for fn in ['logcnl', 'cnl', 'get_mev_for_cross_nested', 'logcnlmu', 'cnlmu']:
        for name in ['outside_choice_set_0', 'outside_choice_set_1', 'alpha_outside_choice_set']:
            add(group='nests', host=fn, wrap='-', fault=name, entry='model', db='plain', expect='BiogemeError')
        add(group='valid', host=fn, wrap='-', fault='cross_nested', entry='model', db='plain', expect='number')
    # a catalog as the root of the formula
    for entry in ('expr', 'biogeme'):
        add(group='valid', host='catalog_root', wrap='none', fault='none', entry=entry, db='plain', expect='number')
    # (m5, round 3) specifications that deserve a WARNING only: the audit reports no error and one warning, and the two entry points
    # do not end in a foreign exception (the numpy tail of LogLogit.audit and the warning branches of the other audits)
    for name in WARNING_ONLY:
        add(group='warning', host='-', wrap='-', fault=name, entry='audit', db='plain', expect='warning_only')
    # the trajectory operator without a database is an error; under MonteCarlo it is reported together with a warning
    add(group='warning', host='-', wrap='-', fault='mc_trajectory_without_database', entry='audit', db='none', expect='one_error_one_warning')
    for entry in ('expr', 'biogeme'):
        add(group='warning', host='-', wrap='-', fault='chosen_alternative_unavailable', entry=entry, db='plain', expect='no_foreign_exception')
    # (m5, round 3) create_function: second derivatives without first ones are refused when the callable is BUILT; every consistent
    # request gives a callable whose value at a point other than the initial one is exact; a point of the wrong length is refused
    for g_, h_, b_ in [(True, True, False), (True, False, True), (True, True, True), (True, False, False), (False, False, False)]:
        add(group='function', host='-', wrap='-', fault='consistent_%d%d%d' % (g_, h_, b_), entry='create_function', db='plain', expect='value')
    for g_, h_, b_ in [(False, True, False), (False, False, True), (False, True, True)]:
        add(group='function', host='-', wrap='-', fault='second_without_first_%d%d%d' % (g_, h_, b_), entry='create_function', db='plain',
            expect='BiogemeError')
    add(group='function', host='-', wrap='-', fault='point_of_wrong_length', entry='create_function', db='plain', expect='BiogemeError')
    # operators evaluated without any database
    for name in ['extra_plt_without_database', 'extra_variable_without_database']:
        add(group='plant', host='-', wrap='none', fault=name, entry='expr', db='none', expect='BiogemeError')
    return cases


# ------------------------------------------------------------------------------------------------
# child side: build and run one case with the real code
# ------------------------------------------------------------------------------------------------
def base_frame():
    import pandas as pd
    return pd.DataFrame({
        'pid': [10, 10, 20, 30],
        'x': [1.0, 2.0, 1.0, 2.0],          # valid element for every hole (positive, integer valued, a valid alternative)
        'y': [0.5, 1.5, 0.8, 1.2],
        'z': [0.3, -0.4, 0.9, 1.1],
        'k': [1.0, 0.0, 1.0, 0.0],          # Elem key: entry 1 NOT selected in row 1
        'k_sel': [0.0, 1.0, 0.0, 1.0],      # Elem key: entry 1 selected in row 1
        'c_off': [1.0, 0.0, 1.0, 1.0],      # ConditionalSum condition false in row 1
        'c_on': [0.0, 1.0, 1.0, 1.0],       # ConditionalSum condition true in row 1
        'ch': [1.0, 2.0, 2.0, 1.0],
        'ch3': [1.0, 2.0, 3.0, 1.0],
        'av': [1.0, 1.0, 1.0, 1.0],
        'm': [1.0, float(CODE), 2.0, 1.0],  # declared (default) missing-data code in row 1
        'neg': [1.0, -1.0, 2.0, 1.0],       # non-default code -1 in row 1
        'w': [1.0, 1.0, 1.0, 1.0],
        'wm': [1.0, float(CODE), 0.5, 0.5],
        'junk': [float(CODE)] * 4,          # code everywhere in a column no formula reads
    })


class Ctx:
    """Operand factories used by the hosts around the hole."""

    def __init__(self, panel_outside=False, key='k', cond='c_off'):
        self.panel_outside = panel_outside
        self.keyname = key
        self.condname = cond
        self.rv_name = 'omega_planted'

    def O(self):
        from biogeme.expressions import Variable, Beta
        return Beta('c_fix', 1.3, None, None, 1) if self.panel_outside else Variable('y')

    def O2(self):
        from biogeme.expressions import Variable, Numeric
        return Numeric(0.7) if self.panel_outside else Variable('z')

    def b(self):
        from biogeme.expressions import Beta
        return Beta('b', 0.5, None, None, 0)

    def key(self):
        from biogeme.expressions import Variable, Numeric
        return Numeric(1) if self.panel_outside else Variable(self.keyname)

    def cond(self):
        from biogeme.expressions import Variable
        return (self.b() > 0) if self.panel_outside else Variable(self.condname)

    def choice(self):
        from biogeme.expressions import Variable, Numeric
        return Numeric(1) if self.panel_outside else Variable('ch')

    def av(self):
        from biogeme.expressions import Variable, Numeric
        return Numeric(1) if self.panel_outside else Variable('av')


def build_host(name, S, c):
    import biogeme.expressions as ex
    from biogeme.expressions import (bioMin, bioMax, exp, log, sin, cos, logzero, bioNormalCdf, BelongsTo,
                                     Derive, Elem, ConditionalSum, ConditionalTermTuple, bioMultSum, bioLinearUtility,
                                     LinearTermTuple, _bioLogLogit, MonteCarlo, bioDraws, Integrate, RandomVariable, Numeric)
    from biogeme.expressions.unary_expressions import PowerConstant
    from biogeme.expressions.binary_expressions import Power
    from biogeme.distributions import normalpdf
    from biogeme.catalog import Catalog
    O, O2 = c.O, c.O2
    table = {
        'plus_l': lambda: S + O(), 'plus_r': lambda: O() + S, 'minus_l': lambda: S - O(), 'minus_r': lambda: O() - S,
        'times_l': lambda: S * O(), 'times_r': lambda: O() * S, 'div_l': lambda: S / O(), 'div_r': lambda: O() / S,
        'pow_l': lambda: Power(S, O()), 'pow_r': lambda: Power(O(), S),
        'min_l': lambda: bioMin(S, O()), 'min_r': lambda: bioMin(O(), S), 'max_l': lambda: bioMax(S, O()), 'max_r': lambda: bioMax(O(), S),
        'and_l': lambda: S & O(), 'and_r': lambda: O() & S, 'or_l': lambda: S | O(), 'or_r': lambda: O() | S,
        'neg': lambda: -S, 'exp': lambda: exp(S), 'log': lambda: log(S), 'sin': lambda: sin(S), 'cos': lambda: cos(S),
        'logzero': lambda: logzero(S), 'powconst': lambda: PowerConstant(S, 2.0), 'normalcdf': lambda: bioNormalCdf(S),
        'belongs': lambda: BelongsTo(S, {1, 2}), 'derive': lambda: Derive(S * c.b(), 'b'),
        'eq_l': lambda: S == O(), 'eq_r': lambda: O() == S, 'ne_l': lambda: S != O(), 'ne_r': lambda: O() != S,
        'le_l': lambda: S <= O(), 'le_r': lambda: O() <= S, 'ge_l': lambda: S >= O(), 'ge_r': lambda: O() >= S,
        'lt_l': lambda: S < O(), 'lt_r': lambda: O() < S, 'gt_l': lambda: S > O(), 'gt_r': lambda: O() > S,
        'elem_entry_sel': lambda: Elem({0: O(), 1: S}, Numeric(1)),
        'elem_entry_var': lambda: Elem({0: O(), 1: S}, c.key()),
        'elem_key': lambda: Elem({1: O(), 2: O2(), CODE: O()}, S),
        'condsum_term': lambda: ConditionalSum([ConditionalTermTuple(condition=c.cond(), term=S),
                                                ConditionalTermTuple(condition=(O() > 0), term=O2())]),
        'condsum_cond': lambda: ConditionalSum([ConditionalTermTuple(condition=S, term=O())]),
        'multsum_list': lambda: bioMultSum([O(), S, O2()]), 'multsum_dict': lambda: bioMultSum({'first': O(), 'second': S}),
        'linutil_var': lambda: bioLinearUtility([LinearTermTuple(beta=c.b(), x=S)]),
        'logit_util': lambda: _bioLogLogit({1: S, 2: O()}, {1: c.av(), 2: c.av()}, c.choice()),
        'logit_util_noav': lambda: _bioLogLogit({1: O(), 2: S}, None, c.choice()),
        'logit_avail': lambda: _bioLogLogit({1: O(), 2: O2()}, {1: c.av(), 2: S}, c.choice()),
        'logit_choice': lambda: _bioLogLogit({1: O(), 2: O2(), CODE: O()}, None, S),
        'mc': lambda: MonteCarlo(S * bioDraws('xi_host', 'UNIFORM')),
        'integrate': lambda: Integrate(S * normalpdf(RandomVariable('omega_host')), 'omega_host'),
        'catalog_selected': lambda: O2() + Catalog.from_dict('cat_host', {'one': S, 'two': O()}),
        'catalog_inner': lambda: O2() + Catalog.from_dict('cat_host', {'one': S + O(), 'two': O()}),
        'catalog_root': lambda: Catalog.from_dict('cat_host', {'one': S, 'two': O()}),
    }
    return table[name]()


def build_wrap(name, inner, c):
    from biogeme.expressions import (MonteCarlo, bioDraws, Integrate, RandomVariable, Elem, ConditionalSum,
                                     ConditionalTermTuple, _bioLogLogit, bioMultSum, Numeric)
    from biogeme.distributions import normalpdf
    from biogeme.catalog import Catalog
    if name == 'none':
        return inner
    if name.startswith('host:'):
        return build_host(name[5:], inner, c)
    if name == 'mc_w':
        return MonteCarlo(inner + bioDraws('xi_wrap', 'UNIFORM'))
    if name == 'int_w':
        return Integrate(inner * normalpdf(RandomVariable('omega_wrap')), 'omega_wrap')
    if name == 'cmp_w':
        return (inner > c.O2()) + (c.O2() <= inner)
    if name == 'elem_w':
        return Elem({0: c.O(), 1: inner}, Numeric(1))
    if name == 'condsum_w':
        return ConditionalSum([ConditionalTermTuple(condition=(c.O() > 0), term=inner)])
    if name == 'logit_w':
        return _bioLogLogit({1: inner, 2: c.O()}, None, c.choice())
    if name == 'catalog_w':
        return c.O2() + Catalog.from_dict('cat_wrap', {'one': inner, 'two': c.O()})
    if name == 'multsum_w':
        return bioMultSum([c.O2(), inner])
    raise ValueError(name)


def build_fault(name, c):
    from biogeme.expressions import (Variable, Beta, bioDraws, RandomVariable, exp, _bioLogLogit, MonteCarlo, Integrate,
                                     PanelLikelihoodTrajectory)
    if name in ('none', 'var_outside_trajectory', 'all_inside_trajectory') or name.startswith('second_without_first'):
        return Variable('x')
    if name == 'unknown_column':
        return Variable('no_such_column')
    if name == 'dup_beta_column':
        return Beta('z', 1.0, None, None, 0)                 # 'z' is also a column of the table
    if name == 'dup_free_fixed':
        return Beta('twice', 1.0, None, None, 0) * Beta('twice', 1.0, None, None, 1)
    if name in ('draws_outside_mc', 'draws_inside_mc'):
        return bioDraws('xi_planted', 'UNIFORM')
    if name == 'rv_outside_integral':
        return RandomVariable('omega_planted')
    if name == 'rv_inside_integral':
        return RandomVariable(c.rv_name)
    if name == 'logit_av_mismatch':
        return exp(_bioLogLogit({1: c.O(), 2: c.O2()}, {1: c.av(), 3: c.av()}, c.choice()))
    if name == 'logit_av_missing_key':     # the chosen alternatives (1, 2) have an availability; alternative 3 has none
        return exp(_bioLogLogit({1: c.O(), 2: c.O2(), 3: c.O()}, {1: c.av(), 2: c.av()}, c.choice()))
    if name == 'logit_av_extra_key':       # an availability for an alternative without utility
        return exp(_bioLogLogit({1: c.O(), 2: c.O2()}, {1: c.av(), 2: c.av(), 3: c.av()}, c.choice()))
    if name == 'logit_bad_choice':
        return exp(_bioLogLogit({1: c.O(), 2: c.O2()}, None, Variable('ch3')))
    if name == 'extra_mc_without_draws':
        return MonteCarlo(c.O())
    if name == 'extra_integrate_without_rv':
        return Integrate(c.O(), 'omega_none')
    if name == 'extra_nested_mc':
        return MonteCarlo(MonteCarlo(bioDraws('xi_a', 'UNIFORM')) * bioDraws('xi_b', 'UNIFORM'))
    if name == 'extra_plt_without_panel':
        return PanelLikelihoodTrajectory(c.O())
    if name in ('code_read', 'code_in_unselected_branch', 'code_in_selected_branch'):
        return Variable('m')
    raise ValueError(name)


def expected_value_unselected(case):
    """Exact aggregate of the two hosts whose hole is not read in row 1 (hole = column m)."""
    df = base_frame()
    tot = 0.0
    for i in range(len(df)):
        y, z, m = df['y'][i], df['z'][i], df['m'][i]
        if case['host'] == 'elem_entry_var':
            tot += m if df['k'][i] == 1 else y
        elif case['host'] == 'or_r':
            tot += 1.0 if (y != 0 or m != 0) else 0.0
        else:
            tot += (m if df['c_off'][i] != 0 else 0.0) + (z if y > 0 else 0.0)
    return tot


def execute(case):
    """Runs one case; returns {'outcome': 'BiogemeError'|'exception'|'number', ...}."""
    import numpy as np
    import pandas as pd
    import biogeme.database as db
    from biogeme.biogeme import BIOGEME
    from biogeme.parameters import Parameters
    from biogeme.exceptions import BiogemeError
    from biogeme.expressions import Variable, Beta, PanelLikelihoodTrajectory, exp, Numeric

    def params(code=None):
        p = Parameters()
        p.set_value('number_of_draws', 4, section='MonteCarlo')
        p.set_value('number_of_threads', 1, section='MultiThreading')
        for n in ('generate_html', 'generate_pickle'):
            p.set_value(n, False, section='Output')
        if code is not None:
            p.set_value('missing_data', code, section='Specification')
        return p

    def outcome(fun):
        try:
            v = fun()
        except BiogemeError as e:
            return {'outcome': 'BiogemeError', 'msg': str(e)[:160]}
        except BaseException as e:
            return {'outcome': 'exception', 'type': type(e).__name__, 'msg': str(e)[:200]}
        try:
            v = float(v)
        except Exception:
            v = float('nan')
        return {'outcome': 'number', 'value': v}

    g = case['group']
    if g in ('plant', 'valid', 'missing') and case['host'] != '-' and case['entry'] in ('expr', 'biogeme', 'biogeme_dict'):
        fault = case['fault']
        panel_outside = fault == 'var_outside_trajectory'
        ctx = Ctx(panel_outside=panel_outside,
                  key='k_sel' if fault == 'code_in_selected_branch' else 'k',
                  cond='c_on' if fault == 'code_in_selected_branch' else 'c_off')

        ctx.rv_name = 'omega_host' if case['host'] in IN_INT else 'omega_wrap'

        def run():
            d = db.Database('c12', base_frame())
            if case['db'] == 'panel':
                d.panel('pid')
            S = build_fault(fault, ctx)
            e = build_wrap(case['wrap'], build_host(case['host'], S, ctx), ctx)
            if fault == 'var_outside_trajectory':
                e = PanelLikelihoodTrajectory(exp(Variable('y') * 0.1)) + e
            elif fault == 'all_inside_trajectory':
                e = PanelLikelihoodTrajectory(exp(e * 0.01))
            if case['entry'] == 'expr':
                kw = {'gradient': False, 'hessian': False, 'bhhh': False}
                if fault.startswith('second_without_first'):
                    which = fault.rsplit('_', 1)[1]
                    kw = {'gradient': False, 'hessian': which == 'hessian', 'bhhh': which == 'bhhh'}
                r = e.get_value_and_derivatives(database=d, number_of_draws=4, aggregation=True, prepare_ids=True, **kw)
                return r.function
            bg = BIOGEME(d, {'log_like': e} if case['entry'] == 'biogeme_dict' else e, parameters=params())
            return bg.calculate_likelihood(bg.id_manager.free_betas_values, scaled=False)
        out = outcome(run)
        if case['expect'] == 'value':
            out['want'] = expected_value_unselected(case) if case['wrap'] == 'none' else None
        return out

    if g == 'history':
        f = case['fault']

        def run():
            from biogeme.catalog import Catalog
            from biogeme.expressions import Integrate, MonteCarlo, RandomVariable, bioDraws
            d = db.Database('c12hist', base_frame())
            if f == 'function_after_its_column_was_removed':
                e = Beta('b', 0.5, None, None, 0) * Variable('x') + Variable('y')
                fn = e.create_function(database=d, number_of_draws=4, gradient=False, hessian=False, bhhh=False)
                fn([0.5])
                d.data.drop(columns=['x'], inplace=True)
                return fn([0.5]).function
            omega = RandomVariable('omega_h')
            density = exp(-omega * omega / 2) / math.sqrt(2 * math.pi)
            if f == 'catalog_switched_to_member_with_draws_outside_mc':
                xi = bioDraws('xi_h', 'UNIFORM')
                valid = Variable('x') * MonteCarlo(xi)
                faulty = Variable('x') * MonteCarlo(xi) + xi
            else:
                valid = Variable('x') * Integrate(density, 'omega_h')
                faulty = Variable('x') * Integrate(density, 'omega_h') + omega
            cat = Catalog.from_dict('c12_spec', {'valid': valid, 'faulty': faulty})
            cat.get_value_c(database=d, number_of_draws=4, prepare_ids=True)
            cat.select_expression('c12_spec', 1)
            if f == 'catalog_switched_back_to_the_valid_member':
                try:
                    cat.get_value_c(database=d, number_of_draws=4, prepare_ids=True)
                except BiogemeError:
                    pass
                cat.select_expression('c12_spec', 0)
            return sum(cat.get_value_c(database=d, number_of_draws=4, prepare_ids=True))
        return outcome(run)

    if g == 'warning':
        f = case['fault']

        def run():
            from biogeme.expressions import _bioLogLogit, BelongsTo, MonteCarlo, bioDraws
            df = base_frame()
            df['av_off'] = [1.0, 0.0, 1.0, 1.0]          # alternative 2 is chosen in row 1 and is not available there
            d = db.Database('c12', df)
            b = Beta('b', 0.5, None, None, 0)
            if f == 'chosen_alternative_unavailable':
                e = _bioLogLogit({1: b * Variable('y'), 2: Variable('z')}, {1: Variable('av'), 2: Variable('av_off')}, Variable('ch'))
            elif f == 'chained_comparison':
                e = (Variable('x') < Variable('y')) < Variable('z')
            elif f == 'belongs_to_non_integer_set':
                e = BelongsTo(Variable('x'), {1.5, 2})
            elif f == 'mc_trajectory_without_database':
                e = MonteCarlo(PanelLikelihoodTrajectory(b) * bioDraws('xi', 'UNIFORM'))
                d = None
            else:
                raise ValueError(f)
            if case['entry'] == 'audit':
                errors, warnings_ = e.audit(d)
                return 1000.0 * len(errors) + len(warnings_)
            if case['entry'] == 'expr':
                r = e.get_value_and_derivatives(database=d, number_of_draws=4, aggregation=True, prepare_ids=True,
                                                gradient=False, hessian=False, bhhh=False)
                return r.function
            bg = BIOGEME(d, e, parameters=params())
            return bg.calculate_likelihood(bg.id_manager.free_betas_values, scaled=False)
        return outcome(run)

    if g == 'function':
        f = case['fault']
        df = base_frame()

        def run():
            d = db.Database('c12', df)
            e = Beta('b', 0.5, None, None, 0) * Variable('x') + Beta('c', 0.25, None, None, 0) * Variable('y')
            if f == 'point_of_wrong_length':
                fn = e.create_function(database=d, number_of_draws=4, gradient=True, hessian=False, bhhh=False)
                return fn([2.0, -1.0, 3.0]).function
            bits = f.rsplit('_', 1)[1]
            fn = e.create_function(database=d, number_of_draws=4, gradient=bits[0] == '1', hessian=bits[1] == '1', bhhh=bits[2] == '1')
            return fn([2.0, -1.0]).function
        out = outcome(run)
        if case['expect'] == 'value':
            out['want'] = float((2.0 * df['x'] - 1.0 * df['y']).sum())
        return out

    if g == 'plant' and case['db'] == 'none':
        def run():
            if case['fault'] == 'extra_plt_without_database':
                return PanelLikelihoodTrajectory(Beta('b', 0.5, None, None, 0)).get_value_c(prepare_ids=True)
            return (Variable('x') + 1).get_value_c(prepare_ids=True)
        return outcome(run)

    if g == 'declared':
        f = case['fault']
        df = base_frame()

        def run():
            d = db.Database('c12', df)
            x, m, neg = Variable('x'), Variable('m'), Variable('neg')
            if f in ('declared_fractional_code_read_likelihood', 'value_next_to_a_fractional_code_harmless'):
                # a declared code that is not an integer (-99.5): the row holding it is refused; a genuine value equal to the
                # code cut to an integer (-99) is an ordinary number
                d.data['frac'] = [1.0, -99.5 if f.startswith('declared') else -99.0, 2.0, 1.0]
                bg = BIOGEME(d, x + Variable('frac'), parameters=params(-99.5))
                return bg.calculate_likelihood([], scaled=False)
            if f == 'declared_code_read_likelihood':
                bg = BIOGEME(d, x + neg, parameters=params(-1))
                return bg.calculate_likelihood([], scaled=False)
            if f == 'default_code_read_likelihood':
                bg = BIOGEME(d, x + m, parameters=params())
                return bg.calculate_likelihood([], scaled=False)
            if f == 'default_code_harmless_when_other_declared':
                bg = BIOGEME(d, x + m, parameters=params(-1))
                return bg.calculate_likelihood([], scaled=False)
            if f == 'declared_code_unread_column':
                bg = BIOGEME(d, x + Variable('y'), parameters=params(-1))
                return bg.calculate_likelihood([], scaled=False)
            if f == 'declared_code_weight_default_code_harmless':
                bg = BIOGEME(d, {'log_like': x + Variable('y'), 'weight': Variable('wm')}, parameters=params(-1))
                return bg.calculate_likelihood([], scaled=False)
            if f == 'declared_code_read_expression_after_construction':
                e = x + neg
                BIOGEME(d, e, parameters=params(-1))
                return e.get_value_c(database=d, aggregation=True, prepare_ids=True)
            if f == 'declared_code_read_simulate':
                bg = BIOGEME(d, {'v': x + neg}, parameters=params(-1))
                sim = bg.simulate({})['v']
                return float('nan') if math.isnan(sim[1]) else sim.sum()
            if f == 'default_code_read_simulate':
                bg = BIOGEME(d, {'v': x + m}, parameters=params())
                sim = bg.simulate({})['v']
                return float('nan') if math.isnan(sim[1]) else sim.sum()
            if f == 'declared_code_simulate_default_harmless':
                bg = BIOGEME(d, {'v': x + m}, parameters=params(-1))
                return bg.simulate({})['v'].sum()
            raise ValueError(f)
        out = outcome(run)
        want = {'value_next_to_a_fractional_code_harmless': float(df['x'].sum() + 1.0 - 99.0 + 2.0 + 1.0),
                'default_code_harmless_when_other_declared': float((df['x'] + df['m']).sum()),
                'declared_code_simulate_default_harmless': float((df['x'] + df['m']).sum()),
                'declared_code_unread_column': float((df['x'] + df['y']).sum()),
                'declared_code_weight_default_code_harmless': float((df['wm'] * (df['x'] + df['y'])).sum())}
        if f in want:
            out['want'] = want[f]
        return out

    if g == 'data' or (g == 'valid' and case['entry'] == 'database'):
        f = case['fault']

        def run():
            good = pd.DataFrame({'a': [1.0, 2.0, 3.0], 'b': [4, 5, 6], 'c': [0.5, 0.25, 0.125]})
            if f == 'clean_int_and_float_columns':
                d = db.Database('ok', good)
                return (Variable('a') + Variable('b')).get_value_c(database=d, aggregation=True, prepare_ids=True)
            if f == 'empty':
                return db.Database('bad', pd.DataFrame()) and 0.0
            if f == 'empty_with_columns':
                return db.Database('bad', pd.DataFrame({'a': [], 'b': []})) and 0.0
            bad = good.copy()
            if f in ('string_first', 'string_middle', 'string_last', 'string_unused_column'):
                col = {'string_first': 'a', 'string_middle': 'b', 'string_last': 'c', 'string_unused_column': 'c'}[f]
                bad[col] = ['u', 'v', 'w']
            elif f == 'numeric_strings':
                bad['b'] = ['4', '5', '6']
            elif f == 'nan_first_cell':
                bad.loc[0, 'a'] = np.nan
            elif f == 'nan_middle':
                bad['b'] = bad['b'].astype(float)
                bad.loc[1, 'b'] = np.nan
            elif f == 'nan_last_cell':
                bad.loc[2, 'c'] = np.nan
            elif f == 'nan_unused_column':
                bad.loc[1, 'c'] = np.nan
            elif f == 'none_value':
                bad['a'] = [1.0, None, 3.0]
            elif f in ('nan_float32_column', 'nan_float16_column'):
                # NaN in a numeric column whose dtype is a float other than float64 (data downcast to save memory)
                bad['a'] = np.array([1.0, np.nan, 3.0], dtype=np.float32 if f == 'nan_float32_column' else np.float16)
            elif f == 'nan_in_nullable_float_column':
                bad['b'] = pd.array([4.0, None, 6.0], dtype='Float64')
            elif f == 'datetime_column':
                bad['b'] = pd.to_datetime(['2020-01-01', '2020-01-02', '2020-01-03'])
            elif f in ('nan_after_construction', 'string_after_construction'):
                d = db.Database('late', good.copy())
                if f == 'nan_after_construction':
                    d.data.loc[1, 'a'] = np.nan
                else:
                    d.data['c'] = ['u', 'v', 'w']
                bg = BIOGEME(d, Variable('a') + Variable('b'), parameters=params())
                return bg.calculate_likelihood([], scaled=False)
            d = db.Database('bad', bad)
            return (Variable('a') + Variable('b')).get_value_c(database=d, aggregation=True, prepare_ids=True)
        return outcome(run)

    if g == 'nests' or (g == 'valid' and case['entry'] == 'model'):
        import biogeme.models as models
        from biogeme.nests import (OneNestForNestedLogit, NestsForNestedLogit, OneNestForCrossNestedLogit,
                                   NestsForCrossNestedLogit)
        fn, f = case['host'], case['fault']

        def run():
            d = db.Database('c12', base_frame())
            V = {1: Variable('y') * Beta('b', 0.5, None, None, 0), 2: Variable('z'), 3: Variable('x') * 0.1, 4: Numeric(0.2)}
            av = {1: Variable('av'), 2: Variable('av'), 3: Variable('av'), 4: Variable('av')}
            mu = [Beta('mu%d' % i, 1.0 + 0.3 * i, 1.0, None, 1) for i in range(3)]
            choice = Variable('ch')
            if fn in ('lognested', 'nested', 'get_mev_for_nested', 'lognested_mev_mu', 'nested_mev_mu'):
                groups = {'partition': ([1], [2, 3], [4]), 'partition_with_alone_alternative': ([1, 2], [3], None),
                          'overlap_01': ([1, 2], [2, 3], [4]), 'overlap_12': ([1], [2, 3], [3, 4]),
                          'overlap_02': ([1, 2], [3], [4, 1]), 'overlap_all': ([1, 2, 3, 4], [1, 2, 3, 4], [1, 2, 3, 4]),
                          'outside_choice_set_0': ([1, 7], [2, 3], [4]), 'outside_choice_set_2': ([1], [2, 3], [4, 9]),
                          'old_tuple_overlap': ([1, 2], [2, 3], [4])}[f]
                if f == 'old_tuple_overlap':
                    nests = tuple((mu[i], grp) for i, grp in enumerate(groups))
                else:
                    nests = NestsForNestedLogit(choice_set=list(V), tuple_of_nests=tuple(
                        OneNestForNestedLogit(nest_param=mu[i], list_of_alternatives=grp, name='n%d' % i)
                        for i, grp in enumerate(groups) if grp is not None))
                if fn == 'get_mev_for_nested':
                    models.get_mev_for_nested(V, av, nests)
                    return 0.0
                if fn in ('lognested_mev_mu', 'nested_mev_mu'):
                    e = getattr(models, fn)(V, av, nests, choice, Beta('mu_top', 1.0, None, None, 1))
                else:
                    e = getattr(models, fn)(V, av, nests, choice)
            else:
                alphas = {'cross_nested': ({1: 1.0, 2: 0.5}, {2: 0.5, 3: 1.0, 4: 1.0}),
                          'outside_choice_set_0': ({1: 1.0, 2: 0.5, 8: 1.0}, {2: 0.5, 3: 1.0, 4: 1.0}),
                          'outside_choice_set_1': ({1: 1.0, 2: 0.5}, {2: 0.5, 3: 1.0, 4: 1.0, 11: 0.3}),
                          'alpha_outside_choice_set': ({1: 1.0, 2: 0.5, 0: 0.5}, {2: 0.5, 3: 1.0, 4: 1.0})}[f]
                nests = NestsForCrossNestedLogit(choice_set=list(V), tuple_of_nests=tuple(
                    OneNestForCrossNestedLogit(nest_param=mu[i], dict_of_alpha=a, name='n%d' % i) for i, a in enumerate(alphas)))
                if fn == 'get_mev_for_cross_nested':
                    models.get_mev_for_cross_nested(V, av, nests)
                    return 0.0
                if fn in ('logcnlmu', 'cnlmu'):
                    e = getattr(models, fn)(V, av, nests, choice, Beta('mu_top', 1.0, None, None, 1))
                else:
                    e = getattr(models, fn)(V, av, nests, choice)
            return e.get_value_c(database=d, aggregation=True, prepare_ids=True)
        return outcome(run)
    raise ValueError('unknown case %r' % case)


def judge(case, out):
    """None if the outcome agrees with the property, else (clause, expected, got)."""
    exp_ = case['expect']
    o = out.get('outcome')
    where = 'fault=%s host=%s wrap=%s entry=%s' % (case['fault'], case['host'], case['wrap'], case['entry'])
    got = {k: out[k] for k in ('outcome', 'type', 'msg', 'value', 'signal') if k in out}
    if 'msg' in got:       # several engine threads may fail first: keep the message independent of which one did
        import re
        got['msg'] = re.sub(r'data entry \d+', 'data entry N', got['msg'])[:160]
    if exp_ == 'BiogemeError':
        if o == 'BiogemeError':
            return None
        kind = 'extra rule' if case['fault'].startswith('extra_') else 'fault'
        return ('%s [%s] refused with BiogemeError before any number' % (kind, case['group']), 'BiogemeError', got)
    if exp_ == 'number':
        if o == 'number' and math.isfinite(out['value']):
            return None
        return ('fault-free specification accepted', 'finite number', got)
    if exp_ == 'exception':
        if o in ('BiogemeError', 'exception'):
            return None
        return ('a read missing-data code fails with an error', 'an exception', got)
    if exp_ == 'exception_or_nan':      # simulate() reports the observation as NaN instead of raising
        if o in ('BiogemeError', 'exception') or (o == 'number' and math.isnan(out['value'])):
            return None
        return ('a read missing-data code fails with an error', 'an exception (or NaN for that observation)', got)
    if exp_ == 'warning_only':
        if o == 'number' and out['value'] == 1.0:
            return None
        return ('a specification that deserves a warning only: no error, one warning', '0 errors, 1 warning (encoded 1.0)', got)
    if exp_ == 'one_error_one_warning':
        if o == 'number' and out['value'] == 1001.0:
            return None
        return ('audit of MonteCarlo over a trajectory operator without database: one error, one warning', '1 error, 1 warning (encoded 1001.0)', got)
    if exp_ == 'no_foreign_exception':
        if o in ('number', 'BiogemeError'):
            return None
        return ('a warning-only specification never ends in a foreign exception', 'a number or BiogemeError', got)
    if exp_ == 'value':
        if o == 'number' and out.get('want') is None and math.isfinite(out['value']):
            return None         # under a wrapper only "evaluates to a finite number" is asserted
        if o == 'number' and out.get('want') is not None and abs(out['value'] - out['want']) <= 1e-9 * max(1.0, abs(out['want'])):
            return None
        if case['group'] == 'function':
            return ('a consistent request to create_function gives a callable with the exact value', out.get('want'), got)
        return ('missing-data code that is not read (or not the declared one) is harmless', out.get('want'), got)
    return ('harness', exp_, got)


# ------------------------------------------------------------------------------------------------
# process management
# ------------------------------------------------------------------------------------------------
def run_forked(case, timeout=120):
    r, w = os.pipe()
    pid = os.fork()
    if pid == 0:
        try:
            os.close(r)
            devnull = os.open(os.devnull, os.O_WRONLY)
            os.dup2(devnull, 1)
            os.dup2(devnull, 2)
            try:
                out = execute(case)
            except BaseException as e:
                out = {'outcome': 'harness_error', 'type': type(e).__name__, 'msg': str(e)[:300]}
            os.write(w, json.dumps(out).encode())
        finally:
            os._exit(0)
    os.close(w)
    buf = b''
    deadline = time.time() + timeout
    while True:
        left = deadline - time.time()
        if left <= 0:
            os.kill(pid, signal.SIGKILL)
            break
        ready, _, _ = select.select([r], [], [], left)
        if not ready:
            continue
        chunk = os.read(r, 65536)
        if not chunk:
            break
        buf += chunk
    os.close(r)
    _, status = os.waitpid(pid, 0)
    if buf:
        try:
            return json.loads(buf.decode())
        except Exception:
            pass
    return {'outcome': 'died', 'signal': status & 0x7f, 'msg': 'process ended without a result (status %d)' % status}


def worker(path):
    with open(path) as f:
        cases = json.load(f)
    import biogeme.biogeme      # noqa: F401  (import only: the engine is never called in this process)
    import biogeme.models       # noqa: F401
    import biogeme.catalog      # noqa: F401
    import biogeme.distributions  # noqa: F401
    res = []
    for c in cases:
        if os.environ.get('C12_SPAWN') == '1':
            pr = subprocess.run([sys.executable, os.path.abspath(__file__), '--case', json.dumps(c)], capture_output=True, text=True)
            lines = [ln for ln in pr.stdout.strip().splitlines() if ln.strip()]
            try:
                out = json.loads(lines[-1])
            except Exception:
                out = {'outcome': 'died', 'signal': -pr.returncode, 'msg': pr.stderr[-200:]}
        else:
            out = run_forked(c)
            tries = 0
            while out.get('outcome') == 'died' and tries < 3:
                tries += 1
                out = run_forked(c)
            if tries:
                out['died_retries'] = tries
        res.append([c['id'], out])
    print('\n' + json.dumps(res))


def main():
    if len(sys.argv) >= 3 and sys.argv[1] == '--worker':
        worker(sys.argv[2])
        return 0
    if len(sys.argv) >= 3 and sys.argv[1] == '--case':
        try:
            out = execute(json.loads(sys.argv[2]))
        except BaseException as e:
            out = {'outcome': 'harness_error', 'type': type(e).__name__, 'msg': str(e)[:300]}
        print('\n' + json.dumps(out))
        return 0
    tier = sys.argv[1] if len(sys.argv) > 1 else 'quick'
    seed = int(sys.argv[2]) if len(sys.argv) > 2 else 0
    rng = random.Random(seed * 32452843 + (31 if tier == 'quick' else 32))
    cases = gen_cases(tier, rng)
    tmp = tempfile.mkdtemp(prefix='c12_')
    results = {}
    try:
        nw = min(10, max(2, (os.cpu_count() or 2) - 2))
        env = dict(os.environ, OPENBLAS_NUM_THREADS='1', OMP_NUM_THREADS='1', MKL_NUM_THREADS='1')
        procs = []
        for i in range(nw):
            path = os.path.join(tmp, 'w%d.json' % i)
            with open(path, 'w') as f:
                json.dump(cases[i::nw], f)
            procs.append(subprocess.Popen([sys.executable, os.path.abspath(__file__), '--worker', path], stdout=subprocess.PIPE,
                                          stderr=subprocess.DEVNULL, text=True, cwd=tmp, env=env))
        for i, p in enumerate(procs):
            out, _ = p.communicate(timeout=580)
            lines = [ln for ln in out.strip().splitlines() if ln.strip()]
            try:
                for cid, o in json.loads(lines[-1]):
                    results[cid] = o
            except Exception:
                for c in cases[i::nw]:
                    results.setdefault(c['id'], {'outcome': 'harness_error', 'msg': 'worker %d produced no result' % i})
    finally:
        shutil.rmtree(tmp, ignore_errors=True)
    failures = []
    summary = {}
    for c in cases:
        out = results.get(c['id'], {'outcome': 'harness_error', 'msg': 'no result'})
        verdict = judge(c, out)
        label = out.get('outcome') if out.get('outcome') != 'exception' else out.get('type')
        key = (c['group'], c['fault'], c['entry'], 'ok' if verdict is None else 'FAIL', label)
        summary.setdefault(key, []).append('%s/%s' % (c['host'], c['wrap']) if c['wrap'] not in ('none', '-') else c['host'])
        if verdict is not None:
            clause, expected, got = verdict
            failures.append({'clause': clause, 'case': {k: c[k] for k in ('group', 'fault', 'host', 'wrap', 'entry', 'db')},
                             'expected': expected, 'got': got})
    if os.environ.get('C12_MATRIX') == '1':
        for key in sorted(summary, key=lambda k: tuple(str(x) for x in k)):
            print('%-8s %-48s %-8s %-4s %-14s n=%-4d %s' % (key + (len(summary[key]), ' '.join(summary[key])[:400])))
    # one representative per (clause, fault, entry, outcome type) first, so that the 10 reported failures are as diverse as possible
    seen = set()
    diverse, rest = [], []
    for f in failures:
        k = (f['case']['fault'], f['case']['entry'])
        (rest if k in seen else diverse).append(f)
        seen.add(k)
    bound = ('%d cases, each in its own process: %d hosts (every operand position of binary/unary/comparison/Elem/ConditionalSum/'
             'bioMultSum/bioLinearUtility/LogLogit/MonteCarlo/Integrate/Derive/Catalog) x %s wrappers x faults {unknown column, Beta named '
             'like a column, free+fixed Beta of one name, draws outside MonteCarlo, integration variable outside Integrate, '
             'variable outside the trajectory on panel data, availability keys != utility keys (3 shapes), choice not an alternative, second '
             'derivatives without first} + 4 extra operator rules x 2 entry points; fault-free hosts; missing-data code read / in '
             'unselected Elem and ConditionalSum branch / unread column / non-default declared code (9 cases); 15 data faults; '
             '10 model functions x overlapping / leaving nests; 3 warning-only specifications (audit: no error, one warning; no foreign exception) + 1 error-and-warning audit; create_function x 8 derivative requests + a point of the wrong length' % (len(cases), len(HOSTS), 'sampled' if tier == 'quick' else 'all 8'))
    print(json.dumps({'cases': len(cases), 'bound': bound, 'failures': (diverse + rest)[:60],
                      'n_failures': len(failures), 'n_failure_classes': len(diverse),
                      'n_cases_retried_after_crash': sum(1 for o in results.values() if o.get('died_retries'))}))
    return 0 if not failures else 1


if __name__ == '__main__':
    sys.exit(main())
