"""C16 (round 2, tag c16c): the clauses of the constructor / iterator contracts evaluated natively on the real code for a
small fixed candidate list.  Used (a) as replay of the deductive obligations of contracts/c16c_*.py and (b) as bounded
stand-in for the clauses that stay outside the engine (helpers executed end to end; controllers that share a name).

    /venv/bin/python c16c_ctor_native.py <family>|all     -> one JSON line {"cases": n, "failures": [...]}, exit 0/1
"""
import itertools
import json
import sys
import warnings

warnings.simplefilter('ignore')


def _imp():
    from biogeme.catalog import Catalog, segmentation_catalogs, generic_alt_specific_catalogs
    from biogeme.configuration import Configuration
    from biogeme.controller import Controller, CentralController
    from biogeme.exceptions import BiogemeError
    from biogeme.expressions import Beta, NamedExpression, Numeric, Variable
    from biogeme.segmentation import DiscreteSegmentationTuple
    return locals()


def _bad_name(s: str) -> bool:
    return ';' in s or ':' in s


NAME_LISTS = [['a'], ['a', 'b'], ['b', 'a'], ['a', 'b', 'c'], ['c', 'a', 'b'], ['a', 'a'], ['a', 'b', 'a'], ['a;b', 'c'],
              ['a', 'b:c'], [';'], ['x', 'y', 'z', 'x'], []]


def controller_ctor_cases():
    """Controller.__init__: BiogemeError IFF a name contains ; or : or two specification names are equal; otherwise
    names kept in order, index 0, index table name -> position, no controlled catalogs."""
    m = _imp()
    bad, n = [], 0
    for cname in ('ctrl', 'c;x', 'c:x'):
        for names in NAME_LISTS:
            n += 1
            expect = _bad_name(cname) or any(_bad_name(x) for x in names) or len(set(names)) != len(names)
            try:
                c = m['Controller'](cname, list(names))
            except m['BiogemeError']:
                if not expect:
                    bad.append({'check': 'Controller.__init__ refuses admissible names', 'controller': cname, 'names': names})
                continue
            if expect:
                bad.append({'check': 'Controller.__init__ accepts names that break identifiers / collapse configurations',
                            'controller': cname, 'names': names})
                continue
            ok = (c.controller_name == cname and list(c.specification_names) == names and c.current_index == 0
                  and c.dict_of_index == {x: i for i, x in enumerate(names)} and list(c.controlled_catalogs) == [])
            if not ok:
                bad.append({'check': 'Controller.__init__ postcondition', 'controller': cname, 'names': names,
                            'got': {'names': list(c.specification_names), 'index': c.current_index, 'table': c.dict_of_index}})
    return n, bad


def _members(m, names, base=0.0):
    # the VALUE of a member encodes its NAME (so following by position instead of by name is visible)
    return [m['NamedExpression'](nm, m['Numeric'](base + 1 + sorted(set(names)).index(nm))) for nm in names]


def _follows_by_name(m, cat, ctrl):
    """for every position of the controller, the catalog selects the member NAMED like the controller's current choice"""
    for i in range(len(ctrl.specification_names)):
        ctrl.set_index(i)
        if cat.selected_name() != ctrl.current_name():
            return {'controller_index': i, 'controller_name': ctrl.current_name(), 'catalog_selected': cat.selected_name()}
    ctrl.set_index(0)
    return None


def catalog_ctor_cases(from_dict=False):
    """Catalog.__init__ / Catalog.from_dict: BiogemeError IFF bad catalog name, empty, (no controller: bad / duplicate
    member names), (controller: its names differ from the member names AS SEQUENCES); otherwise the controller names
    are the member names in order, the given controller is used, and selection follows names."""
    m = _imp()
    bad, n = [], 0
    what = 'Catalog.from_dict' if from_dict else 'Catalog.__init__'
    for cat_name in ('cat', 'c;t'):
        for names in NAME_LISTS:
            if from_dict and len(set(names)) != len(names):
                continue
            ctrl_choices = [None] + [p for p in (list(q) for q in set(itertools.permutations(names))) if len(names) <= 3 and names
                                     and not any(_bad_name(x) for x in names) and len(set(names)) == len(names)]
            if names and not any(_bad_name(x) for x in names) and len(set(names)) == len(names):
                ctrl_choices += [names + ['extra'], names[:-1]]
            for cnames in ctrl_choices:
                n += 1
                ctrl = None
                if cnames is not None:
                    if not cnames:
                        continue
                    ctrl = m['Controller']('shared', cnames)
                if ctrl is None:
                    expect = _bad_name(cat_name) or not names or any(_bad_name(x) for x in names) or len(set(names)) != len(names)
                else:
                    expect = _bad_name(cat_name) or not names or list(cnames) != list(names)
                try:
                    if from_dict:
                        cat = m['Catalog'].from_dict(cat_name, {nm: e.expression for nm, e in zip(names, _members(m, names))}, controlled_by=ctrl)
                    else:
                        cat = m['Catalog'](cat_name, _members(m, names), controlled_by=ctrl)
                except m['BiogemeError']:
                    if not expect:
                        bad.append({'check': f'{what} refuses an admissible catalog', 'catalog': cat_name, 'members': names, 'controller_names': cnames})
                    continue
                if expect:
                    bad.append({'check': f'{what} accepts a catalog whose names differ from the controller\'s names as sequences'
                                if ctrl is not None else f'{what} accepts inadmissible names',
                                'catalog': cat_name, 'members': names, 'controller_names': cnames})
                    # keep going: show the consequence
                got_names = [e.name for e in cat.named_expressions]
                c = cat.controlled_by
                problems = []
                if cat.name != cat_name or got_names != list(names):
                    problems.append('members not kept in order')
                if ctrl is not None and c is not ctrl:
                    problems.append('given controller not used')
                if ctrl is None and (c.controller_name != cat_name or c.current_index != 0):
                    problems.append('fresh controller not named like the catalog / not at index 0')
                if list(c.specification_names) != got_names:
                    problems.append('controller names are not the member names in order')
                if list(cat.children) != [e.expression for e in cat.named_expressions]:
                    problems.append('children are not the member expressions')
                w = _follows_by_name(m, cat, c)
                if w:
                    problems.append(f'selection follows positions, not names: {w}')
                if problems:
                    bad.append({'check': f'{what} postcondition', 'catalog': cat_name, 'members': names, 'controller_names': cnames,
                                'problems': problems})
    return n, bad


def helper_cases():
    """segmentation_catalogs / generic_alt_specific_catalogs executed end to end: one controller object for all catalogs,
    controller names == member names in order for every catalog, selection follows names."""
    m = _imp()
    bad, n = [], 0
    V = m['Variable']
    segs = (m['DiscreteSegmentationTuple'](variable=V('male'), mapping={0: 'female', 1: 'male'}),
            m['DiscreteSegmentationTuple'](variable=V('age'), mapping={0: 'young', 1: 'mid', 2: 'old'}),
            m['DiscreteSegmentationTuple'](variable=V('inc'), mapping={0: 'low', 1: 'high'}))
    for k in (1, 2, 3):
        for maxi in (0, 1, 2, 3):
            for nb in (1, 2, 3):
                n += 1
                betas = [m['Beta'](f'b{i}', 0, None, None, 0) for i in range(nb)]
                try:
                    cats = m['segmentation_catalogs'](generic_name='seg', beta_parameters=betas, potential_segmentations=segs[:k], maximum_number=maxi)
                except m['BiogemeError'] as e:
                    bad.append({'check': 'segmentation_catalogs refuses its own catalogs', 'segmentations': k, 'maximum_number': maxi,
                                'parameters': nb, 'error': str(e)[:200]})
                    continue
                ctrls = {id(c.controlled_by) for c in cats}
                probs = []
                if len(cats) != nb:
                    probs.append(f'{len(cats)} catalogs for {nb} parameters')
                if len(ctrls) != 1:
                    probs.append(f'{len(ctrls)} controller objects')
                for c in cats:
                    if list(c.controlled_by.specification_names) != [e.name for e in c.named_expressions]:
                        probs.append(f'{c.name}: controller names differ from member names')
                    w = _follows_by_name(m, c, c.controlled_by)
                    if w:
                        probs.append(f'{c.name}: {w}')
                if probs:
                    bad.append({'check': 'segmentation_catalogs', 'segmentations': k, 'maximum_number': maxi, 'parameters': nb, 'problems': probs[:3]})
    for alts in (('a', 'b'), ('a', 'b', 'c')):
        for nb in (1, 2):
            for use_seg in (False, True):
                n += 1
                betas = [m['Beta'](f'g{i}', 0, None, None, 0) for i in range(nb)]
                try:
                    res = m['generic_alt_specific_catalogs'](generic_name='gen', beta_parameters=betas, alternatives=alts,
                                                             potential_segmentations=segs[:2] if use_seg else None, maximum_number=2)
                except m['BiogemeError'] as e:
                    bad.append({'check': 'generic_alt_specific_catalogs refuses its own catalogs', 'alternatives': alts, 'parameters': nb,
                                'segmented': use_seg, 'error': str(e)[:200]})
                    continue
                cats = [c for d in res for c in d.values()]
                probs = []
                if len(res) != nb or any(tuple(d.keys()) != alts for d in res):
                    probs.append('not one dict per parameter keyed by the alternatives')
                if len({id(c.controlled_by) for c in cats}) != 1:
                    probs.append('several controller objects')
                for c in cats:
                    if list(c.controlled_by.specification_names) != [e.name for e in c.named_expressions] or \
                            [e.name for e in c.named_expressions] != ['generic', 'altspec']:
                        probs.append(f'{c.name}: names {[e.name for e in c.named_expressions]} vs controller {list(c.controlled_by.specification_names)}')
                    w = _follows_by_name(m, c, c.controlled_by)
                    if w:
                        probs.append(f'{c.name}: {w}')
                if probs:
                    bad.append({'check': 'generic_alt_specific_catalogs', 'alternatives': alts, 'parameters': nb, 'segmented': use_seg, 'problems': probs[:3]})
    return n, bad


def _formula(m, sizes, shared=False):
    cats = []
    ctrl0 = None
    for i, s in enumerate(sizes):
        names = [f's{j}' for j in range(s)]
        if shared and i > 0 and s == sizes[0]:
            cats.append(m['Catalog'](f'c{i}', _members(m, names, 10.0 * i), controlled_by=ctrl0))
        else:
            c = m['Catalog'](f'c{i}', _members(m, names, 10.0 * i))
            ctrl0 = ctrl0 or c.controlled_by
            cats.append(c)
    f = cats[0]
    for c in cats[1:]:
        f = f + c
    return f, cats


def get_configuration_cases():
    """CentralController.get_configuration: one selection per controller, each (controller name, current name);
    BiogemeError IFF two controllers of the tuple share a name; nothing modified."""
    m = _imp()
    bad, n = [], 0
    for sizes in ((2,), (2, 3), (3, 2, 2), (1, 4)):
        f, cats = _formula(m, sizes)
        cc = m['CentralController'](f)
        for idx in itertools.product(*[range(s) for s in sizes]):
            n += 1
            for c, i in zip(cats, idx):
                c.controlled_by.set_index(i)
            before = [(c.controller_name, c.current_index) for c in cc.controllers]
            conf = cc.get_configuration()
            want = sorted((c.controller_name, c.current_name()) for c in cc.controllers)
            got = [(s.controller, s.selection) for s in conf.selections]
            if got != want or [(c.controller_name, c.current_index) for c in cc.controllers] != before:
                bad.append({'check': 'get_configuration lists (controller, current name) once per controller', 'sizes': sizes, 'indices': idx,
                            'expected': want, 'got': got})
        # duplicates by name in the tuple
        n += 1
        twin = m['Controller'](cc.controllers[0].controller_name, ['p', 'q'])
        saved = cc.controllers
        cc.controllers = tuple(saved) + (twin,)
        try:
            cc.get_configuration()
            bad.append({'check': 'get_configuration accepts two controllers with one name', 'sizes': sizes})
        except m['BiogemeError']:
            pass
        cc.controllers = saved
    return n, bad


def iterator_cases():
    """SelectedExpressionsIterator: call number k of __next__ returns the expression configured with element k-1 of the
    enumeration of the set, number == k; call len+1 raises StopIteration; every configuration exactly once."""
    m = _imp()
    from biogeme.expressions.catalog_iterator import SelectedExpressionsIterator
    bad, n = [], 0
    for sizes, shared in (((2,), False), ((2, 3), False), ((2, 2), True), ((3, 2, 2), False), ((1,), False)):
        f, cats = _formula(m, sizes, shared)
        the_set = f.set_of_configurations()
        order = list(the_set)
        n += 1
        it = SelectedExpressionsIterator(f, the_set)
        probs = []
        if not (it.first and it.number == 0 and f.current_configuration() == order[0]):
            probs.append('constructor: not positioned on the first element')
        seen = []
        for k in range(1, len(order) + 1):
            try:
                e = next(it)
            except StopIteration:
                probs.append(f'StopIteration at call {k} of {len(order)}: a configuration is never delivered')
                break
            cur = f.current_configuration()
            seen.append(cur.string_id)
            if e is not f or it.number != k or it.first or cur != order[k - 1]:
                probs.append(f'call {k}: number={it.number} first={it.first} configured={cur} expected={order[k - 1]}')
                break
            # the configured formula evaluates like the hand-written one
            want = sum(c.selected_expression().get_value() for c in cats)
            if abs(e.get_value() - want) > 1e-12:
                probs.append(f'call {k}: value {e.get_value()} != {want}')
        try:
            next(it)
            probs.append('no StopIteration after the last configuration')
        except StopIteration:
            pass
        if sorted(seen) != sorted(c.string_id for c in the_set) or len(set(seen)) != len(seen):
            probs.append('configurations not visited exactly once')
        expected_count = 1
        for c in {id(c.controlled_by): c.controlled_by for c in cats}.values():
            expected_count *= c.controller_size()
        if len(order) != expected_count or f.number_of_multiple_expressions() != expected_count:
            probs.append(f'{len(order)} configurations, product of controller sizes {expected_count}')
        # plain `for` over the expression
        if sorted(x.current_configuration().string_id for x in f) != sorted(c.string_id for c in the_set):
            probs.append('for-loop over the expression does not visit every configuration once')
        if probs:
            bad.append({'check': 'iteration', 'sizes': sizes, 'shared': shared, 'problems': probs[:3]})
    return n, bad


def same_name_controller_cases():
    """Two DIFFERENT controllers with ONE name in a formula: the central controller must refuse the formula
    (BiogemeError) -- or else treat both: product of both sizes, every catalog configured by some configuration."""
    m = _imp()
    bad, n = [], 0
    for na, nb in ((2, 3), (2, 2), (1, 2)):
        n += 1
        a = m['Catalog']('same', _members(m, [f'a{i}' for i in range(na)]))
        b = m['Catalog']('other', _members(m, [f'b{i}' for i in range(nb)], 10.0),
                         controlled_by=m['Controller']('same', [f'b{i}' for i in range(nb)]))
        f = a + b
        try:
            cc = m['CentralController'](f)
        except m['BiogemeError']:
            continue
        count = cc.number_of_configurations()
        reached_b = set()
        for e in f:
            reached_b.add(b.selected_name())
        if count != na * nb or len(reached_b) != nb:
            bad.append({'check': 'two different controllers named alike are merged into one', 'sizes': [na, nb],
                        'expected': {'BiogemeError or configurations': na * nb, 'alternatives of the second catalog reached': nb},
                        'got': {'controllers': [c.controller_name for c in cc.controllers], 'configurations': count,
                                'alternatives of the second catalog reached': sorted(reached_b)}})
    # the same controller object used twice is fine
    n += 1
    ctrl = m['Controller']('shared', ['x', 'y'])
    f = m['Catalog']('p', _members(m, ['x', 'y']), controlled_by=ctrl) + m['Catalog']('q', _members(m, ['x', 'y'], 5.0), controlled_by=ctrl)
    try:
        if m['CentralController'](f).number_of_configurations() != 2:
            bad.append({'check': 'one controller object shared by two catalogs counts once'})
    except m['BiogemeError'] as e:
        bad.append({'check': 'one controller object shared by two catalogs is refused', 'error': str(e)})
    return n, bad


def _safe(f):
    """an exception escaping a family is a failure of that family (replays must not crash)"""
    def run():
        try:
            return f()
        except BaseException as e:      # noqa: BLE001  (StopIteration / BiogemeError / TypeError from the code under test)
            import traceback
            return 1, [{'check': f'{f.__name__} raised {type(e).__name__}', 'error': str(e)[:300],
                        'where': traceback.format_exc().strip().splitlines()[-3:]}]
    run.__name__ = f.__name__
    return run


def _from_dict_cases():
    return catalog_ctor_cases(from_dict=True)


FAMILIES = {
    'controller_ctor': _safe(controller_ctor_cases),
    'catalog_ctor': _safe(catalog_ctor_cases),
    'from_dict': _safe(_from_dict_cases),
    'helpers': _safe(helper_cases),
    'get_configuration': _safe(get_configuration_cases),
    'iterator': _safe(iterator_cases),
    'same_name': _safe(same_name_controller_cases),
}


def main():
    fam = sys.argv[1] if len(sys.argv) > 1 else 'all'
    total, fails = 0, []
    for name, f in FAMILIES.items():
        if fam != 'all' and name not in fam.split(','):
            continue
        n, bad = f()
        total += n
        fails += bad
    print(json.dumps({'cases': total, 'failures': fails[:10]}, default=str))
    return 1 if fails else 0


if __name__ == '__main__':
    sys.exit(main())
