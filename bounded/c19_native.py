"""C19 bounded stand-ins: the REAL sampling-of-alternatives code on generated contexts (/venv python).

    c19_native.py <mode> <cases> <seed> <maxJ> <maxS> <maxN> <repeats>

modes
  protocol      every generated choice set (main sample, and the MEV sample when a second partition is
                given) follows the protocol: chosen first, no alternative twice, from each stratum exactly
                the requested number all belonging to it, correction ln(k/n) (weight n/k in the second
                sample), every copied attribute is the sampled alternative's own one, the individual's
                columns are untouched
  combined      combined variables are computed from the individual's own columns and the attributes of
                the alternative sampled at the same position (main and MEV sample)
  full-logit / full-nested / full-cnl
                complete sampling of every stratum: log likelihood of the model built on the sample ==
                log likelihood of the model on the full choice set (closed form in numpy; for logit also
                biogeme's own loglogit on the full choice set), tolerance 1e-9
  validation    SamplingContext accepts exactly the contexts with 0 < k <= n per stratum, known ids, and a
                partition (replay of the check_partition / Partition contracts)

Every attribute value encodes (alternative id, column) and every individual value encodes (row, column), so
that any mix-up of rows, positions or columns is visible.  Prints one JSON line {"cases": n, "failures": [...]}.
Bound (stated in props/C19.py): <= maxJ alternatives, <= maxS strata, <= maxN individuals, `cases` contexts,
`repeats` independent samplings per context.
"""
import json
import logging
import math
import os
import shutil
import sys
import tempfile
import warnings

warnings.simplefilter('ignore')
logging.disable(logging.CRITICAL)
os.environ.setdefault('TQDM_DISABLE', '1')

import numpy as np
import pandas as pd

TOL = 1e-9
COLS = ('a1', 'a2')


def enc_alt(alt_id, col, small):
    """Value of attribute `col` of alternative `alt_id` (encodes both)."""
    c = COLS.index(col) + 1
    if small:                     # moderate magnitudes for exponentials
        return c * 0.37 + alt_id / 23.0
    return 1000.0 * c + alt_id


def enc_ind(row, col, small):
    c = ('inc', 'age').index(col) + 1
    if small:
        return 0.1 * c + (row + 1) / 7.0
    return 100000.0 * c + 10.0 * (row + 1)


def random_partition(rng, ids, n_strata):
    ids = list(ids)
    rng.shuffle(ids)
    strata = [[ids[s]] for s in range(n_strata)]
    for i in ids[n_strata:]:
        strata[int(rng.integers(n_strata))].append(i)
    return [set(int(x) for x in s) for s in strata]


def make_case(rng, max_j, max_s, max_n, full, mev, small):
    from biogeme.expressions import Beta, Variable
    from biogeme.partition import Partition
    from biogeme.sampling_of_alternatives import CrossVariableTuple
    J = int(rng.integers(2, max_j + 1))
    ids = sorted(int(x) for x in rng.choice(np.arange(1, 60), size=J, replace=False))
    order = list(ids)
    rng.shuffle(order)                              # the table is NOT sorted by id
    alts = pd.DataFrame({'id': [int(i) for i in order],
                         **{c: [enc_alt(i, c, small) for i in order] for c in COLS}})
    # the pandas index of the table of alternatives carries no meaning: default, shifted (a filtered
    # catalogue), permuted labels, or the ids themselves
    style = int(rng.integers(0, 4))
    if style == 1:
        alts.index = np.arange(100, 100 + 3 * J, 3)
    elif style == 2:
        alts.index = rng.permutation(J)
    elif style == 3:
        alts.index = [int(i) + 1000 for i in order]
    S = int(rng.integers(1, min(max_s, J) + 1))
    strata = random_partition(rng, ids, S)
    sizes = [len(s) if full else int(rng.integers(1, len(s) + 1)) for s in strata]
    N = int(rng.integers(1, max_n + 1))
    ind = pd.DataFrame({'choice': [int(rng.choice(ids)) for _ in range(N)],
                        'inc': [enc_ind(r, 'inc', small) for r in range(N)],
                        'age': [enc_ind(r, 'age', small) for r in range(N)]})
    betas = {'b1': 0.7, 'b2': -0.4, 'b3': 0.25}
    util = (Beta('b1', betas['b1'], None, None, 0) * Variable('a2')
            + Beta('b2', betas['b2'], None, None, 0) * Variable('x')
            + Beta('b3', betas['b3'], None, None, 0) * Variable('y'))
    combined = [CrossVariableTuple('x', Variable('inc') * Variable('a1')),
                CrossVariableTuple('y', Variable('age') + Variable('a2'))]
    case = dict(ids=ids, alts=alts, ind=ind, strata=strata, sizes=sizes, betas=betas, util=util,
                combined=combined, small=small, mev_strata=None, mev_sizes=None)
    kw = {}
    if mev:
        S2 = int(rng.integers(1, min(max_s, J) + 1))
        case['mev_strata'] = random_partition(rng, ids, S2)
        case['mev_sizes'] = [len(s) if full else int(rng.integers(1, len(s) + 1)) for s in case['mev_strata']]
        kw = dict(mev_partition=Partition(case['mev_strata'], full_set=set(ids)), mev_sample_sizes=case['mev_sizes'])
    case['partition'] = Partition(strata, full_set=set(ids))
    case['kw'] = kw
    return case


def make_context(case, tmp, alternatives=None, **extra):
    from biogeme.sampling_of_alternatives import SamplingContext
    return SamplingContext(the_partition=case['partition'], sample_sizes=case['sizes'],
                           individuals=case['ind'].copy(), choice_column='choice',
                           alternatives=case['alts'].copy() if alternatives is None else alternatives,
                           id_column='id', biogeme_file_name=os.path.join(tmp, 'c19.dat'),
                           utility_function=case['util'], combined_variables=case['combined'],
                           **case['kw'], **extra)


def describe(case):
    return {'ids': case['ids'], 'strata': [sorted(s) for s in case['strata']], 'sizes': case['sizes'],
            'mev_strata': [sorted(s) for s in case['mev_strata']] if case['mev_strata'] else None,
            'mev_sizes': case['mev_sizes'], 'choices': [int(c) for c in case['ind']['choice']]}


def same(a, b, tol=1e-12):
    a, b = float(a), float(b)
    return a == b or abs(a - b) <= tol * max(1.0, abs(a), abs(b))


def check_protocol(case, data, what):
    """what: 'protocol' (layout of the choice sets) or 'combined' (combined variables)."""
    bad = []
    small = case['small']
    K = sum(case['sizes'])
    stratum_of = {i: s for s, st in enumerate(case['strata']) for i in st}
    for r in range(len(case['ind'])):
        row = data.iloc[r]
        chosen = int(case['ind']['choice'].iloc[r])
        inc, age = enc_ind(r, 'inc', small), enc_ind(r, 'age', small)

        def need(cond, clause, detail):
            if not cond:
                bad.append({'individual': r, 'clause': clause, 'detail': detail})
        try:
            ids = [int(round(float(row[f'id_{p}']))) for p in range(K)]
        except Exception as e:           # missing column / NaN
            need(False, 'layout', f'cannot read id_0..id_{K - 1}: {e!r}')
            continue
        if what == 'protocol':
            need(f'id_{K}' not in data.columns, 'size', f'more than {K} positions')
            need(same(row['choice'], chosen) and same(row['inc'], inc) and same(row['age'], age),
                 'individual-columns', 'the individual\'s own columns changed')
            need(ids[0] == chosen, 'chosen-first', f'position 0 holds {ids[0]}, chosen {chosen}')
            need(len(set(ids)) == len(ids), 'no-duplicate', f'ids {ids}')
            need(all(i in stratum_of for i in ids), 'known-ids', f'ids {ids}')
            for s, st in enumerate(case['strata']):
                got = sum(1 for i in ids if i in st)
                need(got == case['sizes'][s], 'per-stratum-count',
                     f'stratum {sorted(st)}: {got} alternatives in the choice set, requested {case["sizes"][s]} (ids {ids})')
            for p, i in enumerate(ids):
                if i not in stratum_of:
                    continue
                s = stratum_of[i]
                want = math.log(case['sizes'][s] / len(case['strata'][s]))
                need(same(row[f'_log_proba_{p}'], want), 'correction-ln-k-over-n',
                     f'position {p} id {i}: _log_proba {row[f"_log_proba_{p}"]!r}, ln(k/n) = {want!r}')
                for c in COLS:
                    need(same(row[f'{c}_{p}'], enc_alt(i, c, small)), 'own-attributes',
                         f'position {p} id {i}: {c}_{p} = {row[f"{c}_{p}"]!r}, attribute of that alternative = {enc_alt(i, c, small)!r}')
        else:
            for p, i in enumerate(ids):
                wx = inc * enc_alt(i, 'a1', small)
                wy = age + enc_alt(i, 'a2', small)
                need(same(row[f'x_{p}'], wx), 'combined-variable', f'x_{p} = {row[f"x_{p}"]!r}, inc*a1(id {i}) = {wx!r}')
                need(same(row[f'y_{p}'], wy), 'combined-variable', f'y_{p} = {row[f"y_{p}"]!r}, age+a2(id {i}) = {wy!r}')
        if case['mev_strata'] is None:
            continue
        K2 = sum(case['mev_sizes'])
        stratum2 = {i: s for s, st in enumerate(case['mev_strata']) for i in st}
        try:
            ids2 = [int(round(float(row[f'_MEV_id_{p}']))) for p in range(K2)]
        except Exception as e:
            need(False, 'mev-layout', f'cannot read _MEV_id_*: {e!r}')
            continue
        if what == 'protocol':
            need(len(set(ids2)) == len(ids2), 'mev-no-duplicate', f'ids {ids2}')
            for s, st in enumerate(case['mev_strata']):
                got = sum(1 for i in ids2 if i in st)
                need(got == case['mev_sizes'][s], 'mev-per-stratum-count',
                     f'stratum {sorted(st)}: {got} drawn, requested {case["mev_sizes"][s]}')
            for p, i in enumerate(ids2):
                if i not in stratum2:
                    need(False, 'mev-known-ids', f'id {i}')
                    continue
                s = stratum2[i]
                want = len(case['mev_strata'][s]) / case['mev_sizes'][s]
                need(same(row[f'_MEV__mev_weight_{p}'], want), 'mev-weight-n-over-k',
                     f'position {p} id {i}: weight {row[f"_MEV__mev_weight_{p}"]!r}, n/k = {want!r}')
                for c in COLS:
                    need(same(row[f'_MEV_{c}_{p}'], enc_alt(i, c, small)), 'mev-own-attributes', f'position {p} id {i} column {c}')
        else:
            for p, i in enumerate(ids2):
                need(same(row[f'_MEV_x_{p}'], inc * enc_alt(i, 'a1', small)), 'mev-combined-variable', f'_MEV_x_{p} for id {i}')
                need(same(row[f'_MEV_y_{p}'], age + enc_alt(i, 'a2', small)), 'mev-combined-variable', f'_MEV_y_{p} for id {i}')
    return bad


def run_protocol(rng, cases, dims, repeats, what):
    from biogeme.sampling_of_alternatives import ChoiceSetsGeneration
    n, out = 0, []
    tmp = tempfile.mkdtemp(prefix='c19_')
    try:
        for c in range(cases):
            case = make_case(rng, *dims, full=(c % 5 == 4), mev=(c % 2 == 1), small=False)
            try:
                ctx = make_context(case, tmp)
            except Exception as e:
                out.append({'case': c, 'context': describe(case), 'bad': [{'clause': 'valid-context-accepted', 'detail': f'{type(e).__name__}: {e}'[:300]}]})
                continue
            for rep in range(repeats):
                np.random.seed(int(rng.integers(2 ** 31 - 1)))      # pandas.sample draws from numpy's global state
                n += len(case['ind'])
                try:
                    db = ChoiceSetsGeneration(ctx).sample_and_merge(recycle=False)
                    bad = check_protocol(case, db.data, what)
                except Exception as e:      # a valid context must yield a choice set
                    bad = [{'clause': 'no-exception-on-a-valid-context', 'detail': f'{type(e).__name__}: {e}'[:300]}]
                if bad:
                    out.append({'case': c, 'repeat': rep, 'context': describe(case), 'bad': bad[:4]})
                    break
            if len(out) >= 5:
                break
    finally:
        shutil.rmtree(tmp, ignore_errors=True)
    return n, out


# ---------------------------------------------------------------------------------------------------------
def utilities(case, r):
    b = case['betas']
    small = case['small']
    inc, age = enc_ind(r, 'inc', small), enc_ind(r, 'age', small)
    return {i: b['b1'] * enc_alt(i, 'a2', small) + b['b2'] * inc * enc_alt(i, 'a1', small)
               + b['b3'] * (age + enc_alt(i, 'a2', small)) for i in case['ids']}


def lse(xs):
    m = max(xs)
    return m + math.log(sum(math.exp(x - m) for x in xs))


def reference_ll(case, model, nests):
    """Closed-form log likelihood of each individual on the FULL choice set."""
    out = []
    for r in range(len(case['ind'])):
        U = utilities(case, r)
        if model == 'logit':
            W = dict(U)
        elif model == 'nested':
            W = dict(U)                       # alternatives outside every nest: no MEV term
            for members, mu in nests:
                s = lse([mu * U[j] for j in members])
                for i in members:
                    W[i] = U[i] + (mu - 1.0) * U[i] + (1.0 / mu - 1.0) * s
        else:
            W = {}
            for i in case['ids']:
                g = 0.0
                for alpha, mu in nests:
                    if alpha.get(i, 0.0) != 0.0:
                        s = sum(a ** mu * math.exp(mu * U[j]) for j, a in alpha.items() if a != 0.0)
                        g += alpha[i] ** mu * math.exp((mu - 1.0) * U[i]) * s ** (1.0 / mu - 1.0)
                W[i] = U[i] + math.log(g)
        chosen = int(case['ind']['choice'].iloc[r])
        out.append(W[chosen] - lse([W[j] for j in case['ids']]))
    return np.array(out)


def biogeme_full_logit(case):
    """biogeme's own logit on the full choice set (wide data, one utility per alternative)."""
    from biogeme.database import Database
    from biogeme.expressions import Beta, Variable
    from biogeme.models import loglogit
    small = case['small']
    wide = case['ind'].copy()
    for i in case['ids']:
        for c in COLS:
            wide[f'{c}_alt{i}'] = enc_alt(i, c, small)
    db = Database('full', wide)
    b = case['betas']
    V = {i: Beta('b1', b['b1'], None, None, 0) * Variable(f'a2_alt{i}')
            + Beta('b2', b['b2'], None, None, 0) * (Variable('inc') * Variable(f'a1_alt{i}'))
            + Beta('b3', b['b3'], None, None, 0) * (Variable('age') + Variable(f'a2_alt{i}')) for i in case['ids']}
    ll = loglogit(V, None, Variable('choice'))
    return np.asarray(ll.get_value_c(database=db, betas={}, aggregation=False, prepare_ids=True))


def run_full(rng, cases, dims, repeats, model):
    from biogeme.expressions import Beta
    from biogeme.nests import (NestsForCrossNestedLogit, NestsForNestedLogit, OneNestForCrossNestedLogit,
                               OneNestForNestedLogit)
    from biogeme.sampling_of_alternatives import ChoiceSetsGeneration, GenerateModel
    n, out = 0, []
    tmp = tempfile.mkdtemp(prefix='c19_')
    try:
        for c in range(cases):
            case = make_case(rng, *dims, full=True, mev=(model != 'logit'), small=True)
            ids = case['ids']
            extra, nests_ref = {}, None
            if model == 'nested':
                k = int(rng.integers(1, min(3, len(ids)) + 1))
                groups = random_partition(rng, ids, k)
                if c % 3 == 2 and len(groups) > 1:
                    groups = groups[:-1]                       # some alternatives belong to no nest
                nests_ref = [(sorted(g), 1.0 + float(rng.integers(1, 7)) / 4.0) for g in groups]
                nests = NestsForNestedLogit(choice_set=ids, tuple_of_nests=tuple(
                    OneNestForNestedLogit(nest_param=Beta(f'mu{q}', mu, 1, None, 1), list_of_alternatives=g,
                                          # nest labels are free text: the same label twice (c % 4 == 1), a label that collides with the
                                          # automatic name of an unnamed nest (c % 4 == 3), or distinct labels
                                          name=('same' if c % 4 == 1 else ('nest_2' if q == 0 else None) if c % 4 == 3 else f'n{q}'))
                    for q, (g, mu) in enumerate(nests_ref)))
            elif model == 'cnl':
                k = 2 if len(ids) >= 2 else 1
                alphas = [dict() for _ in range(k)]
                for i in ids:
                    if k == 2 and rng.integers(3) == 0:
                        a = float(rng.integers(1, 4)) / 4.0
                        alphas[0][i], alphas[1][i] = a, 1.0 - a
                    else:
                        alphas[int(rng.integers(k))][i] = 1.0
                alphas = [a for a in alphas if a]
                nests_ref = [(a, 1.0 + float(rng.integers(1, 7)) / 4.0) for a in alphas]
                extra['cnl_nests'] = NestsForCrossNestedLogit(choice_set=ids, tuple_of_nests=tuple(
                    OneNestForCrossNestedLogit(nest_param=Beta(f'mu{q}', mu, 1, None, 1), dict_of_alpha=dict(a), name=f'n{q}')
                    for q, (a, mu) in enumerate(nests_ref)))
            shared = None
            if model == 'cnl' and c % 2 == 1:
                # history: another context was prepared before on the SAME table of alternatives, with other membership
                # coefficients under the same nest names; the model of the second context is the one compared below
                shared = case['alts'].copy()
                other = [{i: 1.0 for i in ids}] + [{ids[0]: 1.0}] * (len(nests_ref) - 1)
                try:
                    make_context(case, tmp, alternatives=shared, cnl_nests=NestsForCrossNestedLogit(
                        choice_set=ids, tuple_of_nests=tuple(
                            OneNestForCrossNestedLogit(nest_param=Beta(f'mu{q}', mu, 1, None, 1), dict_of_alpha=dict(other[q]), name=f'n{q}')
                            for q, (a, mu) in enumerate(nests_ref))))
                except Exception:
                    shared = None            # the first specification is not the subject: plain case
            try:
                ctx = make_context(case, tmp, alternatives=shared, **extra)
            except Exception as e:
                out.append({'case': c, 'context': describe(case), 'bad': [{'clause': 'valid-context-accepted', 'detail': f'{type(e).__name__}: {e}'[:300]}]})
                continue
            ref = reference_ll(case, model, nests_ref)
            for rep in range(repeats):
                np.random.seed(int(rng.integers(2 ** 31 - 1)))
                n += len(ref)
                problems = []
                try:
                    db = ChoiceSetsGeneration(ctx).sample_and_merge(recycle=False)
                    gm = GenerateModel(ctx)
                    expr = (gm.get_logit() if model == 'logit' else
                            gm.get_nested_logit(nests) if model == 'nested' else gm.get_cross_nested_logit())
                    got = np.asarray(expr.get_value_c(database=db, betas={}, aggregation=False, prepare_ids=True), dtype=float)
                except Exception as e:
                    got = np.full(ref.shape, np.nan)
                    problems.append({'clause': 'no-exception-on-a-valid-context', 'detail': f'{type(e).__name__}: {e}'[:300]})
                if not problems and (got.shape != ref.shape or not np.all(np.abs(got - ref) <= TOL * np.maximum(1.0, np.abs(ref)))):
                    problems.append({'clause': f'sampled {model} log likelihood == full choice set (closed form)',
                                     'sampled': got.tolist(), 'full': ref.tolist()})
                if model == 'logit' and rep == 0 and not problems:
                    full_b = biogeme_full_logit(case)
                    if not np.all(np.abs(got - full_b) <= TOL * np.maximum(1.0, np.abs(full_b))):
                        problems.append({'clause': 'sampled logit == biogeme loglogit on the full choice set',
                                         'sampled': got.tolist(), 'full': full_b.tolist()})
                if problems:
                    d = describe(case)
                    d['nests'] = [(sorted(a.items()) if isinstance(a, dict) else a, mu) for a, mu in nests_ref] if nests_ref else None
                    d['history'] = 'a context with other alphas was prepared before on the same table of alternatives' if shared is not None else None
                    out.append({'case': c, 'repeat': rep, 'context': d, 'bad': problems})
                    break
            if len(out) >= 5:
                break
    finally:
        shutil.rmtree(tmp, ignore_errors=True)
    return n, out


# ---------------------------------------------------------------------------------------------------------
def validation_candidates():
    """(table ids, strata, sizes, valid?) -- valid iff 0 < k <= n for every stratum, strata non-empty,
    pairwise disjoint, all ids in the table."""
    T = [1, 2, 3, 5, 6]
    return [
        (T, [{1, 2}, {3, 5, 6}], [1, 2], True),
        (T, [{1, 2}, {3, 5, 6}], [2, 3], True),
        (T, [{1, 2}, {3, 5, 6}], [0, 2], False),
        (T, [{1, 2}, {3, 5, 6}], [3, 2], False),
        (T, [{1, 2}, {3, 5, 6}], [-1, 2], False),
        (T, [{1, 2}, {3, 5, 6}], [1, -2], False),
        (T, [{1, 2}, {3, 5, 7}], [1, 2], False),
        (T, [{1, 2}, {2, 3, 5, 6}], [1, 2], False),
        (T, [{1, 2, 3, 5, 6}], [5], True),
        (T, [{1, 2, 3, 5, 6}], [6], False),
    ]


def run_validation(extra_candidates=()):
    from biogeme.exceptions import BiogemeError
    from biogeme.expressions import Beta, Variable
    from biogeme.partition import Partition
    from biogeme.sampling_of_alternatives import SamplingContext
    n, out = 0, []
    for table, strata, sizes, valid in list(extra_candidates) + validation_candidates():
        n += 1
        alts = pd.DataFrame({'id': table, 'a1': [float(i) for i in table]})
        ind = pd.DataFrame({'choice': [table[0]], 'inc': [1.0]})
        try:
            part = Partition(strata)
            SamplingContext(the_partition=part, sample_sizes=sizes, individuals=ind, choice_column='choice',
                            alternatives=alts, id_column='id', biogeme_file_name='unused.dat',
                            utility_function=Beta('b', 0, None, None, 0) * Variable('a1'), combined_variables=[])
            accepted = True
        except (BiogemeError, ValueError):
            accepted = False
        if accepted != valid:
            out.append({'table': table, 'strata': [sorted(s) for s in strata], 'sizes': sizes,
                        'bad': [{'clause': 'accepted iff 0 < k <= n, ids known, strata a partition',
                                 'detail': f'accepted={accepted}, valid={valid}'}]})
    return n, out


def main(argv):
    mode = argv[1]
    cases = int(argv[2]) if len(argv) > 2 else 20
    seed = int(argv[3]) if len(argv) > 3 else 0
    dims = (int(argv[4]) if len(argv) > 4 else 6, int(argv[5]) if len(argv) > 5 else 3, int(argv[6]) if len(argv) > 6 else 5)
    repeats = int(argv[7]) if len(argv) > 7 else 3
    rng = np.random.default_rng([seed, sum(map(ord, mode))])
    if mode in ('protocol', 'combined'):
        n, bad = run_protocol(rng, cases, dims, repeats, mode)
    elif mode in ('full-logit', 'full-nested', 'full-cnl'):
        n, bad = run_full(rng, cases, dims, repeats, mode.split('-')[1])
    elif mode == 'validation':
        n, bad = run_validation()
    else:
        raise SystemExit(f'unknown mode {mode}')
    print(json.dumps({'cases': n, 'failures': bad}, default=str))
    return 1 if bad else 0


if __name__ == '__main__':
    sys.exit(main(sys.argv))
