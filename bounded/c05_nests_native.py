"""C05/C06 bounded stand-in for biogeme.nests (real code, /venv python): exhaustive over small nest structures.

mode `partition` (C05): for every choice set and every family of <= max_nests nests (lists over the choice set plus one
  foreign id, overlapping and repeated nests included):
    * the constructor raises BiogemeError iff a nest mentions an alternative outside the choice set;
    * `mev_alternatives` is the union of the nests, `alone` is the rest of the choice set;
    * NestsForNestedLogit.check_partition accepts iff the nests are pairwise disjoint, i.e. iff
      {nests} + {singletons of alone} is a partition of the choice set; the model builders raise BiogemeError otherwise;
    * NestsForCrossNestedLogit.check_validity accepts every cover (nests + alone) of the choice set.
mode `tuple` (C06): the legacy tuple syntax gives field-wise the same objects as the object syntax
  (OneNestFor*.from_tuple, NestsFor*.__init__): nest parameter, alternatives / allocation, names, alone, verdicts.

usage: c05_nests_native.py <partition|tuple> <quick|thorough>;  prints {"cases": n, "failures": [...]}; exit 0/1
"""
import itertools
import json
import logging
import sys
import warnings

logging.disable(logging.CRITICAL)
warnings.filterwarnings('ignore')

from biogeme.exceptions import BiogemeError  # noqa: E402
from biogeme.expressions import Beta, Expression  # noqa: E402
from biogeme.nests import (NestsForCrossNestedLogit, NestsForNestedLogit, OneNestForCrossNestedLogit,  # noqa: E402
                           OneNestForNestedLogit)

FOREIGN = 99


def families(universe, max_nests):
    subsets = [list(c) for r in range(1, len(universe) + 1) for c in itertools.combinations(universe, r)]
    yield []
    for k in range(1, max_nests + 1):
        for combo in itertools.combinations_with_replacement(subsets, k):
            yield [list(s) for s in combo]
    # element order and repetition inside a nest must not matter
    yield [[universe[1], universe[0], universe[0]]]
    yield [[universe[1], universe[0]], [universe[0]]]


def mk_nested(cs, fam, syntax, params):
    if syntax == 'object':
        return NestsForNestedLogit(list(cs), tuple(OneNestForNestedLogit(params[m], list(n)) for m, n in enumerate(fam)))
    return NestsForNestedLogit(list(cs), tuple((params[m], list(n)) for m, n in enumerate(fam)))


def mk_cnl(cs, fam, syntax, params):
    al = [{i: (0.5 if (i + m) % 2 else Beta(f'a{m}_{i}', 0.25, 0, 1, 0)) for i in n} for m, n in enumerate(fam)]
    if syntax == 'object':
        return NestsForCrossNestedLogit(list(cs), tuple(OneNestForCrossNestedLogit(params[m], dict(al[m])) for m in range(len(fam))))
    return NestsForCrossNestedLogit(list(cs), tuple((params[m], dict(al[m])) for m in range(len(fam))))


def attempt(f):
    try:
        return f(), None
    except BiogemeError as e:
        return None, 'BiogemeError'
    except Exception as e:      # any other exception is a failure of the clause under test
        return None, f'{type(e).__name__}: {str(e)[:120]}'


def show(x):
    return str(x) if isinstance(x, Expression) else repr(x)


def main():
    mode, tier = sys.argv[1], sys.argv[2]
    from biogeme import models
    choice_sets = [[1, 3, 4]] if tier == 'quick' else [[1, 3], [1, 3, 4], [4, 1, 3, 7]]
    max_nests = 3
    params = [Beta('mu1', 1.5, 1, None, 0), 2.0, Beta('mu3', 1.25, 1, None, 0)]
    cases, failures = 0, []

    def bad(clause, cs, fam, detail):
        if len(failures) < 20:
            failures.append({'clause': clause, 'choice_set': cs, 'nests': fam, 'detail': detail})

    for cs in choice_sets:
        universe = cs + [FOREIGN]
        V = {i: Beta(f'V{i}', 0.1 * i, None, None, 0) for i in cs}
        for fam in families(universe, max_nests if len(cs) <= 3 else 2):
            union = set().union(*[set(n) for n in fam]) if fam else set()
            foreign = bool(union - set(cs))
            disjoint = all(not (set(a) & set(b)) for k, a in enumerate(fam) for b in fam[k + 1:])
            for kind, mk in (('nested', mk_nested), ('cnl', mk_cnl)):
                cases += 1
                obj, err = attempt(lambda: mk(cs, fam, 'object', params))
                if mode == 'tuple':
                    if not fam:
                        continue          # an empty tuple has no syntax
                    tup, err2 = attempt(lambda: mk(cs, fam, 'tuple', params))
                    if err != err2:
                        bad(f'{kind}:tuple-syntax:same-exception', cs, fam, f'object: {err}, tuple: {err2}')
                        continue
                    if obj is None:
                        continue
                    same = (len(obj.tuple_of_nests) == len(tup.tuple_of_nests) and obj.alone == tup.alone
                            and obj.mev_alternatives == tup.mev_alternatives and list(obj.choice_set) == list(tup.choice_set))
                    for a, b in zip(obj.tuple_of_nests, tup.tuple_of_nests):
                        same = same and type(a) is type(b) and a.nest_param is b.nest_param and a.name == b.name
                        same = same and list(a.list_of_alternatives) == list(b.list_of_alternatives)
                        if kind == 'cnl':
                            same = same and list(a.dict_of_alpha) == list(b.dict_of_alpha)
                            same = same and all(show(a.dict_of_alpha[i]) == show(b.dict_of_alpha[i]) for i in a.dict_of_alpha)
                    if not same:
                        bad(f'{kind}:tuple-syntax:field-wise-equal', cs, fam, 'objects differ')
                    va = obj.check_partition() if kind == 'nested' else obj.check_validity()
                    vb = tup.check_partition() if kind == 'nested' else tup.check_validity()
                    if va != vb:
                        bad(f'{kind}:tuple-syntax:same-verdict', cs, fam, f'{va} vs {vb}')
                    continue
                # mode partition
                if (err == 'BiogemeError') != foreign or (err not in (None, 'BiogemeError')):
                    bad(f'{kind}:Nests.__init__:raises-iff-foreign-alternative', cs, fam, f'exception {err}, foreign={foreign}')
                    continue
                if obj is None:
                    continue
                if obj.mev_alternatives != union or obj.alone != set(cs) - union:
                    bad(f'{kind}:Nests.__init__:alone-is-the-complement-of-the-nests', cs, fam,
                        f'mev_alternatives={obj.mev_alternatives} alone={obj.alone}')
                if [n.name for n in obj.tuple_of_nests] != [f'nest_{k + 1}' for k in range(len(fam))]:
                    bad(f'{kind}:Nests.__init__:default-names', cs, fam, str([n.name for n in obj.tuple_of_nests]))
                if kind == 'nested':
                    ok = obj.check_partition()[0]
                    if ok != disjoint:
                        bad('NestsForNestedLogit.check_partition:accepts-iff-partition', cs, fam, f'verdict {ok}, pairwise disjoint {disjoint}')
                    for fn in ('get_mev_for_nested', 'get_mev_generating_for_nested', 'lognested'):
                        args = (V, None, obj) if fn != 'lognested' else (V, None, obj, cs[0])
                        _, e2 = attempt(lambda: getattr(models, fn)(*args))
                        if (e2 == 'BiogemeError') != (not disjoint) or e2 not in (None, 'BiogemeError'):
                            bad(f'models.{fn}:raises-iff-not-a-partition', cs, fam, f'exception {e2}, pairwise disjoint {disjoint}')
                else:
                    ok = obj.check_validity()[0]
                    if not ok:
                        bad('NestsForCrossNestedLogit.check_validity:accepts-every-cover', cs, fam, 'rejected')
                    lg, e2 = attempt(lambda: models.get_mev_for_cross_nested(V, None, obj))
                    if e2 is not None or set(lg) != set(cs):
                        bad('models.get_mev_for_cross_nested:one-term-per-alternative', cs, fam, f'exception {e2}, keys {None if lg is None else list(lg)}')
    print(json.dumps({'cases': cases, 'failures': failures}))
    return 1 if failures else 0


if __name__ == '__main__':
    sys.exit(main())
