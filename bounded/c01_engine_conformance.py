"""Bounded stand-in for C01 (engine conformance) on the real code.

usage: /venv/bin/python c01_engine_conformance.py <quick|thorough> <seed>

Property C01: for any well-formed formula of the expression language, any data row and any parameter values inside
the formula's domain, the number returned by the compiled engine equals the ordinary mathematical value of the
formula; where the pure-Python evaluator accepts the same formula it returns the same number; sharing one
sub-formula between several parents, or evaluating several formulas side by side, changes none of these values.

How it is checked
  * a formula is a nested tuple (a *description*); `build` turns a description into a biogeme expression through the
    public constructors/operators, `ev` (the oracle, plain `math`) turns the same description into a number.  The
    oracle never looks at a biogeme object.
  * the oracle carries a running first-order error bound next to the value (only transcendental functions and
    re-ordered sums have an own rounding error: + - * / are correctly rounded and identical in C and Python, which a
    probe in this harness re-checks).  A data point is *inside the domain* when no operation leaves its mathematical
    domain (log/power of a non-positive number, division by zero, missing key, chosen alternative unavailable or not
    an alternative, overflow) and no discrete decision (comparison, non-zero-ness, membership, truncated key) lies
    within the error bound of its switching point.  Points outside are skipped and counted.
  * tolerance: |got - want| <= 1e-9 |want| + 10 * bound  (bound is ~1e-15 for well conditioned formulas).
  * work is done in worker sub-processes (the engine keeps a sticky error state: after an engine-level error a worker
    is abandoned and a fresh one resumes behind the offending item).

Clauses (names used in the failure records)
  engine-value        get_value_c(database) per row against the oracle
  engine-value-nodb   get_value_c() without database, formulas without variables
  python-evaluator    get_value(), formulas without variables that the Python evaluator accepts
  evaluated-twice     the same formula object evaluated twice: bit-identical and equal to the oracle
  fresh-leaves        the same description built with one object per leaf occurrence
  betas-dict          free parameter given by initial value / by a betas dict / dict with foreign and fixed names
  shared-subformula   one sub-formula object under two parents (binary and n-ary) against the oracle and against the
                      copy-built formula
  side-by-side        BIOGEME.simulate of 2..6 formulas (some sharing objects, some repeated): each column, in dict
                      order, equals the oracle
  name-order          several free parameters whose alphabetical order differs from the order of appearance, betas
                      dict overriding every subset of them
  normal-cdf-grid     bioNormalCdf on a dense grid of [-8, 8] (the generic enumeration avoids the two zones where the
                      engine's algorithm is known to miss 1e-9: x < -5, and x in [6, 8.5) where it returns 1+Q(x))
"""
import itertools
import json
import math
import os
import random
import shutil
import subprocess
import sys
import tempfile
import time

U = 2.0 ** -52
TRANS = 8 * U           # own relative error allowed for a transcendental library function
SAFETY = 10.0           # decisions closer than SAFETY * bound to their switching point are skipped
REL = 1e-9
UTIL_BOUND = 500.0      # |utility| bound inside logit (the naive Python evaluator overflows beyond exp(709))


class Skip(Exception):
    """the data point is outside the domain (or a discrete decision is numerically ambiguous)"""


# ----------------------------------------------------------------------------------------------------------------
# oracle
# ----------------------------------------------------------------------------------------------------------------
BINARY = ('Plus', 'Minus', 'Times', 'Divide', 'Power', 'bioMin', 'bioMax', 'And', 'Or',
          'Equal', 'NotEqual', 'LessOrEqual', 'GreaterOrEqual', 'Less', 'Greater')
UNARY = ('UnaryMinus', 'exp', 'log', 'sin', 'cos', 'logzero', 'bioNormalCdf')
COMPARE = {'Equal': lambda a, b: a == b, 'NotEqual': lambda a, b: a != b, 'LessOrEqual': lambda a, b: a <= b,
           'GreaterOrEqual': lambda a, b: a >= b, 'Less': lambda a, b: a < b, 'Greater': lambda a, b: a > b}
SQRT2 = math.sqrt(2.0)


def fin(v):
    if not math.isfinite(v) or abs(v) > 1e150:
        raise Skip('overflow')
    return v


def nonzero(v, e):
    if v == 0.0 and e == 0.0:
        return False
    if abs(v) > SAFETY * e:
        return True
    raise Skip('ambiguous non-zero-ness')


def positive(v, e, what):
    if v - SAFETY * e > 0.0:
        return
    raise Skip(what + ' of a non-positive number')


def logits_of(n, acc):
    if isinstance(n, tuple):
        if n and n[0] == 'LogLogit':
            acc.append(n)
        for c in n:
            logits_of(c, acc)
    return acc


def ev_top(n, env):
    """value of a whole formula.  The audit that precedes every evaluation wants a valid chosen alternative for every
    logit of the formula on every row, selected or not (e.g. under an Elem branch that the row does not select): such
    rows are outside the domain."""
    for lg in logits_of(n, []):
        c, ec = ev(lg[1], env)
        if ec != 0.0 or c != int(c) or int(c) not in [key for key, _ in lg[2]]:
            raise Skip('a logit of the formula has no valid chosen alternative on this row')
        if lg[3] is not None:
            for _, a in lg[3]:
                ev(a, env)
    return ev(n, env)


def ev(n, env):
    """(value, error bound) of description n; env = {'free': {name: v}, 'fixed': {name: v}, 'row': {col: v}}"""
    k = n[0]
    if k == 'num':
        return float(n[1]), 0.0
    if k == 'free':
        return env['free'][n[1]], 0.0
    if k == 'fixed':
        return env['fixed'][n[1]], 0.0
    if k == 'var':
        return env['row'][n[1]], 0.0
    if k == 'share':
        return ev(n[2], env)
    try:
        return _ev(k, n, env)
    except (OverflowError, ZeroDivisionError, ValueError):
        raise Skip('arithmetic exception in the oracle')


def _ev(k, n, env):
    if k in BINARY:
        a, ea = ev(n[1], env)
        b, eb = ev(n[2], env)
        inexact = (ea + eb) > 0.0
        if k == 'Plus' or k == 'Minus':
            v = fin(a + b if k == 'Plus' else a - b)
            return v, ea + eb + (U * abs(v) if inexact else 0.0)
        if k == 'Times':
            v = fin(a * b)
            return v, abs(a) * eb + abs(b) * ea + ea * eb + (U * abs(v) if inexact else 0.0)
        if k == 'Divide':
            if b == 0.0 or abs(b) <= SAFETY * eb:
                raise Skip('division by zero')
            v = fin(a / b)
            return v, 1.01 * (ea / abs(b) + abs(a) * eb / (b * b)) + (U * abs(v) if inexact else 0.0)
        if k == 'Power':
            positive(a, ea, 'power')
            v = fin(math.pow(a, b))
            return v, 1.01 * abs(v) * (abs(b) * ea / a + abs(math.log(a)) * eb) + TRANS * abs(v)
        if k == 'bioMin':
            return min(a, b), max(ea, eb)
        if k == 'bioMax':
            return max(a, b), max(ea, eb)
        if k == 'And':
            za, zb = nonzero(a, ea), nonzero(b, eb)
            return (1.0 if (za and zb) else 0.0), 0.0
        if k == 'Or':
            za, zb = nonzero(a, ea), nonzero(b, eb)
            return (1.0 if (za or zb) else 0.0), 0.0
        if inexact and abs(a - b) <= SAFETY * (ea + eb):
            raise Skip('ambiguous comparison')
        return (1.0 if COMPARE[k](a, b) else 0.0), 0.0
    if k in UNARY:
        a, ea = ev(n[1], env)
        if ea > 0.05:
            raise Skip('ill conditioned')
        if k == 'UnaryMinus':
            return -a, ea
        if k == 'exp':
            if a > 300.0:
                raise Skip('overflow')
            v = math.exp(a)
            return v, 1.06 * v * ea + TRANS * v
        if k == 'log':
            positive(a, ea, 'log')
            v = math.log(a)
            return v, 1.01 * ea / (a - ea) + TRANS * abs(v) + (U if ea else 0.0)
        if k == 'sin':
            return math.sin(a), ea + TRANS
        if k == 'cos':
            return math.cos(a), ea + TRANS
        if k == 'logzero':
            if a == 0.0 and ea == 0.0:
                return 0.0, 0.0
            positive(a, ea, 'logzero')
            v = math.log(a)
            return v, 1.01 * ea / (a - ea) + TRANS * abs(v) + (U if ea else 0.0)
        if k == 'bioNormalCdf':
            if a - ea < -5.0 or (a + ea >= 6.0 and a - ea < 8.5):
                raise Skip('normal cdf zone covered by the clause normal-cdf-grid')
            v = 0.5 * math.erfc(-a / SQRT2)
            return v, math.exp(-0.5 * a * a) / math.sqrt(2 * math.pi) * ea * 1.06 + TRANS * v
    if k == 'PowerConstant':
        a, ea = ev(n[1], env)
        p = float(n[2])
        if p == int(p):
            if p == 0.0:
                if abs(a) <= SAFETY * ea or a == 0.0:
                    raise Skip('0 ** 0')
                return 1.0, 0.0
            if p < 0.0 and (a == 0.0 or abs(a) <= SAFETY * ea):
                raise Skip('negative power of zero')
            if p == 1.0:
                return a, ea
        else:
            positive(a, ea, 'power')
        v = fin(math.pow(a, p))
        dv = abs(p) * abs(fin(math.pow(a, p - 1.0))) if a != 0.0 else (1.0 if p == 1.0 else 0.0)
        return v, 1.06 * dv * ea + abs(p * (p - 1)) * ea * ea * 1e3 + TRANS * abs(v)
    if k == 'BelongsTo':
        a, ea = ev(n[1], env)
        inside = False
        for m in n[2]:
            if a == m and ea == 0.0:
                inside = True
            elif abs(a - m) <= SAFETY * ea:
                raise Skip('ambiguous membership')
        return (1.0 if inside else 0.0), 0.0
    if k == 'Elem':
        a, ea = ev(n[1], env)
        if abs(a) > 1e6:
            raise Skip('key out of range')
        ki = int(a)
        if ea > 0.0 and (int(a - SAFETY * ea) != ki or int(a + SAFETY * ea) != ki):
            raise Skip('ambiguous key')
        for key, sub in n[2]:
            if key == ki:
                return ev(sub, env)
        raise Skip('key absent')
    if k == 'ConditionalSum':
        tot, err, mag, cnt = 0.0, 0.0, 0.0, 0
        for c, t in n[1]:
            cv, ce = ev(c, env)
            if nonzero(cv, ce):
                tv, te = ev(t, env)
                tot += tv
                err += te
                mag += abs(tv)
                cnt += 1
        return fin(tot), err + cnt * U * mag
    if k == 'bioMultSum':
        tot, err, mag = 0.0, 0.0, 0.0
        for t in n[1]:
            tv, te = ev(t, env)
            tot += tv
            err += te
            mag += abs(tv)
        return fin(tot), err + len(n[1]) * U * mag
    if k == 'bioLinearUtility':
        tot, mag = 0.0, 0.0
        for b, x in n[1]:
            bv, _ = ev(b, env)
            xv, _ = ev(x, env)
            tot += bv * xv
            mag += abs(bv * xv)
        return fin(tot), (len(n[1]) + 1) * U * mag
    if k == 'LogLogit':
        _, choice, utils, avs, _variant = n
        c, ec = ev(choice, env)
        if ec != 0.0 or c != int(c):
            raise Skip('choice is not an exact integer')
        c = int(c)
        keys = [key for key, _ in utils]
        if c not in keys:
            raise Skip('chosen alternative is not an alternative')
        avail = {}
        if avs is None:
            avail = {key: True for key in keys}
        else:
            for key, a in avs:
                av, ae = ev(a, env)
                avail[key] = nonzero(av, ae)
        if not avail[c]:
            raise Skip('chosen alternative unavailable')
        vals = {}
        for key, u in utils:
            if avail[key]:
                uv, ue = ev(u, env)
                if abs(uv) > UTIL_BOUND:
                    raise Skip('utility beyond the bound')
                vals[key] = (uv, ue)
        m = max(v for v, _ in vals.values())
        den = sum(math.exp(v - m) for v, _ in vals.values())
        value = vals[c][0] - m - math.log(den)
        err = vals[c][1] + max(e for _, e in vals.values()) + 16 * U * (abs(vals[c][0]) + abs(m) + 25.0)
        return value, err
    raise AssertionError('unknown description ' + str(k))


# ----------------------------------------------------------------------------------------------------------------
# description -> biogeme expression
# ----------------------------------------------------------------------------------------------------------------
class Builder:
    def __init__(self, free_init, fixed_values, fresh_leaves=False):
        self.free_init = free_init
        self.fixed_values = fixed_values
        self.fresh = fresh_leaves
        self.leaves = {}
        self.shared = {}

    def leaf(self, key, make):
        if self.fresh:
            return make()
        if key not in self.leaves:
            self.leaves[key] = make()
        return self.leaves[key]

    def expr(self, n):
        """always an Expression"""
        from biogeme.expressions import Numeric, Expression
        r = self.build(n)
        return r if isinstance(r, Expression) else Numeric(r)

    def build(self, n):
        import biogeme.expressions as ex
        from biogeme.expressions.binary_expressions import Power
        k = n[0]
        if k == 'num':
            if n[2]:
                v = n[1]
                return int(v) if (float(v) == int(v) and n[2] == 'int') else float(v)
            return ex.Numeric(n[1])
        if k == 'free':
            return self.leaf(('free', n[1]), lambda: ex.Beta(n[1], self.free_init[n[1]], None, None, 0))
        if k == 'fixed':
            return self.leaf(('fixed', n[1]), lambda: ex.Beta(n[1], self.fixed_values[n[1]], None, None, 1))
        if k == 'var':
            return self.leaf(('var', n[1]), lambda: ex.Variable(n[1]))
        if k == 'share':
            if n[1] not in self.shared:
                self.shared[n[1]] = self.expr(n[2])
            return self.shared[n[1]]
        if k in BINARY:
            l, r = self.build(n[1]), self.build(n[2])
            if not isinstance(l, ex.Expression) and not isinstance(r, ex.Expression):
                l = ex.Numeric(l)
            if k == 'Plus':
                return l + r
            if k == 'Minus':
                return l - r
            if k == 'Times':
                return l * r
            if k == 'Divide':
                return l / r
            if k == 'Power':
                if isinstance(r, ex.Expression) and not isinstance(r, ex.Numeric):
                    return l ** r
                return Power(l, r)
            if k == 'bioMin':
                return ex.bioMin(l, r)
            if k == 'bioMax':
                return ex.bioMax(l, r)
            if k == 'And':
                return l & r
            if k == 'Or':
                return l | r
            if k == 'Equal':
                return l == r
            if k == 'NotEqual':
                return l != r
            if k == 'LessOrEqual':
                return l <= r
            if k == 'GreaterOrEqual':
                return l >= r
            if k == 'Less':
                return l < r
            if k == 'Greater':
                return l > r
        if k in UNARY:
            c = self.build(n[1])
            if k == 'UnaryMinus':
                return -(c if isinstance(c, ex.Expression) else ex.Numeric(c))
            return getattr(ex, k)(c)
        if k == 'PowerConstant':
            c = self.expr(n[1])
            p = n[2]
            if len(n) > 3 and n[3] == 'ctor':
                from biogeme.expressions.unary_expressions import PowerConstant
                return PowerConstant(c, float(p))
            return c ** (int(p) if (p == int(p) and len(n) > 3 and n[3] == 'int') else p)
        if k == 'BelongsTo':
            return ex.BelongsTo(self.build(n[1]), set(n[2]))
        if k == 'Elem':
            return ex.Elem({key: self.build(sub) for key, sub in n[2]}, self.build(n[1]))
        if k == 'ConditionalSum':
            terms, seen = [], set()
            for c, t in n[1]:
                cb = self.expr(c)
                if id(cb) in seen:
                    # recorded engine quirk: two terms under one condition *object* collapse; give each term its own
                    cb = Builder(self.free_init, self.fixed_values, fresh_leaves=True).expr(strip_share(c))
                seen.add(id(cb))
                terms.append(ex.ConditionalTermTuple(condition=cb, term=self.build(t)))
            return ex.ConditionalSum(terms)
        if k == 'bioMultSum':
            items = [self.build(t) for t in n[1]]
            if len(n) > 2 and n[2] == 'dict':
                return ex.bioMultSum({10 * i + 3: it for i, it in enumerate(items)})
            return ex.bioMultSum(items)
        if k == 'bioLinearUtility':
            return ex.bioLinearUtility([ex.LinearTermTuple(beta=self.build(b), x=self.build(x)) for b, x in n[1]])
        if k == 'LogLogit':
            _, choice, utils, avs, variant = n
            util = {key: self.build(u) for key, u in utils}
            ch = self.build(choice)
            if variant == 'full':
                return ex._bioLogLogitFullChoiceSet(util, choice=ch)
            if variant == 'models':
                from biogeme import models
                return models.loglogit(util, None if avs is None else {key: self.build(a) for key, a in avs}, ch)
            if avs is None:
                return ex._bioLogLogit(util, None, ch)
            return ex._bioLogLogit(util, {key: self.build(a) for key, a in avs}, ch)
        raise AssertionError('unknown description ' + str(k))


def strip_share(n):
    if not isinstance(n, tuple):
        return n
    if n and n[0] == 'share':
        return strip_share(n[2])
    return tuple(strip_share(c) for c in n)


def contains(n, kinds):
    if isinstance(n, tuple):
        if n and n[0] in kinds:
            return True
        return any(contains(c, kinds) for c in n)
    return False


def loglogit_control_uses_free(n):
    """True when the choice / availability part of a logit depends on the free parameter (the audit evaluates those
    parts with the initial values, so the initial value must then be the tested value)."""
    if not isinstance(n, tuple):
        return False
    if n and n[0] == 'LogLogit':
        if contains(n[1], ('free',)) or (n[3] is not None and contains(n[3], ('free',))):
            return True
    return any(loglogit_control_uses_free(c) for c in n)


SHOWN = set(BINARY) | set(UNARY) | {'num', 'free', 'fixed', 'var', 'share', 'PowerConstant', 'BelongsTo', 'Elem',
                                     'ConditionalSum', 'bioMultSum', 'bioLinearUtility', 'LogLogit'}


def show(n):
    if not isinstance(n, tuple):
        return repr(n)
    if not n or not isinstance(n[0], str) or n[0] not in SHOWN:
        return '[' + ', '.join(show(c) for c in n) + ']'
    k = n[0]
    if k == 'num':
        return repr(n[1])
    if k in ('free', 'fixed', 'var'):
        return n[1]
    if k == 'share':
        return '<' + show(n[2]) + '>'
    return k + '(' + ', '.join(show(c) for c in n[1:]) + ')'


# ----------------------------------------------------------------------------------------------------------------
# formula families
# ----------------------------------------------------------------------------------------------------------------
FREE, FIXED, VAR = ('free', 'zeta'), ('fixed', 'kappa'), ('var', 'x')
NUMS = (2.0, -1.5, 0.5, 1.0, 3.0, 0.0, -2.0, 0.12345678901234)      # the last one needs all its digits in the signature


def num_leaf(slot, rng=None):
    v = NUMS[slot % len(NUMS)] if rng is None else rng.choice(NUMS)
    raw = (False, True, 'int')[(slot + int(abs(v) * 2)) % 3]
    return ('num', v, raw)


def leaf(name, slot, rng=None):
    return {'free': FREE, 'fixed': FIXED, 'var': VAR}.get(name) or num_leaf(slot, rng)


LEAVES = ('free', 'fixed', 'var', 'num')

# kind -> (arity, constructor from a list of sub-descriptions, per-slot hint)
# hints: None (any leaf), 'choice' (an alternative number), 'key' (a key of the dictionary), 'av' (availability)
KINDS = {}
for _op in BINARY:
    KINDS[_op] = (2, (lambda op: lambda a: (op, a[0], a[1]))(_op), (None, None))
for _op in UNARY:
    KINDS[_op] = (1, (lambda op: lambda a: (op, a[0]))(_op), (None,))
for _p, _how in ((2.0, 'float'), (2.0, 'int'), (3.0, 'ctor'), (0.5, 'float'), (-1.0, 'int'), (1.0, 'float'),
                 (0.0, 'ctor'), (-1.5, 'float'), (2.5, 'ctor'),
                 # exponents that need all their digits (a serialisation that shortens them changes the engine's value)
                 (1.0 / 3.0, 'float'), (12.3456789, 'ctor')):
    KINDS['PowerConstant[%s,%s]' % (_p, _how)] = (1, (lambda p, h: lambda a: ('PowerConstant', a[0], p, h))(_p, _how),
                                                  (None,))
KINDS['BelongsTo{1,2,-3}'] = (1, lambda a: ('BelongsTo', a[0], (1, 2, -3)), (None,))
KINDS['BelongsTo{0.5,-1.5,0,2.0}'] = (1, lambda a: ('BelongsTo', a[0], (0.5, -1.5, 0, 2.0)), (None,))
KINDS['Elem'] = (3, lambda a: ('Elem', a[0], ((0, a[1]), (1, a[2]), (2, ('num', 7.5, False)), (3, a[1]),
                                               (-1, ('num', -4.25, True)))), ('key', None, None))
KINDS['ConditionalSum'] = (4, lambda a: ('ConditionalSum', ((a[0], a[1]), (a[2], a[3]),
                                                            (('var', 'av3'), ('num', 10.0, True)))),
                           (None, None, None, None))
KINDS['bioMultSum[list]'] = (3, lambda a: ('bioMultSum', (a[0], a[1], a[2])), (None, None, None))
KINDS['bioMultSum[dict]'] = (2, lambda a: ('bioMultSum', (a[0], a[1]), 'dict'), (None, None))
KINDS['bioLinearUtility[1]'] = (0, lambda a: ('bioLinearUtility', ((FREE, VAR),)), ())
KINDS['bioLinearUtility[2]'] = (0, lambda a: ('bioLinearUtility', ((FREE, VAR), (FIXED, ('var', 'x2')))), ())
KINDS['bioLinearUtility[3]'] = (0, lambda a: ('bioLinearUtility', ((FIXED, VAR), (FREE, ('var', 'x2')), (FREE, VAR))),
                                ())
KINDS['LogLogit[full]'] = (4, lambda a: ('LogLogit', a[0], ((1, a[1]), (2, a[2]), (3, a[3])), None, 'full'),
                           ('choice', None, None, None))
KINDS['LogLogit[av]'] = (5, lambda a: ('LogLogit', a[0],
                                       ((1, a[1]), (2, a[2]), (3, ('Times', ('num', 0.5, True), ('var', 'x2')))),
                                       ((1, a[3]), (2, a[4]), (3, ('var', 'av3'))), 'av'),
                         ('choice', None, None, 'av', 'av'))
KINDS['LogLogit[avNone]'] = (3, lambda a: ('LogLogit', a[0], ((1, a[1]), (2, a[2])), None, 'avNone'),
                             ('choice', None, None))
KINDS['LogLogit[models]'] = (3, lambda a: ('LogLogit', a[0], ((2, a[1]), (1, ('num', 0.25, False)), (3, VAR)),
                                           ((2, ('num', 1, 'int')), (1, a[2]), (3, ('var', 'av3'))), 'models'),
                             ('choice', None, 'av'))
KIND_NAMES = list(KINDS)
CHILD_KINDS = [k for k in KIND_NAMES if k not in ('PowerConstant[2.0,int]', 'PowerConstant[1.0,float]',
                                                  'PowerConstant[0.0,ctor]', 'PowerConstant[2.5,ctor]',
                                                  'bioLinearUtility[3]', 'LogLogit[avNone]')]


def hinted_leaf(hint, slot, rng):
    if hint == 'choice':
        return rng.choice((VAR, VAR, ('num', 2.0, True), ('num', 1, 'int'), FREE, FIXED))
    if hint == 'key':
        return rng.choice((VAR, VAR, ('num', 1.0, True), ('num', 0, 'int'), FREE, FIXED))
    if hint == 'av':
        return rng.choice((('num', 1, 'int'), ('var', 'av3'), FIXED, FREE, VAR))
    return leaf(rng.choice(LEAVES), slot, rng)


def depth1_formulas(rng):
    out = []
    for name in KIND_NAMES:
        arity, mk, hints = KINDS[name]
        if arity == 0:
            out.append(('d1:' + name, mk([])))
        elif arity <= 2:
            for combo in itertools.product(LEAVES, repeat=arity):
                out.append(('d1:' + name, mk([leaf(c, s) for s, c in enumerate(combo)])))
        else:
            combos = [tuple(LEAVES[(s + j) % 4] for s in range(arity)) for j in range(4)]
            combos += [tuple(rng.choice(LEAVES) for _ in range(arity)) for _ in range(8)]
            for combo in combos:
                out.append(('d1:' + name, mk([leaf(c, s) for s, c in enumerate(combo)])))
            for _ in range(6):
                out.append(('d1:' + name, mk([hinted_leaf(h, s, rng) for s, h in enumerate(hints)])))
    return out


def random_child(name, rng):
    arity, mk, hints = KINDS[name]
    return mk([hinted_leaf(h, s, rng) for s, h in enumerate(hints)])


def depth2_formulas(rng):
    out = []
    for pname in KIND_NAMES:
        arity, mk, hints = KINDS[pname]
        for slot in range(arity):
            for cname in CHILD_KINDS:
                args = [hinted_leaf(h, s, rng) for s, h in enumerate(hints)]
                args[slot] = random_child(cname, rng)
                out.append(('d2:%s/%d/%s' % (pname, slot, cname), mk(args)))
    return out


def random_tree(depth, rng):
    if depth == 0:
        return leaf(rng.choice(LEAVES), rng.randrange(7), rng)
    name = rng.choice(KIND_NAMES)
    arity, mk, hints = KINDS[name]
    args = []
    deep = rng.randrange(arity) if arity else -1
    for s, h in enumerate(hints):
        if s == deep or rng.random() < 0.35:
            args.append(random_tree(depth - 1, rng))
        else:
            args.append(hinted_leaf(h, s, rng))
    return mk(args)


def depth3_formulas(rng, count):
    out = []
    while len(out) < count:
        pname = rng.choice(KIND_NAMES)
        arity, mk, hints = KINDS[pname]
        if arity == 0:
            continue
        args = [hinted_leaf(h, s, rng) for s, h in enumerate(hints)]
        args[rng.randrange(arity)] = random_tree(2, rng)
        out.append(('d3:' + pname, mk(args)))
    return out


def shared_formulas(rng, count):
    """one sub-formula object S under two parents"""
    out = []
    unary_parents = [k for k in KIND_NAMES if KINDS[k][0] == 1]
    binary_parents = [k for k in KIND_NAMES if KINDS[k][0] == 2]
    sid = 0
    for cname in CHILD_KINDS:
        for _ in range(count):
            sid += 1
            s = ('share', sid, random_child(cname, rng))
            style = rng.randrange(7)
            if style == 0:
                p1, p2 = rng.choice(unary_parents), rng.choice(unary_parents)
                top = rng.choice(('Plus', 'Minus', 'Times', 'bioMax', 'Less', 'Or'))
                n = (top, KINDS[p1][1]([s]), KINDS[p2][1]([s]))
            elif style == 1:
                p1, p2 = rng.choice(binary_parents), rng.choice(binary_parents)
                o1, o2 = hinted_leaf(None, 1, rng), hinted_leaf(None, 2, rng)
                top = rng.choice(('Plus', 'Minus', 'Times', 'Divide', 'bioMin', 'GreaterOrEqual'))
                n = (top, KINDS[p1][1]([s, o1]), KINDS[p2][1]([o2, s]))
            elif style == 2:
                n = (rng.choice(BINARY), s, s)
            elif style == 3:
                n = ('bioMultSum', (s, ('Times', ('num', 2.0, True), s), s))
            elif style == 4:
                n = ('Elem', hinted_leaf('key', 0, rng), ((0, s), (1, ('UnaryMinus', s)), (2, s), (3, ('exp', s))))
            elif style == 5:
                n = ('LogLogit', hinted_leaf('choice', 0, rng), ((1, s), (2, ('Plus', s, FREE)), (3, s)),
                     ((1, ('num', 1, 'int')), (2, ('var', 'av3')), (3, ('num', 1.0, True))), 'av')
            else:
                # shared *term* (conditions stay distinct objects: recorded quirk)
                n = ('ConditionalSum', ((VAR, s), (FREE, s), (('var', 'av3'), ('Times', s, FIXED))))
            out.append(('shared:%d/%s' % (style, cname), n))
    return out


# ----------------------------------------------------------------------------------------------------------------
# grids
# ----------------------------------------------------------------------------------------------------------------
GRID = {
    'quick': dict(Z=[-1.5, 0.0, 1.0, 2.0, 0.5], F=[2.0, -0.5, 1.0, 0.0, 3.0], X=[1.0, 2.0, 3.0, 0.0, -1.0]),
    'thorough': dict(Z=[-1.5, 0.0, 1.0, 2.0, 0.5, 3.0, -0.25, 1.5, -2.0], F=[2.0, -0.5, 1.0, 0.0, 3.0, 0.5, -1.0, 2.5, 1.5],
                     X=[1.0, 2.0, 3.0, 0.0, -1.0, 0.5, 2.5, -2.0, 1.5]),
}
X2 = [0.5, -1.0, 2.0, 1.5, -0.5, 0.25, 3.0, -2.5, 1.0]
AV3 = [1, 0, 1, 1, 0, 1, 1, 0, 1]
DECOY = 0.375


def rows_of(tier):
    xs = GRID[tier]['X']
    return [{'x': xs[i], 'x2': X2[i], 'av3': float(AV3[i])} for i in range(len(xs))]


def beta_points(tier, node, index, full):
    """list of (z, f) pairs to use for this formula"""
    zs, fs = GRID[tier]['Z'], GRID[tier]['F']
    hz, hf = contains(node, ('free',)), contains(node, ('fixed',))
    if not hz and not hf:
        return [(zs[0], fs[0])]
    if hz and not hf:
        return [(z, fs[index % len(fs)]) for z in zs]
    if hf and not hz:
        return [(zs[index % len(zs)], f) for f in fs]
    if full:
        return [(z, f) for z in zs for f in fs]
    m = len(zs)
    shifts = (index % m,) if tier == 'quick' else (index % m, (index + 4) % m)
    return [(zs[i], fs[(2 * i + sh) % m]) for sh in shifts for i in range(m)]


# ----------------------------------------------------------------------------------------------------------------
# worker
# ----------------------------------------------------------------------------------------------------------------
class EngineBroken(Exception):
    pass


class Worker:
    def __init__(self, tier, seed):
        import logging
        logging.disable(logging.CRITICAL)
        import warnings
        warnings.filterwarnings('ignore')
        self.tier = tier
        self.seed = seed
        self.rows = rows_of(tier)
        self.dbs = {}
        self.cases = 0
        self.failures = []
        self.stats = {'calls': 0, 'points': 0, 'skipped_points': 0, 'formulas': 0, 'formulas_without_point': 0,
                      'python_evaluator_checks': 0, 'python_evaluator_not_accepting': 0}
        self.skip_reasons = {}
        self.hist = {}

    def database(self, idx):
        import pandas as pd
        import biogeme.database as bdb
        key = tuple(idx)
        if key not in self.dbs:
            df = pd.DataFrame({c: [self.rows[i][c] for i in idx] for c in ('x', 'x2', 'av3')})
            self.dbs[key] = bdb.Database('c01', df)
        return self.dbs[key]

    def fail(self, clause, case, expected, got):
        key = clause + ' | ' + str(case.get('tag', case.get('formula', '')))[:60]
        self.hist[key] = self.hist.get(key, 0) + 1
        if self.hist[key] <= 2 and sum(1 for f_ in self.failures if f_) < 60:      # two records per kind of failure
            self.failures.append({'clause': clause, 'case': case, 'expected': expected, 'got': got})
        else:
            self.failures.append(None)

    @staticmethod
    def close(got, want, err):
        return abs(got - want) <= REL * abs(want) + SAFETY * err + 1e-300

    def sentinel_ok(self):
        import biogeme.expressions as ex
        try:
            v = (ex.Numeric(2) * ex.Variable('x')).get_value_c(database=self.database((0, 1)), prepare_ids=True)
            return list(v) == [2 * self.rows[0]['x'], 2 * self.rows[1]['x']]
        except Exception:
            return False

    def guarded(self, clause, case, fn):
        """run an engine call; an exception on an in-domain input is a failure, and poisons the process"""
        try:
            return fn()
        except Exception as e:  # noqa
            self.fail(clause, case, 'a value', 'raised %s: %s' % (type(e).__name__, str(e)[:300]))
            if not self.sentinel_ok():
                raise EngineBroken()
            return None

    def oracle_rows(self, node, z, f):
        good, vals = [], []
        for i, row in enumerate(self.rows):
            env = {'free': {'zeta': z}, 'fixed': {'kappa': f}, 'row': row}
            try:
                v, e = ev_top(node, env)
                good.append(i)
                vals.append((v, e))
                self.stats['points'] += 1
            except Skip as s:
                self.stats['skipped_points'] += 1
                self.skip_reasons[str(s)] = self.skip_reasons.get(str(s), 0) + 1
        return good, vals

    def run_formula(self, index, tag, node, full):
        self.stats['formulas'] += 1
        has_var = contains(node, ('var', 'bioLinearUtility'))
        force_init = loglogit_control_uses_free(node)
        any_point = False
        for pi, (z, f) in enumerate(beta_points(self.tier, node, index, full)):
            good, vals = self.oracle_rows(node, z, f)
            if not good:
                continue
            if not has_var:
                good, vals = good[:3], vals[:3]       # same value on every row: three rows are enough
            any_point = True
            mode = 0 if force_init else (index + pi) % 3
            if mode == 0:
                init, betas = z, None
            elif mode == 1:
                init, betas = DECOY, {'zeta': z}
            else:
                init, betas = DECOY, {'not_in_the_model': 12.5, 'zeta': z, 'kappa': 77.0}
            fresh = (pi == 1)
            case = {'formula': show(node), 'tag': tag, 'zeta': z, 'kappa': f, 'rows': [self.rows[i] for i in good],
                    'free_given_by': ('initial value', 'betas dict', 'betas dict with foreign names')[mode],
                    'fresh_leaf_objects': fresh}
            b = Builder({'zeta': init}, {'kappa': f}, fresh_leaves=fresh)
            e = self.guarded('engine-value', case, lambda: b.expr(node))
            if e is None:
                continue
            db = self.database(good)
            clause = 'fresh-leaves' if fresh else ('betas-dict' if mode == 2 else 'engine-value')
            got = self.guarded(clause, case, lambda: e.get_value_c(database=db, betas=betas, prepare_ids=True))
            self.stats['calls'] += 1
            if got is None:
                continue
            self.cases += len(good)
            if len(got) != len(good):
                self.fail(clause, case, '%d values' % len(good), '%d values' % len(got))
                continue
            bad = [(i, float(g), v) for i, g, (v, er) in zip(good, got, vals) if not self.close(float(g), v, er)]
            if bad:
                i, g, v = bad[0]
                case2 = dict(case)
                case2['row'] = self.rows[i]
                del case2['rows']
                self.fail(clause, case2, v, g)
            if pi == 0:
                got2 = self.guarded('evaluated-twice', case,
                                    lambda: e.get_value_c(database=db, betas=betas, prepare_ids=True))
                self.stats['calls'] += 1
                if got2 is not None:
                    self.cases += 1
                    if list(map(float, got2)) != list(map(float, got)):
                        self.fail('evaluated-twice', case, list(map(float, got)), list(map(float, got2)))
            if not has_var:
                want, er = vals[0]
                g0 = self.guarded('engine-value-nodb', case, lambda: e.get_value_c(betas=betas, prepare_ids=True))
                self.stats['calls'] += 1
                if g0 is not None:
                    self.cases += 1
                    if not self.close(float(g0), want, er):
                        self.fail('engine-value-nodb', case, want, float(g0))
                # the Python evaluator works with the initial values
                try:
                    wantp, erp = ev_top(node, {'free': {'zeta': init}, 'fixed': {'kappa': f}, 'row': {}})
                except Skip:
                    wantp = None
                if wantp is not None:
                    from biogeme.exceptions import BiogemeError
                    import biogeme.exceptions as bex
                    try:
                        gp = e.get_value()
                        accepted = True
                    except (NotImplementedError, getattr(bex, 'NotImplementedError', NotImplementedError)):
                        accepted = False
                        self.stats['python_evaluator_not_accepting'] += 1
                    except Exception as exn:  # noqa
                        accepted = False
                        self.cases += 1
                        self.fail('python-evaluator', case, wantp, 'raised %s: %s' % (type(exn).__name__, str(exn)[:200]))
                    if accepted:
                        self.cases += 1
                        self.stats['python_evaluator_checks'] += 1
                        if not self.close(float(gp), wantp, erp):
                            case2 = dict(case)
                            case2['zeta'] = init
                            self.fail('python-evaluator', case2, wantp, float(gp))
        if not any_point:
            self.stats['formulas_without_point'] += 1

    def run_shared(self, index, tag, node):
        """shared object build against copy build against the oracle"""
        self.stats['formulas'] += 1
        plain = strip_share(node)
        force_init = loglogit_control_uses_free(node)
        pts = beta_points(self.tier, node, index, False)
        for pi, (z, f) in enumerate(pts[:3] if self.tier == 'quick' else pts[:9]):
            good, vals = self.oracle_rows(plain, z, f)
            if not good:
                continue
            init, betas = (z, None) if (force_init or pi % 2 == 0) else (DECOY, {'zeta': z})
            case = {'formula': show(node), 'tag': tag, 'zeta': z, 'kappa': f, 'rows': [self.rows[i] for i in good]}
            db = self.database(good)
            res = []
            for variant in (node, plain):
                b = Builder({'zeta': init}, {'kappa': f})
                e = self.guarded('shared-subformula', case, lambda: b.expr(variant))
                got = None if e is None else self.guarded(
                    'shared-subformula', case, lambda: e.get_value_c(database=db, betas=betas, prepare_ids=True))
                self.stats['calls'] += 1
                res.append(got)
            if res[0] is None or res[1] is None:
                continue
            self.cases += len(good)
            for i, g, gc, (v, er) in zip(good, res[0], res[1], vals):
                if not self.close(float(g), v, er):
                    c2 = dict(case, row=self.rows[i])
                    del c2['rows']
                    self.fail('shared-subformula', c2, v, float(g))
                    break
                if float(g) != float(gc) and not self.close(float(gc), v, er):
                    c2 = dict(case, row=self.rows[i], built='with copies')
                    del c2['rows']
                    self.fail('shared-subformula', c2, v, float(gc))
                    break

    def run_side_by_side(self, index, group):
        """group: list of (key, node); nodes may contain ('share', ...) wrappers common to several formulas"""
        from biogeme.biogeme import BIOGEME
        from biogeme.parameters import Parameters
        rng = random.Random(self.seed * 7919 + index)
        zs, fs = GRID[self.tier]['Z'], GRID[self.tier]['F']
        for _ in range(2 if self.tier == 'quick' else 5):
            z, f = rng.choice(zs), rng.choice(fs)
            common = None
            per = {}
            for key, node in group:
                good, vals = self.oracle_rows(strip_share(node), z, f)
                per[key] = dict(zip(good, vals))
                common = set(good) if common is None else (common & set(good))
            if not common:
                continue
            good = sorted(common)
            db = self.database(good)
            b = Builder({'zeta': DECOY}, {'kappa': f})
            case = {'formulas': {key: show(node) for key, node in group}, 'zeta': z, 'kappa': f,
                    'rows': [self.rows[i] for i in good]}
            if any(loglogit_control_uses_free(node) for _, node in group):
                b = Builder({'zeta': z}, {'kappa': f})

            def build_all():
                d = {}
                for key, node in group:
                    d[key] = b.expr(node)
                return d
            formulas = self.guarded('side-by-side', case, build_all)
            if formulas is None:
                continue
            par = Parameters()
            par.set_value('number_of_threads', 1 + (index % 3), section='MultiThreading')
            par.set_value('save_iterations', False, section='Estimation')

            def simulate():
                bg = BIOGEME(db, formulas, parameters=par)
                given = {'zeta': z}
                return bg.simulate(given)
            out = self.guarded('side-by-side', case, simulate)
            self.stats['calls'] += 1
            if out is None:
                continue
            self.cases += len(good) * len(group)
            if list(out.columns) != [key for key, _ in group]:
                self.fail('side-by-side', case, [key for key, _ in group], list(out.columns))
                continue
            if len(out) != len(good):
                self.fail('side-by-side', case, '%d rows' % len(good), '%d rows' % len(out))
                continue
            done = False
            for key, node in group:
                col = list(out[key])
                for pos, i in enumerate(good):
                    v, er = per[key][i]
                    if not self.close(float(col[pos]), v, er):
                        c2 = dict(case, column=key, row=self.rows[i])
                        del c2['rows']
                        self.fail('side-by-side', c2, v, float(col[pos]))
                        done = True
                        break
                if done:
                    break

    def run_name_order(self, index, spec):
        """spec: (names in order of appearance, statuses, description using ('free'/'fixed', name))"""
        from biogeme.biogeme import BIOGEME
        from biogeme.parameters import Parameters
        names, fixed_names, node = spec
        rng = random.Random(self.seed * 104729 + index)
        init = {nm: rng.choice([-1.25, -0.5, 0.25, 0.75, 1.5, 2.25]) for nm in names}
        fixv = {nm: rng.choice([-0.75, 0.5, 1.25, 2.0]) for nm in fixed_names}
        subsets = [()]
        for r in range(1, len(names) + 1):
            subsets += list(itertools.combinations(names, r))
        if self.tier == 'quick' and len(subsets) > 8:
            subsets = [subsets[0]] + rng.sample(subsets[1:], 7)
        for sub in subsets:
            given = {nm: rng.choice([-1.0, -0.25, 0.5, 1.0, 1.75, 2.5]) for nm in sub}
            for nm in rng.sample(fixed_names, len(fixed_names) // 2):
                given[nm] = 55.5                      # a fixed parameter keeps its own value
            keys = list(given)
            rng.shuffle(keys)
            given = {kk: given[kk] for kk in keys}
            eff = dict(init)
            eff.update({nm: given[nm] for nm in sub})
            good, vals = [], []
            for i, row in enumerate(self.rows):
                try:
                    vals.append(ev_top(node, {'free': eff, 'fixed': fixv, 'row': row}))
                    good.append(i)
                except Skip:
                    pass
            if not good:
                continue
            case = {'formula': show(node), 'order_of_appearance': list(names), 'initial': init, 'fixed': fixv,
                    'betas': given, 'rows': [self.rows[i] for i in good]}
            db = self.database(good)
            b = Builder(init, fixv)
            e = self.guarded('name-order', case, lambda: b.expr(node))
            if e is None:
                continue
            got = self.guarded('name-order', case,
                               lambda: e.get_value_c(database=db, betas=(given or None), prepare_ids=True))
            self.stats['calls'] += 1
            if got is None:
                continue
            self.cases += len(good)
            for i, g, (v, er) in zip(good, got, vals):
                if not self.close(float(g), v, er):
                    c2 = dict(case, row=self.rows[i])
                    del c2['rows']
                    self.fail('name-order', c2, v, float(g))
                    break
            if len(sub) == len(names):
                # the same through BIOGEME.simulate (needs every free parameter)
                par = Parameters()
                par.set_value('number_of_threads', 2, section='MultiThreading')
                b2 = Builder(init, fixv)
                full_given = {nm: given[nm] for nm in keys if nm in names}

                def simulate():
                    bg = BIOGEME(db, {'second': b2.expr(('Times', ('num', 2.0, True), node)), 'first': b2.expr(node)},
                                 parameters=par)
                    return bg.simulate(full_given)
                out = self.guarded('name-order', case, simulate)
                self.stats['calls'] += 1
                if out is not None:
                    self.cases += len(good)
                    ok = list(out.columns) == ['second', 'first'] and len(out) == len(good)
                    if ok:
                        for pos, (i, (v, er)) in enumerate(zip(good, vals)):
                            if not (self.close(float(out['first'].iloc[pos]), v, er)
                                    and self.close(float(out['second'].iloc[pos]), 2 * v, 2 * er)):
                                ok = False
                                c2 = dict(case, row=self.rows[i], through='BIOGEME.simulate')
                                del c2['rows']
                                self.fail('name-order', c2, [2 * v, v],
                                          [float(out['second'].iloc[pos]), float(out['first'].iloc[pos])])
                                break
                    else:
                        self.fail('name-order', dict(case, through='BIOGEME.simulate'), ['second', 'first'],
                                  list(out.columns))

    def run_cdf_grid(self):
        import pandas as pd
        import biogeme.database as bdb
        import biogeme.expressions as ex
        n = 1601 if self.tier == 'quick' else 16001
        xs = [-8.0 + 16.0 * i / (n - 1) for i in range(n)]
        db = bdb.Database('cdf', pd.DataFrame({'x': xs}))
        got = self.guarded('normal-cdf-grid', {'grid': '[-8, 8], %d points' % n},
                           lambda: ex.bioNormalCdf(ex.Variable('x')).get_value_c(database=db, prepare_ids=True))
        if got is None:
            return
        zones = [(-8.0, -6.0), (-6.0, -5.0), (-5.0, -3.0), (-3.0, 0.0), (0.0, 3.0), (3.0, 6.0), (6.0, 6.2), (6.2, 8.01)]
        for lo, hi in zones:
            worst = None
            for x, g in zip(xs, got):
                if lo <= x < hi:
                    want = 0.5 * math.erfc(-x / SQRT2)
                    self.cases += 1
                    rel = abs(float(g) - want) / want
                    if rel > REL + 16 * U and (worst is None or rel > worst[0]):
                        worst = (rel, x, want, float(g))
            if worst:
                self.fail('normal-cdf-grid', {'formula': 'bioNormalCdf(x)', 'x': worst[1], 'zone': [lo, hi],
                                              'relative_error': worst[0]}, worst[2], worst[3])
        # the same upper tail seen through a logarithm: log Phi(x) = log1p(-Q(x)) < 0
        xs2 = [x for x in xs if 6.0 <= x < 8.0]
        db2 = bdb.Database('cdf2', pd.DataFrame({'x': xs2}))
        got2 = self.guarded('normal-cdf-grid', {'grid': 'log(bioNormalCdf(x)) on [6, 8)'},
                            lambda: ex.log(ex.bioNormalCdf(ex.Variable('x'))).get_value_c(database=db2, prepare_ids=True))
        if got2 is not None:
            worst = None
            for x, g in zip(xs2, got2):
                q = 0.5 * math.erfc(x / SQRT2)
                want = math.log1p(-q)
                self.cases += 1
                # 1 - q is only known to half an ulp of 1 in double precision
                if abs(float(g) - want) > REL * abs(want) + 1.2e-16 and (worst is None or abs(float(g) - want) > worst[0]):
                    worst = (abs(float(g) - want), x, want, float(g))
            if worst:
                self.fail('normal-cdf-grid', {'formula': 'log(bioNormalCdf(x))', 'x': worst[1], 'zone': [6.0, 8.0],
                                              'absolute_error': worst[0]}, worst[2], worst[3])

    def run_probe(self):
        """the assumptions the error model rests on: + - * / of the engine are the IEEE operations (no fused
        multiply-add), Numeric literals and parameter values cross the interface without loss"""
        import biogeme.expressions as ex
        a = 1.0 + 2.0 ** -30
        tests = [
            (('Plus', ('Times', ('num', a, False), ('num', a, False)), ('num', -1.0 - 2.0 ** -29, False)), 0.0),
            (('Minus', ('Times', ('num', a, False), ('num', a, False)), ('num', 1.0 + 2.0 ** -29, False)), 0.0),
            (('num', 0.1 + 0.2, False), 0.1 + 0.2),
            (('num', 1.2345678901234567e-7, False), 1.2345678901234567e-7),
            (('num', 123456789.12345679, True), 123456789.12345679),
            (('Divide', ('num', 1.0, False), ('num', 3.0, False)), 1.0 / 3.0),
            (('free', 'zeta'), 0.1 + 0.2),
            (('fixed', 'kappa'), 2.0 / 3.0),
        ]
        for node, want in tests:
            b = Builder({'zeta': DECOY}, {'kappa': 2.0 / 3.0})
            got = self.guarded('engine-value', {'formula': show(node), 'probe': 'exact arithmetic'},
                               lambda: b.expr(node).get_value_c(betas={'zeta': 0.1 + 0.2}, prepare_ids=True))
            self.cases += 1
            if got is not None and float(got) != want:
                self.fail('engine-value', {'formula': show(node), 'probe': 'exact arithmetic (bit for bit)'}, want,
                          float(got))


def name_order_specs(rng, count):
    pool = ['zeta', 'alpha', 'mid', 'Beta2', 'beta10', 'beta9', '_u', 'Zed', 'a1']
    out = []
    while len(out) < count:
        k = rng.randrange(2, 5)
        names = rng.sample(pool, k)
        if sorted(names) == names:
            continue
        fixed_names = rng.sample(['kappa', 'Aa', 'yy'], rng.randrange(0, 3))
        # an asymmetric combination: every permutation of the values changes the result
        terms = []
        for j, nm in enumerate(names):
            p = ('free', nm)
            shape = (j + len(out)) % 5
            if shape == 0:
                terms.append(('Times', p, VAR))
            elif shape == 1:
                terms.append(('PowerConstant', ('Plus', p, ('num', 3.0, True)), 2.0, 'float'))
            elif shape == 2:
                terms.append(('exp', ('Times', ('num', 0.5, True), p)))
            elif shape == 3:
                terms.append(('Divide', ('var', 'x2'), ('Plus', ('num', 4.0, True), p)))
            else:
                terms.append(('Times', ('num', float(j + 2), True), ('sin', p)))
        for j, nm in enumerate(fixed_names):
            terms.append(('Times', ('fixed', nm), ('num', 0.5 + j, True)))
        style = len(out) % 3
        if style == 0:
            node = ('bioMultSum', tuple(terms))
        elif style == 1:
            node = terms[0]
            for t in terms[1:]:
                node = ('Minus', node, t)
        else:
            node = ('LogLogit', ('num', 1, 'int'), tuple((i + 1, t) for i, t in enumerate(terms)), None, 'full')
        out.append((tuple(names), tuple(fixed_names), node))
    return out


def side_by_side_groups(rng, pool, count):
    """groups of formulas evaluated together; some share sub-formula objects, some repeat a formula"""
    out = []
    sid = 10 ** 6
    usable = [n for _, n in pool]
    while len(out) < count:
        m = rng.randrange(2, 7)
        sid += 1
        s = ('share', sid, rng.choice(usable))
        group = []
        for j in range(m):
            kind = rng.randrange(4)
            if kind == 0:
                node = rng.choice(usable)
            elif kind == 1:
                node = s
            elif kind == 2:
                node = (rng.choice(('Plus', 'Times', 'Minus', 'bioMax')), s, rng.choice(usable))
            else:
                node = (rng.choice(('exp', 'UnaryMinus', 'sin')), s)
            group.append((('f%d' % j) if j != 2 else 'a_first_in_alphabet', node))
        rng.shuffle(group)
        out.append(group)
    return out


def work_list(tier, seed):
    rng = random.Random(seed)
    items = [('probe',), ('cdf',)]
    d1 = depth1_formulas(rng)
    d2 = depth2_formulas(rng)
    for idx, (tag, node) in enumerate(d1):
        items.append(('formula', idx, tag, node, True))
    for idx, (tag, node) in enumerate(d2):
        items.append(('formula', idx, tag, node, False))
    if tier == 'thorough':
        for idx, (tag, node) in enumerate(depth3_formulas(rng, 12000)):
            items.append(('formula', idx, tag, node, False))
    for idx, (tag, node) in enumerate(shared_formulas(rng, 2 if tier == 'quick' else 8)):
        items.append(('shared', idx, tag, node))
    simple = [(t, n) for t, n in d1 + d2 if not contains(n, ('LogLogit',))]
    for idx, group in enumerate(side_by_side_groups(rng, simple, 60 if tier == 'quick' else 400)):
        items.append(('sbs', idx, group))
    for idx, spec in enumerate(name_order_specs(rng, 24 if tier == 'quick' else 120)):
        items.append(('names', idx, spec))
    return items


def supervise(tier, seed, nparts, deadline, prefix, died_clause):
    """run the worker processes; returns (list of the workers' result dicts, number of respawns).  Everything the
    workers write lives under one temporary directory that is removed here, whatever happens."""
    root = tempfile.mkdtemp(prefix=prefix)
    results, respawns, procs = [], 0, {}

    def spawn(part, start):
        spec = {'tier': tier, 'seed': seed, 'part': part, 'nparts': nparts, 'start': start, 'deadline': deadline,
                'root': root}
        return subprocess.Popen([sys.executable, os.path.abspath(__file__), '--worker', json.dumps(spec)],
                                stdout=subprocess.PIPE, stderr=subprocess.PIPE, text=True)
    try:
        for part in range(nparts):
            procs[part] = spawn(part, 0)
        while procs:
            for part in list(procs):
                out, err = procs[part].communicate()
                code = procs[part].returncode
                del procs[part]
                line = out.strip().splitlines()[-1] if out.strip() else ''
                try:
                    res = json.loads(line)
                    if not isinstance(res, dict) or 'nfail' not in res:
                        raise ValueError
                except ValueError:
                    # the worker died (e.g. a crash inside the engine): take what it had finished, record the item it
                    # was working on and resume behind it
                    try:
                        with open(os.path.join(root, 'state_%d.json' % part)) as fh:
                            state = json.load(fh)
                        os.remove(os.path.join(root, 'state_%d.json' % part))
                        res = state['result']
                        res['nfail'] += 1
                        res['failures'].append({'clause': died_clause, 'case': {'item': state['what']},
                                                'expected': 'a result', 'got': 'the process died (exit code %s): %s'
                                                % (code, (err or '')[-300:])})
                        key = died_clause + ' | process died'
                        res['hist'][key] = res['hist'].get(key, 0) + 1
                        res['resume'] = state['current'] + 1
                    except (OSError, ValueError, KeyError):
                        res = {'cases': 0, 'nfail': 1, 'hist': {'harness | no result line': 1}, 'resume': None,
                               'timed_out': False,
                               'failures': [{'clause': 'harness', 'case': {'worker': part}, 'expected': 'a result line',
                                             'got': (err or out)[-600:]}]}
                results.append(res)
                if res.get('resume') is not None and respawns < 40:
                    respawns += 1
                    procs[part] = spawn(part, res['resume'])
    finally:
        for pr in procs.values():
            try:
                pr.kill()
            except OSError:
                pass
        shutil.rmtree(root, ignore_errors=True)
    return results, respawns


def save_state(root, part, state):
    tmp = os.path.join(root, 'state_%d.tmp' % part)
    with open(tmp, 'w') as fh:
        json.dump(state, fh)
    os.replace(tmp, os.path.join(root, 'state_%d.json' % part))


def worker_main(spec):
    tier, seed, part, nparts, start = spec['tier'], spec['seed'], spec['part'], spec['nparts'], spec['start']
    root = spec['root']
    os.chdir(tempfile.mkdtemp(prefix='w%d_' % part, dir=root))
    w = Worker(tier, seed)
    items = work_list(tier, seed)
    resume = None
    deadline = spec.get('deadline')
    timed_out = False

    def result():
        return {'cases': w.cases, 'failures': [f for f in w.failures if f is not None], 'nfail': len(w.failures),
                'stats': w.stats, 'resume': resume, 'items': len(items), 'skip_reasons': w.skip_reasons, 'hist': w.hist,
                'timed_out': timed_out}
    for pos in range(start, len(items)):
        if pos % nparts != part:
            continue
        if deadline and time.time() > deadline:
            timed_out = True
            break
        it = items[pos]
        # if the process dies inside the engine, the parent reads this file, records the item and resumes behind it
        what = it[0] if len(it) < 4 else '%s %s' % (it[2], show(it[3]))
        save_state(root, part, {'current': pos, 'what': what[:600], 'result': result()})
        try:
            if it[0] == 'probe':
                w.run_probe()
            elif it[0] == 'cdf':
                w.run_cdf_grid()
            elif it[0] == 'formula':
                w.run_formula(it[1], it[2], it[3], it[4])
            elif it[0] == 'shared':
                w.run_shared(it[1], it[2], it[3])
            elif it[0] == 'sbs':
                w.run_side_by_side(it[1], it[2])
            elif it[0] == 'names':
                w.run_name_order(it[1], it[2])
        except EngineBroken:
            resume = pos + 1
            break
    print(json.dumps(result()))



def _diverse(failures, cap=60):
    """records of different kinds first (two per kind): a flood of one kind of failure must not hide another kind"""
    seen, first, rest = {}, [], []
    for f in failures:
        if not f:
            continue
        c = f.get('case') if isinstance(f.get('case'), dict) else {}
        k = (f.get('clause'), str(c.get('tag', c.get('part', c.get('formula', ''))))[:60])
        seen[k] = seen.get(k, 0) + 1
        (first if seen[k] <= 2 else rest).append(f)
    return (first + rest)[:cap]


def main():
    if len(sys.argv) >= 3 and sys.argv[1] == '--worker':
        worker_main(json.loads(sys.argv[2]))
        return 0
    tier = sys.argv[1] if len(sys.argv) > 1 else 'quick'
    seed = int(sys.argv[2]) if len(sys.argv) > 2 else 0
    if tier not in GRID:
        print(json.dumps({'cases': 0, 'bound': 'bad tier', 'failures': [{'clause': 'usage', 'case': {}, 'expected':
                                                                       'quick|thorough', 'got': tier}]}))
        return 1
    t0 = time.time()
    deadline = t0 + (50 if tier == 'quick' else 560)
    results, respawns = supervise(tier, seed, 6 if tier == 'quick' else 8, deadline, 'c01_', 'engine-value')
    cases, failures, nfail = 0, [], 0
    stats, reasons, items, timed_out, hist = {}, {}, None, False, {}
    for res in results:
        cases += res['cases']
        nfail += res['nfail']
        failures += res['failures']
        items = res.get('items', items)
        timed_out = timed_out or res['timed_out']
        for k, v in res.get('stats', {}).items():
            stats[k] = stats.get(k, 0) + v
        for k, v in res.get('skip_reasons', {}).items():
            reasons[k] = reasons.get(k, 0) + v
        for k, v in res['hist'].items():
            hist[k] = hist.get(k, 0) + v
    g = GRID[tier]
    bound = ('%d work items: every operator kind (%d kinds: 15 binary, 7 unary, PowerConstant with 7 exponents / 3 spellings, BelongsTo, '
             'Elem incl. a negative key, ConditionalSum, bioMultSum list/dict, bioLinearUtility, logit with/without '
             'availabilities) over the leaves {free Beta, fixed Beta, Variable, Numeric}: all leaf assignments at depth 1 '
             '(full %dx%d parameter grid), every (parent kind, argument position, child kind) at depth 2%s; leaf grid of %d '
             'values, %d data rows (in-domain subsets); %d formulas, %d engine calls, %d in-domain points checked, %d '
             'points skipped as outside the domain or numerically ambiguous, %d formulas without any in-domain point, '
             '%d Python-evaluator comparisons (%d formulas not accepted by it); plus shared-subformula, side-by-side '
             '(BIOGEME.simulate, 2-6 formulas, 1-3 threads), parameter-name-order (2-4 free parameters, all subsets of '
             'overridden names) and a dense normal-cdf grid on [-8,8]; tolerance 1e-9 relative + 10x running error '
             'bound; logit utilities bounded by %g; seed %d%s'
             % (items or 0, len(KIND_NAMES), len(g['Z']), len(g['F']),
                ', 12000 sampled depth-3 formulas' if tier == 'thorough' else '', len(g['Z']), len(g['X']),
                stats.get('formulas', 0), stats.get('calls', 0), stats.get('points', 0), stats.get('skipped_points', 0),
                stats.get('formulas_without_point', 0), stats.get('python_evaluator_checks', 0),
                stats.get('python_evaluator_not_accepting', 0), UTIL_BOUND, seed,
                '; TIME BUDGET HIT, list not exhausted' if timed_out else ''))
    print('skip reasons:', json.dumps(reasons))
    for k in sorted(hist)[:200]:
        print('FAIL', hist[k], k)
    print('elapsed %.1f s, worker respawns after engine errors: %d, failures in total: %d' % (time.time() - t0, respawns, nfail))
    print(json.dumps({'cases': cases, 'bound': bound, 'failures': _diverse(failures)}))
    return 0 if nfail == 0 else 1


if __name__ == '__main__':
    sys.exit(main())
