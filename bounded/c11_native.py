"""Bounded stand-ins for C11 on the real code (run under /venv/bin/python, fresh process per mode).

usage: c11_native.py <mode> <tier> <seed>
modes:
  halton          get_halton_draws == radical inverse of skip+1 .. skip+length (bases 2,3,5,7; skips 0,1,10;
                  every length 1..400, thorough 1..5000; shapes; symmetric map)
  structure       the 21 catalogue entries: shape (N,R) for even R, support, antithetic halves, symmetric = 2u-1,
                  normal = standard normal quantile of the underlying uniform scheme (same seed), one point per
                  stratum for MLHS, different bases -> different sequences
  quantile        get_normal_wichura_draws against scipy.stats.norm.ppf and the PPND16 transcription on a dense
                  grid of (0,1) including the tails 1e-300 .. 1e-5
  transcription   specs/c11_ppnd16.py (the transcription of Wichura 1988) against scipy.stats.norm.ppf
  generate_draws  Database.generate_draws shape enforcement
prints one JSON line {"cases": n, "failures": [...]}; exit 0 / 1.
"""
import json
import math
import os
import sys

import numpy as np

sys.path.insert(0, os.path.dirname(os.path.dirname(os.path.abspath(__file__))))


def radical_inverse_table(base, nmax):
    """phi_base(0..nmax) as floats, computed with exact integer arithmetic."""
    from fractions import Fraction
    out = np.empty(nmax + 1)
    for n in range(nmax + 1):
        k, num, den = n, 0, 1
        while k:
            k, d = divmod(k, base)
            num = num * base + d
            den *= base
        out[n] = float(Fraction(num, den))
    return out


def mode_halton(tier, seed):
    from biogeme import draws
    lmax = 400 if tier == 'quick' else 5000
    fails, cases = [], 0
    rng = np.random.default_rng(seed)
    for base in (2, 3, 5, 7):
        table = radical_inverse_table(base, lmax + 11)
        for skip in (0, 1, 10):
            for length in range(1, lmax + 1):
                # one factorisation per length (all rows x columns shapes are the same flat sequence)
                divs = [d for d in (1, 2, 3, 5, 7) if length % d == 0]
                n = int(divs[rng.integers(len(divs))])
                r = length // n
                got = draws.get_halton_draws(n, r, base=base, skip=skip)
                cases += 1
                want = table[skip + 1: skip + 1 + length].reshape(n, r)
                if got.shape != (n, r) or not np.allclose(got, want, rtol=0, atol=1e-13):
                    fails.append({'check': 'radical-inverse', 'base': base, 'skip': skip, 'sample_size': n, 'number_of_draws': r,
                                  'max_abs_dev': None if got.shape != (n, r) else float(np.max(np.abs(got - want)))})
                    break
                if length in (1, 7, 64, lmax):
                    sym = draws.get_halton_draws(n, r, symmetric=True, base=base, skip=skip)
                    cases += 1
                    if sym.shape != (n, r) or not np.array_equal(sym, 2.0 * got - 1.0):
                        fails.append({'check': 'symmetric-halton = 2h-1', 'base': base, 'skip': skip, 'length': length})
    return cases, fails


UNDERLYING = {                       # normal entry -> the uniform entry whose numbers it must transform
    'NORMAL': 'UNIFORM', 'NORMAL_HALTON2': 'UNIFORM_HALTON2', 'NORMAL_HALTON3': 'UNIFORM_HALTON3',
    'NORMAL_HALTON5': 'UNIFORM_HALTON5', 'NORMAL_MLHS': 'UNIFORM_MLHS',
}


def mode_structure(tier, seed, part='structure'):
    """part='structure': everything that does not depend on the accuracy of the normal quantile;
    part='quantile': the sub-checks that compare NORMAL_* draws with the true standard-normal quantile."""
    from scipy.stats import norm
    from biogeme.native_draws import native_random_number_generators as cat
    fails, cases = [], 0
    # the last four sizes give stratum counts (49, 98, 103, 107, 206, 214) at which 1.0 / (1.0 / N) rounds above N: a stratum grid
    # built with a floating-point step has one point too many there
    sizes = [(1, 2), (2, 4), (3, 10), (7, 50), (7, 14), (1, 206), (49, 2), (1, 214)] + ([(13, 200), (1, 1000), (50, 20), (1, 394), (7, 28)] if tier != 'quick' else [])

    def gen(key, n, r, s):
        np.random.seed(s)
        return cat[key].generator(n, r)

    def bad(check, key, n, r, **kw):
        fails.append({'check': check, 'key': key, 'sample_size': n, 'number_of_draws': r, **kw})

    for (n, r) in sizes:
        for rep in range(2 if tier == 'quick' else 5):
            s = 1000 * seed + 17 * rep + n + r
            out = {}
            for k in cat:
                try:
                    out[k] = gen(k, n, r, s)
                except Exception as e:      # every size must be served
                    cases += 1
                    bad('every requested size is served (observations x draws array)', k, n, r, got=f'{type(e).__name__}: {str(e)[:120]}')
            # history: the same sizes again in the REVERSE order of the catalogue (normal types before the uniform ones they are
            # built on): every call still returns observations x draws, deterministic sequences do not depend on earlier calls
            for key in reversed(list(out)):
                cases += 1
                try:
                    y = gen(key, n, r, s)
                except Exception as e:
                    bad('history: every call returns observations x draws, whatever was generated before', key, n, r, got=f'{type(e).__name__}: {str(e)[:120]}')
                    continue
                if not isinstance(y, np.ndarray) or y.shape != (n, r):
                    bad('history: every call returns observations x draws, whatever was generated before', key, n, r, got=str(getattr(y, 'shape', None)))
                elif 'HALTON' in key and not np.array_equal(y, np.asarray(out[key]).reshape(n, r) if np.asarray(out[key]).size == n * r else out[key]):
                    bad('history: deterministic sequences do not depend on earlier calls', key, n, r)
            for key, x in out.items():
                cases += 1
                if not isinstance(x, np.ndarray) or x.shape != (n, r):
                    bad('shape', key, n, r, got=str(getattr(x, 'shape', None)))
                    continue
                if key.startswith('UNIFORMSYM'):
                    ok = np.all(x >= -1) and np.all(x <= 1)
                elif key.startswith('UNIFORM'):
                    ok = np.all(x >= 0) and np.all(x <= 1)
                else:
                    ok = np.all(np.isfinite(x))
                if not ok:
                    bad('support', key, n, r)
                h = r // 2
                if key.endswith('_ANTI'):
                    first, second = x[:, :h], x[:, h:]
                    mirror = 1 - first if key.startswith('UNIFORM_') or key == 'UNIFORM_ANTI' else -first
                    if not np.array_equal(second, mirror):
                        bad('antithetic: second half is the mirror image of the first', key, n, r)
                    base_key = key[:-5]
                    want_first = gen(base_key, n, h, s)          # same seed, half the draws
                    if not np.allclose(first, want_first, rtol=1e-13, atol=1e-13):
                        bad('antithetic: first half is the plain scheme with R/2 draws', key, n, r)
                if key.startswith('UNIFORMSYM') and ('UNIFORM' + key[len('UNIFORMSYM'):]) in out:
                    unit = out['UNIFORM' + key[len('UNIFORMSYM'):]]
                    if not np.allclose(x, 2.0 * unit - 1.0, rtol=0, atol=1e-15):
                        bad('symmetric = 2u-1 of the unit scheme (same seed)', key, n, r)
                if key in UNDERLYING and UNDERLYING[key] in out and part == 'quantile':
                    u = out[UNDERLYING[key]]
                    want = norm.ppf(u)
                    dev = np.abs(x - want) / np.maximum(1.0, np.abs(want))
                    if not np.all(dev <= 1e-13):
                        i = int(np.argmax(dev))
                        bad('normal = standard normal quantile of the underlying uniform scheme', key, n, r,
                            u=float(u.flat[i]), got=float(x.flat[i]), want=float(want.flat[i]))
                if 'MLHS' in key and (part == 'quantile') == key.startswith('NORMAL'):
                    y = x[:, :h] if key.endswith('_ANTI') else x
                    if key.startswith('UNIFORMSYM'):
                        y = (y + 1.0) / 2.0
                    if key.startswith('NORMAL'):
                        y = norm.cdf(y)
                    t = y.size
                    strata = np.sort(np.floor(y.flatten() * t + 1e-9 * (key.startswith('NORMAL'))).astype(int))
                    if not np.array_equal(strata, np.arange(t)):
                        bad('MLHS: exactly one point per stratum', key, n, r)
            # entries advertising different bases yield different sequences
            for fam in ('UNIFORM', 'UNIFORMSYM', 'NORMAL'):
                for b1, b2 in ((2, 3), (2, 5), (3, 5)):
                    cases += 1
                    if r * n >= 2 and np.array_equal(out[f'{fam}_HALTON{b1}'], out[f'{fam}_HALTON{b2}']):
                        bad('different bases yield different sequences', f'{fam}_HALTON{b1} vs {fam}_HALTON{b2}', n, r)
    return cases, fails


def mode_structure_quantile(tier, seed):
    return mode_structure(tier, seed, part='quantile')


def grid(tier):
    pts = [10.0 ** e for e in range(-300, -4)]
    pts += list(np.logspace(-12, -10, 41))                        # around exp(-25), the split at r = 5
    pts += [math.exp(-25.0) * f for f in (0.999999, 1.0, 1.000001)]
    m = 4001 if tier == 'quick' else 400001
    pts += list(np.linspace(0.0, 1.0, m)[1:-1])
    pts += [0.075 + d for d in (-1e-12, 0.0, 1e-12)] + [0.925 + d for d in (-1e-12, 0.0, 1e-12)]
    pts += [0.5, 0.5 - 1e-9, 0.5 + 1e-9, 0.45, 0.46, 0.55]
    pts += [1.0 - 10.0 ** e for e in range(-16, -4)]
    u = np.array(sorted(set(float(p) for p in pts if 0.0 < p < 1.0)))
    return u


def mode_quantile(tier, seed):
    from scipy.stats import norm
    from biogeme import draws
    from specs import c11_ppnd16 as S
    u = grid(tier)
    got = draws.get_normal_wichura_draws(1, u.size, uniform_numbers=u.copy())[0]
    want = norm.ppf(u)
    fails = []
    dev = np.abs(got - want) / np.maximum(1e-300, np.abs(want))
    dev[want == 0] = np.abs(got[want == 0])
    tol = 4e-15
    badi = np.nonzero(~(dev <= tol))[0]
    if badi.size:
        i = int(badi[np.argmax(dev[badi])])
        fails.append({'check': 'quantile vs scipy.stats.norm.ppf', 'n_bad': int(badi.size), 'u': float(u[i]), 'got': float(got[i]),
                      'want': float(want[i]), 'rel_dev': float(dev[i]), 'first_bad_u': float(u[badi[0]]), 'last_bad_u': float(u[badi[-1]])})
    ref = np.array([S.ppnd16(float(p)) for p in u])
    d2 = np.abs(got - ref) / np.maximum(1e-300, np.abs(ref))
    b2 = np.nonzero(~(d2 <= 1e-15))[0]
    if b2.size:
        i = int(b2[np.argmax(d2[b2])])
        fails.append({'check': 'code vs PPND16 transcription (same arithmetic)', 'n_bad': int(b2.size), 'u': float(u[i]), 'got': float(got[i]),
                      'want': float(ref[i]), 'rel_dev': float(d2[i])})
    # antithetic option: two mirrored halves of R/2 columns
    v = u[: (u.size // 6) * 6].copy()
    a = draws.get_normal_wichura_draws(3, 2 * (v.size // 3), uniform_numbers=v, antithetic=True)
    h = v.size // 3
    if a.shape != (3, 2 * h) or not np.array_equal(a[:, h:], -a[:, :h]):
        fails.append({'check': 'antithetic normal draws: (d, -d)'})
    return int(u.size) * 2 + 1, fails


def mode_transcription(tier, seed):
    from scipy.stats import norm
    from specs import c11_ppnd16 as S
    u = grid(tier)
    ref = np.array([S.ppnd16(float(p)) for p in u])
    want = norm.ppf(u)
    dev = np.abs(ref - want) / np.maximum(1e-300, np.abs(want))
    dev[want == 0] = np.abs(ref[want == 0])
    fails = []
    badi = np.nonzero(~(dev <= 4e-15))[0]
    if badi.size:
        i = int(badi[np.argmax(dev[badi])])
        fails.append({'check': 'PPND16 transcription vs scipy.stats.norm.ppf', 'n_bad': int(badi.size), 'u': float(u[i]),
                      'spec': float(ref[i]), 'scipy': float(want[i]), 'rel_dev': float(dev[i])})
    return int(u.size), fails


def mode_generate_draws(tier, seed):
    import pandas as pd
    import biogeme.database as db
    from biogeme.exceptions import BiogemeError
    from biogeme.native_draws import native_random_number_generators as cat
    fails, cases = [], 0
    for nrows in (1, 3, 8):
        df = pd.DataFrame({'a': np.arange(nrows, dtype=float), 'b': np.ones(nrows)})
        for r in (2, 6, 5):
            d = db.Database('c11', df.copy())
            for key in cat:
                cases += 1
                try:
                    x = d.generate_draws({'v': key, 'w': 'UNIFORM'}, ['v', 'w'], r)
                    if x.shape != (nrows, r, 2):
                        fails.append({'check': 'generate_draws result shape', 'key': key, 'rows': nrows, 'draws': r, 'got': str(x.shape)})
                    np.random.seed(5)
                    direct = cat[key].generator(nrows, r)
                    np.random.seed(5)
                    x = d.generate_draws({'v': key}, ['v'], r)
                    if not np.array_equal(x[:, :, 0], direct):
                        fails.append({'check': 'generate_draws returns the generator output per variable', 'key': key})
                except BiogemeError:
                    if r % 2 == 0 or not key.endswith('_ANTI'):
                        fails.append({'check': 'generate_draws refused a native type', 'key': key, 'rows': nrows, 'draws': r})
                else:
                    if r % 2 == 1 and key.endswith('_ANTI'):
                        fails.append({'check': 'odd number of antithetic draws accepted with a wrong shape', 'key': key, 'draws': r})
            # several variables of DIFFERENT types, the dictionary of types filled in another order than the list of names: slice k
            # of the table is what the generator advertised for names[k] delivers (deterministic Halton types, different bases)
            trio = {'b_first': 'UNIFORMSYM_HALTON3', 'a_second': 'UNIFORM_HALTON2', 'c_third': 'UNIFORM_HALTON5'}
            for names in (['a_second', 'b_first', 'c_third'], ['c_third', 'a_second', 'b_first']):
                cases += 1
                try:
                    x = db.Database('c11', df.copy()).generate_draws(dict(trio), list(names), 6)
                    for k_, nm_ in enumerate(names):
                        if not np.array_equal(x[:, :, k_], cat[trio[nm_]].generator(nrows, 6)):
                            fails.append({'check': 'slice k of generate_draws is the series advertised for names[k]', 'names': names,
                                          'types': trio, 'slice': k_})
                            break
                except Exception as e:
                    fails.append({'check': 'slice k of generate_draws is the series advertised for names[k]', 'names': names,
                                  'got': f'{type(e).__name__}: {str(e)[:150]}'})
            # user generators: any shape other than (rows, draws) must be refused, the right one accepted
            shapes = [(nrows, r), (nrows, r + 1), (nrows + 1, r), (r, nrows), (nrows * r,), (nrows, r, 1)]
            for shp in shapes:
                cases += 1
                d = db.Database('c11', df.copy())
                d.set_random_number_generators({'USER': (lambda n, k, shp=shp: np.zeros(shp), 'user generator')})
                try:
                    x = d.generate_draws({'v': 'USER'}, ['v'], r)
                    accepted = True
                except BiogemeError:
                    accepted = False
                if accepted != (tuple(shp) == (nrows, r)):
                    fails.append({'check': 'shape enforcement for a user generator', 'returned_shape': str(shp),
                                  'expected_shape': str((nrows, r)), 'accepted': accepted})
            cases += 1
            d = db.Database('c11', df.copy())
            try:
                d.generate_draws({'v': 'NO_SUCH_TYPE'}, ['v'], r)
                fails.append({'check': 'unknown draw type accepted'})
            except BiogemeError:
                pass
    return cases, fails


def main():
    mode, tier, seed = sys.argv[1], sys.argv[2], int(sys.argv[3])
    try:
        cases, fails = globals()['mode_' + mode](tier, seed)
    except Exception as e:          # a comparison broke down on what the generators returned (e.g. arrays of another shape)
        import traceback
        cases, fails = 1, [{'check': 'the generators return arrays the structural checks can be evaluated on',
                            'got': f'{type(e).__name__}: {str(e)[:200]}', 'where': traceback.format_exc()[-400:]}]
    print(json.dumps({'cases': cases, 'failures': fails[:20]}, default=str))
    return 1 if fails else 0


if __name__ == '__main__':
    sys.exit(main())
