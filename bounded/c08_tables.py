"""C08 (extension): every cell of every tabular view against the raw fields (real code, /venv python).

Bounded stand-in for the pandas-based views of results.py that are outside the engine's subset, and replay of the
static obligations of specs/c08_static.py.  Results objects come from c08_native.make_results (K parameters, random
negative-definite Hessian, BHHH, optional null likelihood / bootstrap sample) and are used in two ways:

  computed : after the real `_calculate_stats`; the cells are compared with an independent recomputation from the
             family's own matrix (classical / robust / bootstrap), so a column fed from another family is visible;
  sentinel : every raw field (each statistic of each parameter, every matrix entry -- matrices NOT symmetric --, every
             entry of the pairwise table, every general statistic) is overwritten with a value that occurs nowhere
             else, so that any mix-up of two fields, a transposition, or a wrong position shows in the cell.

usage: c08_tables.py views|compiled|lrtest <cases> <seed>      -> one JSON line {"cases": cells, "failures": [...]}
Bounds: `cases` generated results objects per mode, K in 1..4(views) / 1..3 (compiled: 3 models per table), all
combinations of only_robust, bootstrap, active bound, null likelihood, Monte-Carlo; compiled tables: all 16 combinations
of formatted / include_robust_stderr / include_robust_ttest / use_short_names; likelihood-ratio test: a grid of
(L, K) pairs x 3 significance levels, both argument orders, ties excluded (ties are decided deductively).
"""
import datetime
import json
import math
import os
import shutil
import sys
import tempfile

import numpy as np

sys.path.insert(0, os.path.dirname(os.path.abspath(__file__)))
import c08_native  # noqa: E402
from c08_native import close, make_results, pval  # noqa: E402

FMAX = np.finfo(float).max
BETA_FIELDS = ['value', 'stdErr', 'tTest', 'pValue', 'robust_stdErr', 'robust_tTest', 'robust_pValue',
               'bootstrap_stdErr', 'bootstrap_tTest', 'bootstrap_pValue']
FAMILIES = [('', 'varCovar', 'correlation'), ('robust_', 'robust_varCovar', 'robust_correlation'),
            ('bootstrap_', 'bootstrap_varCovar', 'bootstrap_correlation')]

# label -> (raw field of results.data, present when)
GENERAL = {
    'Number of estimated parameters': ('nparam', lambda d: True),
    'Sample size': ('sampleSize', lambda d: True),
    'Observations': ('numberOfObservations', lambda d: d.sampleSize != d.numberOfObservations),
    'Excluded observations': ('excludedData', lambda d: True),
    'Null log likelihood': ('nullLogLike', lambda d: d.nullLogLike is not None),
    'Init log likelihood': ('initLogLike', lambda d: True),
    'Final log likelihood': ('logLike', lambda d: True),
    'Likelihood ratio test for the null model': ('likelihoodRatioTestNull', lambda d: d.nullLogLike is not None),
    'Rho-square for the null model': ('rhoSquareNull', lambda d: d.nullLogLike is not None),
    'Rho-square-bar for the null model': ('rhoBarSquareNull', lambda d: d.nullLogLike is not None),
    'Likelihood ratio test for the init. model': ('likelihoodRatioTest', lambda d: True),
    'Rho-square for the init. model': ('rhoSquare', lambda d: True),
    'Rho-square-bar for the init. model': ('rhoBarSquare', lambda d: True),
    'Akaike Information Criterion': ('akaike', lambda d: True),
    'Bayesian Information Criterion': ('bayesian', lambda d: True),
    'Final gradient norm': ('gradientNorm', lambda d: True),
    'Number of draws': ('numberOfDraws', lambda d: bool(d.monte_carlo)),
    'Draws generation time': ('drawsProcessingTime', lambda d: bool(d.monte_carlo)),
    'Bootstrapping time': ('bootstrap_time', lambda d: d.bootstrap is not None),
    'Nbr of threads': ('numberOfThreads', lambda d: True),
}


# ------------------------------------------------------------------------------------------------
# results objects
# ------------------------------------------------------------------------------------------------
def build(rng, K, with_null, with_boot, active_bound, monte_carlo, sentinel, offset=0.0, model_name='m', same_obs=False):
    res = make_results(rng, K, with_null=with_null, with_boot=with_boot)
    d = res.data
    d.modelName = model_name
    d.numberOfObservations = d.sampleSize if same_obs else 61
    d.excludedData = 3
    d.gradientNorm = 0.0195 + offset
    d.numberOfThreads = 5
    d.monte_carlo = monte_carlo
    d.numberOfDraws = 211
    d.drawsProcessingTime = datetime.timedelta(seconds=22)
    d.typesOfDraws = {'xi': 'NORMAL_MLHS', 'eta': 'UNIFORM'}
    d.bootstrap_time = datetime.timedelta(seconds=23) if with_boot else None
    d.logLike = -100.125 - offset
    d.initLogLike = -120.5 - offset
    if with_null:
        d.nullLogLike = -140.25 - offset
    res._calculate_stats()
    if sentinel:
        d.likelihoodRatioTestNull, d.likelihoodRatioTest = (11.5 + offset if with_null else None), 12.5 + offset
        d.rhoSquareNull, d.rhoSquare = (0.13 + offset if with_null else None), 0.14 + offset
        d.rhoBarSquareNull, d.rhoBarSquare = (0.15 + offset if with_null else None), 0.16 + offset
        d.akaike, d.bayesian = 17.5 + offset, 18.5 + offset
        for i, b in enumerate(d.betas):
            for f, fld in enumerate(BETA_FIELDS):
                if fld.startswith('bootstrap_') and not with_boot:
                    continue
                setattr(b, fld, (f + 1) + 0.01 + 0.1 * i + offset)
            d.betaValues[i] = b.value
        for f, (pre, mname, cname) in enumerate(FAMILIES):
            if pre == 'bootstrap_' and not with_boot:
                continue
            setattr(d, mname, np.array([[100.0 * (f + 1) + 10 * i + j + offset for j in range(K)] for i in range(K)]))
            setattr(d, cname, np.array([[100.0 * (f + 4) + 10 * i + j + offset for j in range(K)] for i in range(K)]))
        npos = 12 if with_boot else 8
        for q, key in enumerate(list(d.secondOrderTable)):
            d.secondOrderTable[key] = [10000.0 + 100 * q + p + offset for p in range(npos)]
    if active_bound:
        d.betas[0].lb = d.betas[0].value
        if K > 2:
            d.betas[2].ub = d.betas[2].value + 5e-7
    return res


def eq(a, b):
    """cell == raw field (floats up to rounding; everything else identical)"""
    if a is None or b is None:
        return a is None and b is None
    if isinstance(b, (int, float, np.integer, np.floating)) and not isinstance(b, bool):
        try:
            return close(a, b)
        except (TypeError, ValueError):
            return False
    return a == b


class Sink:
    def __init__(self):
        self.cells = 0
        self.failures = []
        self.per_check = {}

    def need(self, check, case, got, want, what):
        self.cells += 1
        ok = False
        try:
            ok = eq(got, want)
        except Exception:
            ok = False
        if not ok:
            self.fail(check, case, f'{what}: cell holds {got!r}, the quantity its label names is {want!r}')

    def fail(self, check, case, detail):
        # at most 3 records per check label, so that every kind of mismatch stays visible
        self.per_check[check] = self.per_check.get(check, 0) + 1
        if self.per_check[check] <= 3 and len(self.failures) < 60:
            self.failures.append({'check': check, 'case': case, 'detail': detail})


# ------------------------------------------------------------------------------------------------
# views of one results object
# ------------------------------------------------------------------------------------------------
def family_reference(res, computed):
    """per family: list over parameters of (stdErr, tTest, pValue) -- recomputed from the family's matrix when
    `computed`, else the raw fields themselves"""
    d = res.data
    out = {}
    for pre, mname, _ in FAMILIES:
        if pre == 'bootstrap_' and d.bootstrap is None:
            continue
        rows = []
        M = np.asarray(getattr(d, mname))
        for i, b in enumerate(d.betas):
            if computed:
                se = FMAX if M[i, i] < 0 else math.sqrt(M[i, i])
                t = FMAX if se == 0 else b.value / se
                rows.append((se, t, pval(t)))
            else:
                rows.append((getattr(b, pre + 'stdErr'), getattr(b, pre + 'tTest'), getattr(b, pre + 'pValue')))
        out[pre] = rows
    return out


def check_estimated_parameters(res, computed, case, sink):
    d = res.data
    ref = family_reference(res, computed)
    any_active = any(b.is_bound_active() for b in d.betas)
    for only_robust in (True, False):
        c = dict(case, view='get_estimated_parameters', only_robust=only_robust)
        table = res.get_estimated_parameters(only_robust=only_robust)
        want = {'Value': [b.value for b in d.betas]}
        if any_active:
            want['Active bound'] = [1.0 if b.is_bound_active() else 0.0 for b in d.betas]
        fams = [('Rob. ', 'robust_')] if only_robust else [('', ''), ('Rob. ', 'robust_')]
        for lab, pre in fams:
            want[lab + 'Std err'] = [r[0] for r in ref[pre]]
            want[lab + 't-test'] = [r[1] for r in ref[pre]]
            want[lab + 'p-value'] = [r[2] for r in ref[pre]]
        if d.bootstrap is not None and not only_robust:
            want[f'Bootstrap[{len(d.bootstrap)}] Std err'] = [r[0] for r in ref['bootstrap_']]
            want['Bootstrap t-test'] = [r[1] for r in ref['bootstrap_']]
            want['Bootstrap p-value'] = [r[2] for r in ref['bootstrap_']]
        sink.cells += 1
        if sorted(table.columns) != sorted(want):
            sink.fail('estimated_parameters:columns', c, f'columns {list(table.columns)}, expected {list(want)}')
            continue
        sink.cells += 1
        if list(table.index) != [b.name for b in d.betas]:
            sink.fail('estimated_parameters:rows', c, f'rows {list(table.index)}, expected {[b.name for b in d.betas]}')
            continue
        for label, col in want.items():
            for i, b in enumerate(d.betas):
                sink.need(f'estimated_parameters:{label.split("[")[0] if label.startswith("Bootstrap[") else label}',
                          c, table.loc[b.name, label], col[i], f'row {b.name}, column {label!r}')


CORR_LABELS = [('Covariance', 'Correlation', 't-test', 'p-value'), ('Rob. cov.', 'Rob. corr.', 'Rob. t-test', 'Rob. p-value'),
               ('Boot. cov.', 'Boot. corr.', 'Boot. t-test', 'Boot. p-value')]


def check_correlation_results(res, computed, case, sink):
    d = res.data
    K = d.nparam
    for subset in (None, d.betaNames[:-1] if K > 2 else None, [d.betaNames[0], 'unknown_name']):
        if subset is None and case.get('_did_none'):
            continue
        c = dict(case, view='get_correlation_results', subset=subset)
        c.pop('_did_none', None)
        if subset is None:
            case['_did_none'] = True
        table = res.get_correlation_results(subset=subset)
        nf = 3 if d.bootstrap is not None else 2
        want_cols = [l for f in range(nf) for l in CORR_LABELS[f]]
        sink.cells += 1
        if sorted(table.columns) != sorted(want_cols):
            sink.fail('correlation_results:columns', c, f'columns {list(table.columns)}, expected {want_cols}')
            continue
        pairs = [(i, j) for i in range(K) for j in range(i)
                 if subset is None or (d.betaNames[i] in subset and d.betaNames[j] in subset)]
        sink.cells += 1
        if sorted(table.index) != sorted(f'{d.betaNames[i]}-{d.betaNames[j]}' for i, j in pairs):
            sink.fail('correlation_results:rows', c, f'rows {list(table.index)} for pairs {pairs}')
            continue
        for i, j in pairs:
            row = f'{d.betaNames[i]}-{d.betaNames[j]}'
            raw = d.secondOrderTable[(d.betaNames[i], d.betaNames[j])]
            for f in range(nf):
                pre, mname, cname = FAMILIES[f]
                if computed:
                    M = np.asarray(getattr(d, mname))
                    r = M[i, i] + M[j, j] - 2 * M[i, j]
                    vals = [M[i, j], np.asarray(getattr(d, cname))[i, j]]
                    if abs(r) >= 1e-7 * (abs(M[i, i]) + abs(M[j, j])):
                        t = FMAX if r <= 0 else (d.betaValues[i] - d.betaValues[j]) / math.sqrt(r)
                        vals += [t, pval(t)]
                else:
                    vals = raw[4 * f:4 * f + 4]
                for label, v in zip(CORR_LABELS[f], vals):
                    sink.need(f'correlation_results:{label}', c, table.loc[row, label], v, f'row {row}, column {label!r}')
    case.pop('_did_none', None)


def check_general_statistics(res, case, sink):
    d = res.data
    c = dict(case, view='get_general_statistics')
    gs = res.get_general_statistics()
    nf = sum(1 for b in d.betas if not b.is_bound_active())
    for label, (fld, when) in GENERAL.items():
        sink.cells += 1
        if when(d) != (label in gs):
            sink.fail(f'general_statistics:{label}', c, f'row {"missing" if when(d) else "present although its quantity does not exist"}')
        elif label in gs:
            sink.need(f'general_statistics:{label}', c, gs[label][0], getattr(d, fld), f'row {label!r}')
    sink.cells += 1
    if (nf != d.nparam) != ('Number of free parameters' in gs):
        sink.fail('general_statistics:Number of free parameters', c, 'presence')
    elif nf != d.nparam:
        sink.need('general_statistics:Number of free parameters', c, gs['Number of free parameters'][0], nf, 'row free parameters')
    if d.monte_carlo:
        sink.need('general_statistics:Types of draws', c, sorted(gs.get('Types of draws', (None,))[0] or []),
                  sorted(f'{k}: {v}' for k, v in d.typesOfDraws.items()), 'row types of draws')
    known = set(GENERAL) | {'Number of free parameters', 'Types of draws'}
    for label in gs:
        sink.cells += 1
        if label not in known:
            sink.fail(f'general_statistics:{label}', c, 'label without a specified quantity (extend GENERAL)')
    # the printed form: one line per row, "<label>:\t<value in the row's own format>"
    lines = res.print_general_statistics().splitlines()
    want = [f'{k}:\t{v[0]:{v[1]}}' for k, v in gs.items()]
    sink.need('general_statistics:printed', c, lines, want, 'print_general_statistics')


def check_var_covar(res, case, sink):
    d = res.data
    for view, mname in (('get_var_covar', 'varCovar'), ('get_robust_var_covar', 'robust_varCovar'),
                        ('get_bootstrap_var_covar', 'bootstrap_varCovar')):
        c = dict(case, view=view)
        df = getattr(res, view)()
        if mname == 'bootstrap_varCovar' and d.bootstrap is None:
            sink.need(f'{view}', c, df, None, 'no bootstrap sample')
            continue
        M = np.asarray(getattr(d, mname))
        names = [b.name for b in d.betas]
        sink.cells += 1
        if df is None or list(df.index) != names or list(df.columns) != names:
            sink.fail(view, c, f'index/columns differ from the parameter names {names}')
            continue
        for i, ni in enumerate(names):
            for j, nj in enumerate(names):
                sink.need(view, c, df.loc[ni, nj], M[i, j], f'cell [{ni}, {nj}]')


VIEWS = {'estimated_parameters': lambda r, comp, c, s: check_estimated_parameters(r, comp, c, s),
         'correlation_results': lambda r, comp, c, s: check_correlation_results(r, comp, c, s),
         'general_statistics': lambda r, comp, c, s: check_general_statistics(r, c, s),
         'var_covar': lambda r, comp, c, s: check_var_covar(r, c, s)}


def run_views(cases=8, seed=0, only=None):
    rng = np.random.default_rng(seed + 808)
    sink = Sink()
    for c in range(cases):
        K = 1 + c % 4
        cfg = dict(K=K, with_null=c % 3 != 1, with_boot=c % 2 == 0, active_bound=c % 4 in (2, 3),
                   monte_carlo=c % 5 in (0, 3), same_obs=c % 3 == 0)
        for sentinel in (True, False):
            res = build(rng, sentinel=sentinel, **cfg)
            case = dict(cfg, case=c, mode='sentinel' if sentinel else 'computed')
            for name, fn in VIEWS.items():
                if only is None or only == name:
                    try:
                        fn(res, not sentinel, case, sink)
                    except Exception as e:      # a view that raises on a legal results object
                        sink.fail(f'{name}:raised', case, f'{type(e).__name__}: {e}')
    return sink.cells, sink.failures


# ------------------------------------------------------------------------------------------------
# tables compiled across several models
# ------------------------------------------------------------------------------------------------
STD_ROW = (' (std)',)
T_ROW = (' (t-test)', ' (ttest)')


def check_compiled(models, kw, df, configurations, case, sink, stats):
    """models: name -> results object whose raw fields are the reference."""
    c = dict(case, **{k: v for k, v in kw.items() if k != 'statistics'})
    col_of = {orig: short for short, orig in configurations.items()}
    sink.cells += 1
    if sorted(col_of) != sorted(models) or sorted(df.columns) != sorted(configurations):
        sink.fail('compile:columns', c, f'columns {list(df.columns)}, configurations {configurations}, models {list(models)}')
        return
    if not kw['use_short_names']:
        sink.need('compile:columns', c, col_of, {m: m for m in models}, 'column names')
    expected_rows = {}
    for s in stats:
        expected_rows[s] = {m: r.get_general_statistics()[s][0] for m, r in models.items()}
    check_of = {s: f'compile:statistic:{s}' for s in stats}
    se, tt, formatted = kw['include_robust_stderr'], kw['include_robust_ttest'], kw['formatted']
    alt_rows = {}
    if kw.get('include_parameter_estimates', True):
        for m, r in models.items():
            for b in r.data.betas:
                if formatted:
                    toks = [f'{b.value:.3g}']
                    if b.robust_stdErr is None:
                        toks = None          # second-order statistics not available: '(???)' marks, not checked
                    else:
                        toks += ([f'({b.robust_stdErr:.3g})'] if se else []) + ([f'({b.robust_tTest:.3g})'] if tt else [])
                    title = b.name + (' (std)' if se else '') + (' (t-test)' if tt else '')
                    expected_rows.setdefault(title, {})[m] = ('tokens', toks)
                    check_of[title] = 'compile:formatted:' + ('value' + ('+(std)' if se else '') + ('+(t-test)' if tt else ''))
                    if tt:
                        alt_rows[b.name + (' (std)' if se else '') + ' (ttest)'] = title
                else:
                    expected_rows.setdefault(b.name, {})[m] = b.value
                    check_of[b.name] = 'compile:unformatted:value-row'
                    if se:
                        expected_rows.setdefault(b.name + ' (std)', {})[m] = b.robust_stdErr
                        check_of[b.name + ' (std)'] = 'compile:unformatted:(std)-row'
                    if tt:
                        expected_rows.setdefault(b.name + ' (ttest)', {})[m] = b.robust_tTest
                        check_of[b.name + ' (ttest)'] = 'compile:unformatted:(ttest)-row'
                        alt_rows[b.name + ' (t-test)'] = b.name + ' (ttest)'
    present = {alt_rows.get(r, r): r for r in df.index}
    for row in df.index:
        sink.cells += 1
        if alt_rows.get(row, row) not in expected_rows:
            sink.fail('compile:rows', c, f'row {row!r} names no requested quantity')
    for row, per_model in expected_rows.items():
        sink.cells += 1
        if row not in present:
            sink.fail(check_of[row], c, f'row {row!r} is missing')
            continue
        for m in models:
            cell = df.loc[present[row], col_of[m]]
            if m not in per_model:
                sink.need(check_of[row], c, cell, '', f'row {row!r}, model {m} (parameter not in this model)')
                continue
            want = per_model[m]
            if isinstance(want, tuple) and want[0] == 'tokens':
                if want[1] is not None:
                    sink.need(check_of[row], c, str(cell).split(), want[1], f'row {row!r}, model {m}')
            else:
                sink.need(check_of[row], c, cell, want, f'row {row!r}, model {m}')


DEFAULT_STATS = ('Number of estimated parameters', 'Sample size', 'Final log likelihood', 'Akaike Information Criterion',
                 'Bayesian Information Criterion')
MORE_STATS = ('Bayesian Information Criterion', 'Akaike Information Criterion', 'Init log likelihood',
              'Rho-square-bar for the init. model', 'Likelihood ratio test for the init. model', 'Final gradient norm')


def run_compiled(cases=3, seed=0, directory=True):
    from biogeme.results import compile_estimation_results, compile_results_in_directory
    rng = np.random.default_rng(seed + 909)
    sink = Sink()
    for c in range(cases):
        sentinel = c % 3 != 2
        models = {}
        for m in range(3):
            K = 1 + (c + m) % 3
            models[f'spec {m}: K={K}'] = build(rng, K, with_null=m != 1, with_boot=(c + m) % 2 == 0, active_bound=False,
                                               monte_carlo=False, sentinel=sentinel, offset=20.0 * m, model_name=f'model{m}')
        case = dict(case=c, mode='sentinel' if sentinel else 'computed', K=[r.data.nparam for r in models.values()])
        for formatted in (True, False):
            for se in (False, True):
                for tt in (False, True):
                    for short in (False, True):
                        kw = dict(formatted=formatted, include_robust_stderr=se, include_robust_ttest=tt, use_short_names=short)
                        stats = DEFAULT_STATS
                        args = dict(kw)
                        if (se + tt + short) % 2 == 1:
                            stats = MORE_STATS
                            args['statistics'] = MORE_STATS
                        try:
                            df, conf = compile_estimation_results(dict(models), **args)
                        except Exception as e:
                            sink.fail('compile:raised', dict(case, **kw), f'{type(e).__name__}: {e}')
                            continue
                        check_compiled(models, kw, df, conf, case, sink, stats)
        # without parameter estimates: only the statistics rows
        df, conf = compile_estimation_results(dict(models), include_parameter_estimates=False)
        check_compiled(models, dict(formatted=True, include_robust_stderr=False, include_robust_ttest=True, use_short_names=False,
                                    include_parameter_estimates=False), df, conf, case, sink, DEFAULT_STATS)
    if directory:
        # results found as pickle files in the working directory (re-read, statistics recomputed by the real code)
        from biogeme.results import bioResults
        work = tempfile.mkdtemp(prefix='c08-tables-')
        here = os.getcwd()
        try:
            os.chdir(work)
            refs = {}
            for m in range(2):
                r = build(rng, 2 + m, with_null=True, with_boot=m == 1, active_bound=False, monte_carlo=False,
                          sentinel=False, offset=7.0 * m, model_name=f'dirmodel{m}')
                fn = r.write_pickle()
                refs[fn] = bioResults(pickle_file=fn, identification_threshold=1e-5)
            for formatted in (True, False):
                for se, tt in ((True, True), (False, True), (True, False)):
                    kw = dict(formatted=formatted, include_robust_stderr=se, include_robust_ttest=tt, use_short_names=False)
                    case = dict(case='directory', mode='computed', files=sorted(refs))
                    try:
                        out = compile_results_in_directory(statistics=MORE_STATS, include_parameter_estimates=True,
                                                           include_robust_stderr=se, include_robust_ttest=tt, formatted=formatted)
                    except Exception as e:
                        sink.fail('compile:directory:raised', dict(case, **kw), f'{type(e).__name__}: {e}')
                        continue
                    sink.cells += 1
                    if out is None:
                        sink.fail('compile:directory', dict(case, **kw), 'no table although pickle files exist')
                        continue
                    df, conf = out
                    check_compiled(refs, kw, df, conf, case, sink, MORE_STATS)
        finally:
            os.chdir(here)
            shutil.rmtree(work, ignore_errors=True)
    return sink.cells, sink.failures


# ------------------------------------------------------------------------------------------------
# likelihood-ratio test
# ------------------------------------------------------------------------------------------------
def run_lrtest(cases=6, seed=0):
    from scipy.stats import chi2
    from biogeme.exceptions import BiogemeError
    from biogeme.tools.likelihood_ratio import likelihood_ratio_test
    rng = np.random.default_rng(seed + 1010)
    sink = Sink()
    pairs = [((-1340.8, 5), (-1338.49, 7)), ((-110.0, 3), (-100.0, 5)), ((-100.0, 3), (-110.0, 5)), ((-57.25, 1), (-57.0, 12))]
    for _ in range(cases):
        L = [float(x) for x in -rng.uniform(50, 500, size=2)]
        K = sorted(int(x) for x in rng.choice(np.arange(1, 15), size=2, replace=False))
        pairs.append(((L[0], K[0]), (L[1], K[1])))
    for a, b in pairs:
        for x, y in ((a, b), (b, a)):
            for s in (0.05, 0.1, 0.01):
                if x[1] == y[1] or x[0] == y[0]:
                    continue                        # ties: decided by the deductive contract (contracts/c08_lrtest.py)
                case = dict(model1=x, model2=y, significance_level=s)
                hi, lo = (x, y) if x[0] > y[0] else (y, x)
                consistent = hi[1] > lo[1]
                for how in ('function', 'method'):
                    c = dict(case, how=how)
                    try:
                        if how == 'function':
                            r = likelihood_ratio_test(x, y, s)
                        else:
                            rx = make_results(rng, 1)
                            ry = make_results(rng, 1)
                            rx.data.logLike, rx.data.nparam = x
                            ry.data.logLike, ry.data.nparam = y
                            r = rx.likelihood_ratio_test(ry, s)
                    except BiogemeError:
                        sink.cells += 1
                        if consistent:
                            sink.fail('lrtest:refused', c, 'BiogemeError although the model with more parameters has the higher likelihood')
                        continue
                    sink.cells += 1
                    if not consistent:
                        sink.fail('lrtest:accepted', c, f'{tuple(r)}: the model with more parameters has the LOWER likelihood, no BiogemeError')
                        continue
                    stat = -2 * (lo[0] - hi[0])
                    thr = float(chi2.ppf(1 - s, hi[1] - lo[1]))
                    sink.need('lrtest:statistic', c, r.statistic, stat, 'statistic = -2 (L_restricted - L_unrestricted)')
                    sink.need('lrtest:threshold', c, r.threshold, thr, f'threshold = chi2.ppf({1 - s}, {hi[1] - lo[1]})')
                    sink.need('lrtest:verdict', c, r.message,
                              f'H0 {"cannot" if stat <= thr else "can"} be rejected at level {100 * s:.1f}%', 'verdict')
    return sink.cells, sink.failures


if __name__ == '__main__':
    mode = sys.argv[1] if len(sys.argv) > 1 else 'views'
    cases = int(sys.argv[2]) if len(sys.argv) > 2 else 8
    seed = int(sys.argv[3]) if len(sys.argv) > 3 else 0
    import logging
    logging.disable(logging.CRITICAL)
    import warnings
    warnings.simplefilter('ignore')
    n, bad = {'views': run_views, 'compiled': run_compiled, 'lrtest': run_lrtest}[mode](cases, seed)
    print(json.dumps({'cases': n, 'failures': bad}, default=str))
    sys.exit(1 if bad else 0)
