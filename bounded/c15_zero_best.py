"""C15: histories whose best value is exactly 0.0 (or -0.0): the marker protocol must not treat a
best value of zero as "no best yet"."""
import json
import os
import shutil
import sys
import tempfile
import warnings

warnings.simplefilter('ignore')


def main():
    import pandas as pd
    from biogeme.biogeme import BIOGEME
    from biogeme.database import Database
    from biogeme.expressions import Beta, Variable
    from biogeme.parameters import Parameters
    work = tempfile.mkdtemp(prefix='c15zero-')
    cwd = os.getcwd()
    os.chdir(work)
    fails, cases = [], 0
    try:
        db = Database('d', pd.DataFrame({'one': [1.0]}))
        b, c = Beta('b', 0.0, None, None, 0), Beta('c', 0.0, None, None, 0)
        ll = -((b - 1) ** 2) * Variable('one') - (c + 2) ** 2
        params = Parameters()
        params.set_value('save_iterations', True, section='Estimation')
        for history in ([(1.0, -2.0), (2.0, -2.0)], [(3.0, -2.0), (1.0, -2.0), (1.5, -2.0)], [(1.0, -2.0), (1.0, -1.0), (0.0, -2.0)]):
            cases += 1
            bio = BIOGEME(db, ll, parameters=params)
            bio.modelName = f'zero{cases}'
            name = bio._save_iterations_file_name()
            if os.path.exists(name):
                os.remove(name)
            best = None
            for (vb, vc) in history:
                out = bio.calculate_likelihood_and_derivatives([vb, vc], scaled=False, hessian=False, bhhh=False)
                f = out.function
                if best is None or f >= best[0]:
                    best = (f, (vb, vc))
                with open(name) as fh:
                    got = dict((l.rpartition(' = ')[0], float(l.rpartition(' = ')[2])) for l in fh.read().splitlines())
                want = {'b': best[1][0], 'c': best[1][1]}
                if got != want:
                    fails.append({'check': 'iteration file holds the best point so far (best value exactly 0.0 in the history)',
                                  'case': {'history': history, 'after': [vb, vc]}, 'expected': want, 'got': got})
                    break
    finally:
        os.chdir(cwd)
        shutil.rmtree(work, ignore_errors=True)
    print(json.dumps({'cases': cases, 'failures': fails}))
    return 1 if fails else 0


if __name__ == '__main__':
    sys.exit(main())
