"""Native recomputation of the C08 formulas on generated raw results (real code, /venv python).

Used (a) as the replay of failed/undecided obligations of results.py and (b) as a bounded
numeric stand-in in the thorough tier.  Bound: `cases` random raw outcomes with K in 1..4.
"""
import math
import sys

import numpy as np
from scipy import linalg, stats


def make_results(rng, K, with_null=True, with_boot=True, singular=False):
    from biogeme.results import RawResults, Beta, bioResults
    raw = object.__new__(RawResults)
    A = rng.normal(size=(K, K))
    H = -(A @ A.T + 0.5 * np.eye(K))
    if singular and K > 1:
        H[:, -1] = H[:, 0]
        H[-1, :] = H[0, :]
    G = rng.normal(size=(7, K))
    raw.modelName = 'm'
    raw.userNotes = None
    raw.nparam = K
    raw.betaValues = [float(x) for x in rng.normal(size=K)]
    raw.betaNames = [f'b{chr(97 + i)}' for i in range(K)]
    raw.initLogLike = -120.5
    raw.nullLogLike = -140.25 if with_null else None
    raw.betas = [Beta(n, v, (None, None)) for n, v in zip(raw.betaNames, raw.betaValues)]
    raw.logLike = -100.125
    raw.g = np.zeros(K)
    raw.H = H
    raw.bhhh = G.T @ G
    raw.dataname = 'd'
    raw.sampleSize = 57
    raw.numberOfObservations = 57
    raw.monte_carlo = False
    raw.numberOfDraws = 0
    raw.typesOfDraws = {}
    raw.excludedData = 0
    raw.gradientNorm = 0.0
    raw.optimizationMessages = {}
    raw.convergence = True
    raw.numberOfThreads = 1
    raw.htmlFileName = raw.F12FileName = raw.latexFileName = raw.pickleFileName = None
    raw.bootstrap = rng.normal(size=(9, K)) + np.array(raw.betaValues) if with_boot else None
    raw.bootstrap_time = None
    raw.secondOrderTable = None
    res = object.__new__(bioResults)
    res.identification_threshold = 1e-5
    res.data = raw
    return res


def pval(t):
    return 2.0 * (1.0 - stats.norm.cdf(abs(t)))


def close(a, b, tol=1e-9):
    a, b = float(a), float(b)
    if a == b:
        return True
    return abs(a - b) <= tol * max(1.0, abs(a), abs(b))


def check_stats(res):
    """Returns a list of (clause, detail) that do not follow the defining formula."""
    bad = []
    d = res.data
    K, L, N = d.nparam, d.logLike, d.sampleSize
    FMAX = np.finfo(float).max

    def need(name, got, want):
        if not close(got, want):
            bad.append((name, f'got {got!r}, formula gives {want!r}'))
    need('aic', d.akaike, 2 * K - 2 * L)
    need('bic', d.bayesian, -2 * L + K * math.log(N))
    need('lr_init', d.likelihoodRatioTest, -2 * (d.initLogLike - L))
    need('rho2', d.rhoSquare, 1 - L / d.initLogLike)
    need('rhobar2', d.rhoBarSquare, 1 - (L - K) / d.initLogLike)
    if d.nullLogLike is not None:
        need('lr_null', d.likelihoodRatioTestNull, -2 * (d.nullLogLike - L))
        need('rho2_null', d.rhoSquareNull, 1 - L / d.nullLogLike)
        need('rhobar2_null', d.rhoBarSquareNull, 1 - (L - K) / d.nullLogLike)
    V = -linalg.pinv(np.nan_to_num(d.H))
    R = V @ (d.bhhh @ V)
    fams = [('', 'varCovar', V, 'correlation'), ('robust_', 'robust_varCovar', R, 'robust_correlation')]
    if d.bootstrap is not None:
        fams.append(('bootstrap_', 'bootstrap_varCovar', np.cov(d.bootstrap, rowvar=False).reshape(K, K), 'bootstrap_correlation'))
    for pre, mname, M, cname in fams:
        got = np.asarray(getattr(d, mname)).reshape(K, K)
        if not np.allclose(got, M, rtol=1e-9, atol=1e-12):
            bad.append((mname, 'matrix differs from its defining formula'))
        for i, b in enumerate(d.betas):
            se = FMAX if M[i, i] < 0 else math.sqrt(M[i, i])
            t = FMAX if se == 0 else b.value / se
            need(f'{pre}stdErr[{i}]', getattr(b, pre + 'stdErr'), se)
            need(f'{pre}tTest[{i}]', getattr(b, pre + 'tTest'), t)
            need(f'{pre}pValue[{i}]', getattr(b, pre + 'pValue'), pval(t))
        if (np.diag(M) > 0).all():
            Dinv = np.diag(1 / np.sqrt(np.diag(M)))
            C = Dinv @ M @ Dinv
            if not np.allclose(np.asarray(getattr(d, cname)).reshape(K, K), C, rtol=1e-8, atol=1e-10):
                bad.append((cname, 'not the normalised covariance'))
    # pairwise table
    for i in range(K):
        for j in range(i):
            row = d.secondOrderTable[(d.betaNames[i], d.betaNames[j])]
            for f, (pre, mname, M, cname) in enumerate(fams):
                r = M[i, i] + M[j, j] - 2 * M[i, j]
                if abs(r) < 1e-7 * (abs(M[i, i]) + abs(M[j, j])):
                    continue      # cancellation: the quotient is numerically meaningless (A-REAL)
                t = FMAX if r <= 0 else (d.betaValues[i] - d.betaValues[j]) / math.sqrt(r)
                need(f'table[{i},{j}].{pre}cov', row[4 * f + 0], M[i, j])
                need(f'table[{i},{j}].{pre}corr', row[4 * f + 1], np.asarray(getattr(d, cname)).reshape(K, K)[i, j])
                need(f'table[{i},{j}].{pre}t', row[4 * f + 2], t)
                need(f'table[{i},{j}].{pre}p', row[4 * f + 3], pval(t))
    return bad


def run(cases=12, seed=0):
    rng = np.random.default_rng(seed + 12345)
    out = []
    n = 0
    for c in range(cases):
        K = 1 + c % 4
        res = make_results(rng, K, with_null=c % 3 != 0, with_boot=c % 2 == 0, singular=(c % 5 == 4))
        res._calculate_stats()
        n += 1
        bad = check_stats(res)
        if bad:
            out.append({'case': c, 'K': K, 'bad': bad[:5]})
    return n, out


if __name__ == '__main__':
    import json
    cases = int(sys.argv[1]) if len(sys.argv) > 1 else 12
    seed = int(sys.argv[2]) if len(sys.argv) > 2 else 0
    n, bad = run(cases, seed)
    print(json.dumps({'cases': n, 'failures': bad}, default=str))
    sys.exit(1 if bad else 0)
