"""C18 bounded stand-in: MDCEV forecasts solve the consumer problem (real code, /venv python).

For every variant x configuration (outside good, prices, scale) x labelling ({1,2,3}, {3,7,10}, {5,0,2};
c18_models) and `draws` Gumbel error draws (budgets 0.5 / 5 / 50 in turn), forecast_bisection_one_draw must give
  feasible      consumptions >= 0 that exhaust the budget (relative gap <= 1e-6), one entry per alternative
  outside       a positive consumption of the outside good when there is one
  kkt           equal marginal utility (reference derivative, specs/c18_diff) among consumed goods and a lower
                marginal utility at zero for the others; residual <= 1e-6 (relative)
  optimal       total utility >= that of forecast_bruteforce_one_draw (SLSQP) - 1e-6, on the first `brute` draws
  labels        the same consumptions, position by position, under the three labellings
  assumed-callee-contracts   (m3) sample test of the assumed contracts of identification_chosen_alternatives (deterministic) and
                optimal_consumption (new dict, one entry per alternative of the given set, total = function of the arguments)
Prints one JSON line {"cases": n, "failures": [...]}.
"""
import json
import math
import sys
import warnings

import numpy as np

import c18_models as M

BUDGETS = [0.5, 5.0, 50.0]
TOL = 1e-6


def forecast(model, spec, row, budget, eps_pos):
    """eps_pos is given position-wise (same economic draw under every labelling); the model wants it
    in the order of index_to_key."""
    eps = np.zeros(len(spec.labels))
    for pos, lab in enumerate(spec.labels):
        eps[model.key_to_index[lab]] = eps_pos[pos]
    return eps, model.forecast_bisection_one_draw(one_row_of_database=row, total_budget=budget, epsilon=eps)


def check_solution(spec, sol, budget, eps_pos):
    """list of (clause, detail) violated by the forecast `sol` (dict label -> consumption)."""
    bad = []
    labs = spec.labels
    if set(sol) != set(labs):
        return [('feasible', f'keys {sorted(sol)} instead of {sorted(labs)}')]
    x = [float(sol[lab]) for lab in labs]
    if any((not math.isfinite(v)) or v < -1e-9 for v in x):
        bad.append(('feasible', f'negative or non-finite consumption {x}'))
        return bad
    if abs(sum(x) - budget) > TOL * max(1.0, budget):
        bad.append(('feasible', f'sum of consumptions {sum(x)!r} != budget {budget}'))
    if spec.outside_pos is not None and not x[spec.outside_pos] > 0:
        bad.append(('outside', f'outside good {spec.outside_label} has consumption {x[spec.outside_pos]}'))
        return bad
    thr = 1e-9 * max(1.0, budget)
    cons = [i for i in range(len(x)) if x[i] > thr]
    zero = [i for i in range(len(x)) if x[i] <= thr]
    d_cons = [spec.ref_derivative(i, x[i], eps_pos[i]) for i in cons]
    if d_cons:
        lam = sum(d_cons) / len(d_cons)
        res = max(abs(v - lam) for v in d_cons) / max(1.0, abs(lam))
        if res > TOL:
            bad.append(('kkt', f'marginal utilities of consumed goods differ: {dict(zip([labs[i] for i in cons], d_cons))}'))
        for i in zero:
            if i == spec.outside_pos:
                continue
            d0 = spec.ref_derivative(i, 0.0, eps_pos[i])
            if d0 > lam + TOL * max(1.0, abs(lam)):
                bad.append(('kkt', f'good {labs[i]} is not consumed but its marginal utility at zero {d0} exceeds {lam}'))
    return bad


def assumed_callee_contracts(model, row, budget, eps):
    """(m3) sample test of the ASSUMED contracts the deductive contract of forecast_bisection_one_draw rests on
    (contracts/c18_mdcev.py): identification_chosen_alternatives is a deterministic function of its arguments;
    optimal_consumption returns a NEW dict with exactly one entry per alternative of the given set, leaves the set alone, and
    its total is a function of the arguments.  Returns a list of violated clauses."""
    bad = []
    a = model.identification_chosen_alternatives(database=row, total_budget=budget, epsilon=eps)
    b = model.identification_chosen_alternatives(database=row, total_budget=budget, epsilon=eps)
    if not (set(a[0]) == set(b[0]) and a[1] == b[1] and a[2] == b[2]):
        bad.append(f'identification_chosen_alternatives is not deterministic: {a} vs {b}')
    chosen, lo, up = a
    if lo <= up and math.isfinite(lo):
        dual = (lo + up) / 2 if math.isfinite(up) and up < 1e300 else max(2.0 * lo, 1.0)
        before = set(chosen)
        try:
            r1 = model.optimal_consumption(chosen_alternatives=chosen, dual_variable=dual, epsilon=eps, one_observation=row)
            r2 = model.optimal_consumption(chosen_alternatives=chosen, dual_variable=dual, epsilon=eps, one_observation=row)
        except Exception as e:      # noqa
            return bad + [f'optimal_consumption raised {type(e).__name__}: {e}']
        if not isinstance(r1, dict) or set(r1) != before:
            bad.append(f'optimal_consumption: keys {sorted(r1)} for the set {sorted(before)}')
        if r1 is r2 or r1 is chosen:
            bad.append('optimal_consumption does not return a new dict')
        if set(chosen) != before:
            bad.append('optimal_consumption changed the set it was given')
        if not (sum(r1.values()) == sum(r2.values()) or (math.isnan(sum(r1.values())) and math.isnan(sum(r2.values())))):
            bad.append(f'optimal_consumption: total differs between two identical calls: {r1} vs {r2}')
    return bad


def total_utility(spec, sol, eps_pos):
    tot = 0.0
    for i, lab in enumerate(spec.labels):
        x = max(float(sol[lab]), 0.0)
        if x == 0.0 and i == spec.outside_pos:
            return -math.inf
        tot += spec.ref_utility(i, x, eps_pos[i])
    return tot


class _Results:
    """the part of estimation results that the forecasting code reads: the parameter values"""

    def __init__(self, betas):
        self._betas = dict(betas)

    def get_beta_values(self, *a, **k):
        return dict(self._betas)


def run(draws=20, seed=0, brute=3, variants=None, limit=15):
    rng = np.random.default_rng(seed + 99)
    row = M.one_row()
    out = []
    n = 0

    def bad(kind, spec, draw, budget, eps_pos, detail):
        if len(out) < limit:
            out.append({'check': kind, **spec.describe(), 'draw': draw, 'budget': budget,
                        'epsilon_by_position': [round(float(e), 6) for e in eps_pos], 'detail': str(detail)[:400]})

    specs = list(M.all_specs(variants, seed=seed))
    for g in range(0, len(specs), len(M.LABELLINGS)):
        group = specs[g:g + len(M.LABELLINGS)]            # the same economic model under the three labellings
        models = [s.build() for s in group]
        eps_all = rng.gumbel(loc=0, scale=1, size=(draws, len(group[0].labels)))
        for d in range(draws):
            budget = BUDGETS[d % len(BUDGETS)]
            eps_pos = eps_all[d]
            sols = []
            for spec, model in zip(group, models):
                n += 1
                try:
                    with warnings.catch_warnings():
                        warnings.simplefilter('ignore')
                        eps, sol = forecast(model, spec, row, budget, eps_pos)
                except Exception as e:      # noqa
                    bad('forecast raised', spec, d, budget, eps_pos, f'{type(e).__name__}: {e}')
                    sols.append(None)
                    continue
                sol = dict(sol)             # a snapshot: later calls must not be able to change what is compared below
                sols.append(sol)
                for clause, detail in check_solution(spec, sol, budget, eps_pos):
                    bad(clause, spec, d, budget, eps_pos, detail)
                n += 1
                try:
                    with warnings.catch_warnings():
                        warnings.simplefilter('ignore')
                        for detail in assumed_callee_contracts(model, row, budget, eps):
                            bad('assumed-callee-contracts', spec, d, budget, eps_pos, detail)
                except Exception as e:      # noqa
                    bad('assumed-callee-contracts', spec, d, budget, eps_pos, f'{type(e).__name__}: {e}')
                if d < brute:
                    n += 1
                    try:
                        with warnings.catch_warnings():
                            warnings.simplefilter('ignore')
                            bf = model.forecast_bruteforce_one_draw(one_row_database=row, total_budget=budget, epsilon=eps)
                    except Exception as e:      # noqa
                        bf = None
                    if bf is not None and abs(sum(bf.values()) - budget) <= 1e-6 * max(1.0, budget) \
                            and all(v >= -1e-9 for v in bf.values()):
                        ua, ub = total_utility(spec, sol, eps_pos), total_utility(spec, bf, eps_pos)
                        if math.isfinite(ub) and not ua >= ub - TOL * max(1.0, abs(ub)):
                            bad('optimal', spec, d, budget, eps_pos,
                                f'utility of the forecast {ua} < utility of the brute-force solution {ub}: {sol} vs {bf}')
            # history: the same model then forecasts another observation (a one-row database of the same name with another
            # value of z), then the first observation again; each forecast solves the problem of its own observation
            if d == 0:
                import copy
                import pandas as pd
                from biogeme.database import Database
                dz = 1.5
                row2 = Database(row.name, pd.DataFrame([dict(M.ROW, z=M.ROW['z'] + dz)]))
                for spec, model, first in zip(group, models, sols):
                    if first is None:
                        continue
                    spec2 = copy.copy(spec)
                    spec2.V = [v + 0.3 * (i + 1) * dz for i, v in enumerate(spec.V)]
                    n += 2
                    try:
                        with warnings.catch_warnings():
                            warnings.simplefilter('ignore')
                            _, sol2 = forecast(model, spec, row2, budget, eps_pos)
                            _, again = forecast(model, spec, row, budget, eps_pos)
                    except Exception as e:      # noqa
                        bad('history: forecast raised', spec, d, budget, eps_pos, f'{type(e).__name__}: {e}')
                        continue
                    for clause, detail in check_solution(spec2, dict(sol2), budget, eps_pos):
                        bad('history(second observation, same database name): ' + clause, spec, d, budget, eps_pos, detail)
                    if not all(M.close(float(first[lab]), float(again[lab]), 1e-7, 1e-9 * budget) for lab in spec.labels):
                        bad('history(first observation again)', spec, d, budget, eps_pos, f'{first} then {dict(again)}')
            # history: new estimation results are given to the model, which then forecasts the SAME one-row database object:
            # the forecast solves the problem with the new parameter values (done last, on the last draw: the models are
            # not used afterwards)
            if d == draws - 1:
                import copy
                dc = 0.45
                for spec, model in zip(group, models):
                    n += 1
                    k = len(spec.labels)
                    betas = {f'c_{i}': spec.V[i] - 0.3 * (i + 1) * M.ROW['z'] + dc * (i + 1) for i in range(k)}
                    betas.update({f'gamma_{i}': spec.gamma[i] for i in range(k) if i != spec.outside_pos})
                    if spec.variant != 'gamma_profile':
                        betas.update({f'alpha_{i}': spec.alpha[i] for i in range(k)})
                    if spec.variant == 'non_monotonic':
                        betas.update({f'm_{i}': spec.mu[i] - 0.1 * M.ROW['w'] for i in range(k)})
                    if spec.s is not None:
                        betas['scale'] = spec.s
                    spec3 = copy.copy(spec)
                    spec3.V = [v + dc * (i + 1) for i, v in enumerate(spec.V)]
                    try:
                        with warnings.catch_warnings():
                            warnings.simplefilter('ignore')
                            model.estimation_results = _Results(betas)
                            _, sol3 = forecast(model, spec, row, budget, eps_pos)
                    except Exception as e:      # noqa
                        bad('history(new parameter values): forecast raised', spec, d, budget, eps_pos, f'{type(e).__name__}: {e}')
                        continue
                    for clause, detail in check_solution(spec3, dict(sol3), budget, eps_pos):
                        bad('history(new parameter values, same observation object): ' + clause, spec, d, budget, eps_pos, detail)
            # label invariance
            ref_spec, ref_sol = group[0], sols[0]
            for spec, sol in zip(group[1:], sols[1:]):
                n += 1
                if ref_sol is None or sol is None:
                    if (ref_sol is None) != (sol is None):
                        bad('labels', spec, d, budget, eps_pos, f'forecast succeeds under one labelling only ({ref_spec.labels} vs {spec.labels})')
                    continue
                a = [float(ref_sol[lab]) for lab in ref_spec.labels]
                b = [float(sol[lab]) for lab in spec.labels]
                if not all(M.close(u, v, 1e-7, 1e-9 * budget) for u, v in zip(a, b)):
                    bad('labels', spec, d, budget, eps_pos, f'labels {ref_spec.labels}: {a}; labels {spec.labels}: {b}')
    return n, out


if __name__ == '__main__':
    draws = int(sys.argv[1]) if len(sys.argv) > 1 else 20
    seed = int(sys.argv[2]) if len(sys.argv) > 2 else 0
    brute = int(sys.argv[3]) if len(sys.argv) > 3 else 3
    n, failures = run(draws, seed, brute)
    print(json.dumps({'cases': n, 'failures': failures}, default=str))
    sys.exit(1 if failures else 0)
