"""C07: the declared bounds reach the underlying optimiser unchanged (real wrappers, spied callee).

For every algorithm of biogeme.optimization.algorithms that supports bounds, the underlying
routine (scipy.optimize.minimize / biogeme_optimization simple_bounds_newton_algorithm) is
replaced by a spy that records the bounds it receives; the wrapper is called with bound lists
mixing None, zero, negative, positive, one- and two-sided entries.  Semantic comparison: None is
an absent bound (== -inf / +inf)."""
import json
import math
import sys
import warnings

import numpy as np

warnings.simplefilter('ignore')

CONFIGS = [
    [(None, None), (None, None)],
    [(None, 0.0), (0.0, None)],
    [(0.0, 0.0 + 1.0), (-1.0, 0.0)],
    [(-5.0, 5.0), (None, -2.5)],
    [(0, None), (None, 0)],
    [(-0.0, 3.0), (1e-12, None)],
]


def norm_lb(v):
    return -math.inf if v is None else float(v)


def norm_ub(v):
    return math.inf if v is None else float(v)


def received_pairs(b):
    """(lb, ub) pairs out of whatever bounds object the optimiser received."""
    if b is None:
        return None
    if hasattr(b, 'lb') and hasattr(b, 'ub'):                 # scipy.optimize.Bounds
        return [(norm_lb(x), norm_ub(y)) for x, y in zip(np.atleast_1d(b.lb), np.atleast_1d(b.ub))]
    if hasattr(b, 'bounds'):                                   # biogeme_optimization.bounds.Bounds
        return [(norm_lb(x), norm_ub(y)) for x, y in b.bounds]
    return [(norm_lb(x), norm_ub(y)) for x, y in b]


class Stop(Exception):
    pass


def main():
    import biogeme.optimization as opt
    from biogeme_optimization.function import FunctionToMinimize, FunctionData

    class Quad(FunctionToMinimize):
        def dimension(self):
            return 2

        def _f(self):
            return float(np.sum((self.x - 1.0) ** 2))

        def _f_g(self):
            return FunctionData(function=self._f(), gradient=2 * (self.x - 1.0), hessian=None)

        def _f_g_h(self):
            return FunctionData(function=self._f(), gradient=2 * (self.x - 1.0), hessian=2 * np.eye(2))

    fails, cases = [], 0
    seen = {}

    def spy_minimize(*a, **k):
        seen['b'] = k.get('bounds', a[4] if len(a) > 4 else None)
        raise Stop()

    def spy_sb(*a, **k):
        seen['b'] = k.get('bounds')
        raise Stop()

    targets = {'scipy': ('sc', 'minimize', spy_minimize)}
    for nme in ('simple_bounds', 'simple_bounds_newton', 'simple_bounds_BFGS'):
        targets[nme] = (None, 'simple_bounds_newton_algorithm', spy_sb)
    for alg, (modattr, fname, spy) in targets.items():
        holder = getattr(opt, modattr) if modattr else opt
        orig = getattr(holder, fname)
        setattr(holder, fname, spy)
        try:
            for cfg in CONFIGS:
                cases += 1
                seen.clear()
                try:
                    opt.algorithms[alg](Quad(), np.array([0.5, 0.5]), list(cfg), ['a', 'b'], None)
                except Stop:
                    pass
                except Exception as e:
                    fails.append({'check': f'bounds hand-over [{alg}]', 'case': {'bounds': str(cfg)}, 'got': f'{type(e).__name__}: {e}'})
                    continue
                got = received_pairs(seen.get('b'))
                want = [(norm_lb(x), norm_ub(y)) for x, y in cfg]
                if got != want:
                    fails.append({'check': f'bounds hand-over [{alg}]', 'case': {'bounds': str(cfg)}, 'expected': str(want), 'got': str(got)})
        finally:
            setattr(holder, fname, orig)
    # the table of algorithm names
    expected = {'scipy': 'scipy', 'LS-newton': 'newton_linesearch_for_biogeme', 'TR-newton': 'newton_trust_region_for_biogeme',
                'LS-BFGS': 'bfgs_linesearch_for_biogeme', 'TR-BFGS': 'bfgs_trust_region_for_biogeme',
                'simple_bounds': 'simple_bounds_newton_algorithm_for_biogeme', 'simple_bounds_newton': 'bio_newton', 'simple_bounds_BFGS': 'bio_bfgs'}
    cases += 1
    table = {k: v.__name__ for k, v in opt.algorithms.items()}
    if table != expected:
        fails.append({'check': 'algorithm table', 'expected': str(expected), 'got': str(table)})
    print(json.dumps({'cases': cases, 'failures': fails}))
    return 1 if fails else 0


if __name__ == '__main__':
    sys.exit(main())
