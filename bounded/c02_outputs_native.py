"""Native check of the output packaging classes of function_output.py (real code)."""
import json
import sys

import numpy as np


def main():
    from biogeme.function_output import (BiogemeDisaggregateFunctionOutput as D, BiogemeFunctionOutput as A,
                                         NamedBiogemeFunctionOutput as NA, NamedBiogemeDisaggregateFunctionOutput as ND, convert_to_dict)
    fails, n = [], 0
    rng = np.random.default_rng(7)
    for k in (1, 2, 3):
        for zero in (False, True):
            g = np.zeros((1, k)) if zero else rng.normal(size=(1, k))
            h, b = rng.normal(size=(1, k, k)), rng.normal(size=(1, k, k))
            n += 1
            try:
                r = D(functions=np.array([1.25]), gradients=g, hessians=h, bhhhs=b).unique_entry()
                ok = (r is not None and r.function == 1.25 and r.gradient is not None and np.array_equal(r.gradient, g[0])
                      and np.array_equal(r.hessian, h[0]) and np.array_equal(r.bhhh, b[0]))
                got = repr(r)
            except Exception as e:
                ok, got = False, repr(e)
            if not ok:
                fails.append({'check': 'unique_entry keeps value and derivatives of the single observation', 'K': k, 'zero_gradient': zero, 'got': got[:200]})
        r = D(functions=np.array([1.0, 2.0]), gradients=None, hessians=None, bhhhs=None).unique_entry()
        if r is not None:
            fails.append({'check': 'unique_entry is None for several observations'})
    names = ['zeta', 'alpha', 'mid']
    for perm in ([0, 1, 2], [2, 0, 1], [1, 2, 0]):
        mp = {nm: i for nm, i in zip(names, perm)}
        g = np.array([10.0, 20.0, 30.0])
        h = np.arange(9.0).reshape(3, 3)
        b = 100 + np.arange(9.0).reshape(3, 3)
        n += 1
        r = NA(A(function=1.0, gradient=g, hessian=h, bhhh=b), mp)
        ok = all(r.gradient[a] == g[mp[a]] for a in names) and all(r.hessian[a][c] == h[mp[a], mp[c]] and r.bhhh[a][c] == b[mp[a], mp[c]]
                                                                     for a in names for c in names)
        if not ok:
            fails.append({'check': 'named aggregate output maps entries by name', 'map': mp})
        r2 = ND(D(functions=np.array([1.0, 2.0]), gradients=np.stack([g, 2 * g]), hessians=np.stack([h, 2 * h]), bhhhs=np.stack([b, 2 * b])), mp)
        ok = all(r2.gradients[1][a] == 2 * g[mp[a]] for a in names) and all(
            r2.hessians[1][a][c] == 2 * h[mp[a], mp[c]] and r2.bhhhs[1][a][c] == 2 * b[mp[a], mp[c]] for a in names for c in names)
        if not ok:
            fails.append({'check': 'named per-observation output maps entries by name', 'map': mp})
        if convert_to_dict([5, 6, 7], mp) != {nm: [5, 6, 7][i] for nm, i in mp.items()}:
            fails.append({'check': 'convert_to_dict', 'map': mp})
    print(json.dumps({'cases': n, 'failures': fails}))
    return 1 if fails else 0


if __name__ == '__main__':
    sys.exit(main())
