"""Native check of the output packaging classes of function_output.py (real code)."""
import json
import sys

import numpy as np


def main():
    from biogeme.function_output import (BiogemeDisaggregateFunctionOutput as D, BiogemeFunctionOutput as A,
                                         NamedBiogemeFunctionOutput as NA, NamedBiogemeDisaggregateFunctionOutput as ND, convert_to_dict)
    fails, n = [], 0
    rng = np.random.default_rng(7)
    for k in (1, 2, 3):
        for zero in (False, True):
            g = np.zeros((1, k)) if zero else rng.normal(size=(1, k))
            h, b = rng.normal(size=(1, k, k)), rng.normal(size=(1, k, k))
            n += 1
            try:
                r = D(functions=np.array([1.25]), gradients=g, hessians=h, bhhhs=b).unique_entry()
                ok = (r is not None and r.function == 1.25 and r.gradient is not None and np.array_equal(r.gradient, g[0])
                      and np.array_equal(r.hessian, h[0]) and np.array_equal(r.bhhh, b[0]))
                got = repr(r)
            except Exception as e:
                ok, got = False, repr(e)
            if not ok:
                fails.append({'check': 'unique_entry keeps value and derivatives of the single observation', 'K': k, 'zero_gradient': zero, 'got': got[:200]})
        r = D(functions=np.array([1.0, 2.0]), gradients=None, hessians=None, bhhhs=None).unique_entry()
        if r is not None:
            fails.append({'check': 'unique_entry is None for several observations'})
    names = ['zeta', 'alpha', 'mid']
    for perm in ([0, 1, 2], [2, 0, 1], [1, 2, 0]):
        mp = {nm: i for nm, i in zip(names, perm)}
        g = np.array([10.0, 20.0, 30.0])
        h = np.arange(9.0).reshape(3, 3)
        b = 100 + np.arange(9.0).reshape(3, 3)
        n += 1
        r = NA(A(function=1.0, gradient=g, hessian=h, bhhh=b), mp)
        ok = all(r.gradient[a] == g[mp[a]] for a in names) and all(r.hessian[a][c] == h[mp[a], mp[c]] and r.bhhh[a][c] == b[mp[a], mp[c]]
                                                                     for a in names for c in names)
        if not ok:
            fails.append({'check': 'named aggregate output maps entries by name', 'map': mp})
        r2 = ND(D(functions=np.array([1.0, 2.0]), gradients=np.stack([g, 2 * g]), hessians=np.stack([h, 2 * h]), bhhhs=np.stack([b, 2 * b])), mp)
        ok = all(r2.gradients[1][a] == 2 * g[mp[a]] for a in names) and all(
            r2.hessians[1][a][c] == 2 * h[mp[a], mp[c]] and r2.bhhhs[1][a][c] == 2 * b[mp[a], mp[c]] for a in names for c in names)
        if not ok:
            fails.append({'check': 'named per-observation output maps entries by name', 'map': mp})
        if convert_to_dict([5, 6, 7], mp) != {nm: [5, 6, 7][i] for nm, i in mp.items()}:
            fails.append({'check': 'convert_to_dict', 'map': mp})
    # --- named outputs of a formula that SHARES its numbering with other formulas (auxiliary formula of a BIOGEME object):
    #     entry `name` must be the derivative with respect to `name`, whatever other parameters the numbering contains
    try:
        import warnings
        warnings.simplefilter('ignore')
        import pandas as pd
        import biogeme.database as db
        from biogeme.biogeme import BIOGEME
        from biogeme.parameters import Parameters
        from biogeme.expressions import Beta, Variable, exp
        X = np.array([1.0, 2.0, 0.5, 1.5]); Y = np.array([0.4, 1.2, 2.0, 0.3])
        d = db.Database('c02named', pd.DataFrame({'x': X, 'y': Y}))
        a, b, c = (Beta(nm, v, None, None, 0) for nm, v in (('a_time', 0.35), ('b_cost', -0.45), ('c_extra', 0.8)))
        x, y = Variable('x'), Variable('y')
        aux = exp(b * x) + c * c * y
        bg = BIOGEME(d, {'log_like': -(a * x - y) * (a * x - y) - b * b, 'aux': aux}, parameters=Parameters())
        th = {'a_time': 0.35, 'b_cost': -0.45, 'c_extra': 0.8}
        want_g = {'a_time': 0.0, 'b_cost': float(np.sum(X * np.exp(th['b_cost'] * X))), 'c_extra': float(np.sum(2 * th['c_extra'] * Y))}
        want_h = {'b_cost': {'b_cost': float(np.sum(X * X * np.exp(th['b_cost'] * X)))}, 'c_extra': {'c_extra': float(np.sum(2 * Y))}}
        for agg in (True, False):
            n += 1
            r = aux.get_value_and_derivatives(betas=th, database=d, gradient=True, hessian=True, bhhh=False, aggregation=agg,
                                              prepare_ids=False, named_results=True)
            if agg:
                g = {k: float(v) for k, v in r.gradient.items()}
                hd = {k: float(r.hessian[k][k]) for k in ('b_cost', 'c_extra')}
            else:
                g = {k: float(sum(row[k] for row in r.gradients)) for k in r.gradients[0]}
                hd = {k: float(sum(row[k][k] for row in r.hessians)) for k in ('b_cost', 'c_extra')}
            ok = set(g) == set(want_g) and all(abs(g[k] - want_g[k]) <= 1e-9 * max(1.0, abs(want_g[k])) for k in want_g) \
                and all(abs(hd[k] - want_h[k][k]) <= 1e-9 * max(1.0, abs(want_h[k][k])) for k in hd)
            if not ok:
                fails.append({'check': 'named outputs of a formula sharing its numbering: entry `name` is the derivative w.r.t. `name`',
                              'aggregation': agg, 'expected_gradient': want_g, 'got_gradient': g, 'got_hessian_diagonal': hd})
    except Exception as e:
        fails.append({'check': 'named outputs of a formula sharing its numbering: entry `name` is the derivative w.r.t. `name`',
                      'got': f'{type(e).__name__}: {str(e)[:300]}'})
    print(json.dumps({'cases': n, 'failures': fails}))
    return 1 if fails else 0


if __name__ == '__main__':
    sys.exit(main())
