"""Native re-check of one expression class on the real code: pure-Python value against the
defining equation, and the signature line against ENGINE-SPEC positions.  Used as replay of
failed C01 obligations (and importable as a small bounded check)."""
import math
import sys
import warnings

warnings.simplefilter('ignore')


def build(cls_name, a, b):
    import biogeme.expressions as ex
    from biogeme.expressions import Numeric
    mods = [ex]
    import importlib
    for m in ('binary_expressions', 'unary_expressions', 'comparison_expressions', 'nary_expressions', 'numeric_expressions'):
        mods.append(importlib.import_module('biogeme.expressions.' + m))
    cls = None
    for m in mods:
        if hasattr(m, cls_name):
            cls = getattr(m, cls_name)
            break
    if cls is None:
        return None
    A, B = Numeric(a), Numeric(b)
    binary = {'Plus': a + b, 'Minus': a - b, 'Times': a * b, 'Divide': a / b if b else None,
              'Power': a ** b if a > 0 else None, 'bioMin': min(a, b), 'bioMax': max(a, b),
              'And': 1.0 if (a != 0 and b != 0) else 0.0, 'Or': 1.0 if (a != 0 or b != 0) else 0.0,
              'Equal': float(a == b), 'NotEqual': float(a != b), 'LessOrEqual': float(a <= b),
              'GreaterOrEqual': float(a >= b), 'Less': float(a < b), 'Greater': float(a > b)}
    unary = {'UnaryMinus': -a, 'exp': math.exp(a), 'sin': math.sin(a), 'cos': math.cos(a),
             'log': math.log(a) if a > 0 else None, 'logzero': (0.0 if a == 0 else (math.log(a) if a > 0 else None))}
    if cls_name in binary:
        return cls(A, B), binary[cls_name], [A, B], None
    if cls_name in unary:
        return cls(A), unary[cls_name], [A], None
    if cls_name == 'PowerConstant':
        return cls(A, b), (0.0 if a == 0 else (a ** b if a > 0 else None)), [A], b
    if cls_name == 'Numeric':
        return A, a, [], a
    return None


def check_class(cls_name):
    bad = []
    for (a, b) in [(1.5, 2.0), (2.0, 1.5), (0.0, 3.0), (3.0, 0.0), (-1.25, 2.0), (0.7, 0.7)]:
        r = build(cls_name, a, b)
        if r is None:
            return None
        node, want, kids, extra = r
        if want is not None:
            try:
                got = node.get_value()
                if abs(got - want) > 1e-12 * max(1.0, abs(want)):
                    bad.append(f'{cls_name}({a},{b}).get_value() = {got}, mathematical value {want}')
            except Exception as e:
                bad.append(f'{cls_name}({a},{b}).get_value() raised {type(e).__name__}: {e}')
        sig = node.get_signature()
        line = sig[-1].decode()
        items = line.split(',')
        if f'<{cls_name}>' not in items[0] or f'{{{id(node)}}}' not in items[0]:
            bad.append(f'{cls_name}: header {items[0]!r} lacks the type or the node id')
        for k, kid in enumerate(kids):
            if len(items) <= 1 + k or items[1 + k] != str(id(kid)):
                bad.append(f'{cls_name}: item {1 + k} of {line!r} is not the id of operand {k}')
        if cls_name == 'PowerConstant' and (len(items) != 3 or float(items[2]) != extra):
            bad.append(f'PowerConstant: item 2 of {line!r} is not the exponent {extra}')
        if cls_name == 'Numeric' and float(items[1]) != extra:
            bad.append(f'Numeric: item 1 of {line!r} is not the value')
        exp_prefix = []
        for kid in kids:
            exp_prefix += kid.get_signature()
        if sig[:-1] != exp_prefix:
            bad.append(f'{cls_name}: children signatures are not emitted first, in order')
    return bad


if __name__ == '__main__':
    import json
    names = sys.argv[1:] or ['Plus', 'Minus', 'Times', 'Divide', 'Power', 'bioMin', 'bioMax', 'And', 'Or', 'Equal', 'NotEqual',
                             'LessOrEqual', 'GreaterOrEqual', 'Less', 'Greater', 'UnaryMinus', 'exp', 'sin', 'cos', 'log',
                             'logzero', 'PowerConstant', 'Numeric']
    fails = []
    n = 0
    for nme in names:
        b = check_class(nme)
        n += 1
        if b:
            fails.append({'check': f'class {nme}', 'detail': b[:3]})
    print(json.dumps({'cases': n, 'failures': fails}))
    sys.exit(1 if fails else 0)
