"""Shared helpers of the C17 bounded stand-ins (run under /venv/bin/python on the real code).

Every script prints ONE json line
    {"cases": n, "failures": [...], "clauses": {clause: {"cases": n, "failures": [...]}}}
and exits 0 (no failure) / 1.  A failure record is {"check": clause, "case": ..., ...}.
usage of every script:  <script> [quick|thorough] [seed] [only-this-clause]
"""
import json
import logging
import sys
import warnings

warnings.simplefilter('ignore')
logging.disable(logging.CRITICAL)


class Recorder:
    def __init__(self, clauses, limit=6):
        self.clauses = {c: {'cases': 0, 'failures': []} for c in clauses}
        self.limit = limit
        self.only = sys.argv[3] if len(sys.argv) > 3 and sys.argv[3] else None

    def wanted(self, clause):
        return self.only is None or self.only == clause

    def case(self, clause, n=1):
        self.clauses[clause]['cases'] += n

    def fail(self, clause, case, **kw):
        f = self.clauses[clause]['failures']
        # at most limit/2 records of each kind (raised / wrong value), so that one defect does not hide another
        kind = 'error' in kw
        if len([x for x in f if ('error' in x) == kind]) < self.limit // 2:
            f.append({'check': clause, 'case': case, **kw})
        else:
            self.clauses[clause]['more_failures'] = self.clauses[clause].get('more_failures', 0) + 1

    def finish(self):
        allf = [x for c in self.clauses.values() for x in c['failures']]
        out = {'cases': sum(c['cases'] for c in self.clauses.values()), 'failures': allf, 'clauses': self.clauses}
        print(json.dumps(out, default=str))
        return 1 if allf else 0


def tier_seed():
    tier = sys.argv[1] if len(sys.argv) > 1 else 'quick'
    seed = int(sys.argv[2]) if len(sys.argv) > 2 and sys.argv[2] else 0
    return tier, seed


def close(a, b, rtol=1e-9, atol=1e-12):
    a, b = float(a), float(b)
    if a != a or b != b:
        return False
    return abs(a - b) <= atol + rtol * max(abs(a), abs(b))


def database(columns):
    import pandas as pd
    from biogeme.database import Database
    return Database('c17', pd.DataFrame(columns))


def engine_values(expr, db):
    """value of the real Expression tree on every row of the tiny Database (compiled engine)"""
    return [float(v) for v in expr.get_value_c(database=db, prepare_ids=True)]
