"""C14 bounded stand-in: results saved to a file and loaded again are those of THE SAME model.
Two models whose names share a prefix ('mode_choice', 'mode_choice_v2', 'mode_choice~x' is not a legal second name) are estimated in
one directory; files_of_type lists only the model's own files (name.ext and name~NN.ext) and estimate(recycle=True) gives back the
model's own estimates.  Prints one JSON line {"cases": n, "failures": [...]}; exit 0/1.  Bound: 3 pairs of names, 2 orders."""
import json
import logging
import os
import re
import sys
import tempfile
import warnings

import numpy as np
import pandas as pd



def _scratch_dir(prefix):
    """a scratch directory removed when the process ends"""
    import atexit
    import shutil
    d = tempfile.mkdtemp(prefix=prefix)
    atexit.register(shutil.rmtree, d, ignore_errors=True)
    return d

def main():
    warnings.simplefilter('ignore')
    logging.getLogger('biogeme').setLevel(logging.ERROR)
    import biogeme.database as db
    from biogeme.biogeme import BIOGEME
    from biogeme.expressions import Beta, Variable
    from biogeme.parameters import Parameters
    fails, n = [], 0

    def model(name, shift):
        x = np.array([1.0, 2.0, 3.0, 4.0, 5.0]) + shift            # least squares: b = mean(x)
        d = db.Database('c14rec', pd.DataFrame({'x': x}))
        b = Beta('b', 0.0, None, None, 0)
        p = Parameters()
        p.set_value('save_iterations', False, section='Estimation')
        p.set_value('generate_html', False, section='Output')
        p.set_value('generate_pickle', True, section='Output')
        bg = BIOGEME(d, -(Variable('x') - b) * (Variable('x') - b), parameters=p)
        bg.modelName = name
        return bg, float(np.mean(x))

    for first, second in (('mode_choice', 'mode_choice_v2'), ('logit', 'logit2'), ('m', 'm_nested')):
        for order in (0, 1):
            n += 1
            cwd = os.getcwd()
            os.chdir(_scratch_dir('c14rec_'))
            try:
                names = (first, second) if order == 0 else (second, first)
                truth = {}
                for k, nm in enumerate(names):
                    bg, want = model(nm, 10.0 * (k + 1) * (1 if nm == first else 3))
                    truth[nm] = want
                    bg.estimate()
                for nm in (first, second):
                    bg, _ = model(nm, 10.0 * (names.index(nm) + 1) * (1 if nm == first else 3))
                    listed = sorted(bg.files_of_type('pickle'))
                    own = [f for f in listed if re.fullmatch(re.escape(nm) + r'(~\d+)?\.pickle', f)]
                    if listed != own or not own:
                        fails.append({'check': 'files_of_type lists only the files of this model', 'model': nm, 'other_model': [x for x in names if x != nm][0],
                                      'listed': listed})
                    res = bg.estimate(recycle=True)
                    got = float(res.data.betaValues[0])
                    if abs(got - truth[nm]) > 1e-6:
                        fails.append({'check': 'recycled results are those saved for this model', 'model': nm, 'expected_b': truth[nm], 'got_b': got,
                                      'files': sorted(os.listdir('.'))})
            except Exception as e:
                fails.append({'check': 'recycled results are those saved for this model', 'models': [first, second], 'got': f'{type(e).__name__}: {str(e)[:200]}'})
            finally:
                os.chdir(cwd)
    print(json.dumps({'cases': n, 'failures': fails[:12]}))
    return 1 if fails else 0


if __name__ == '__main__':
    sys.exit(main())
