"""C16 (shared controllers): every catalog governed by one controller takes the alternative whose
NAME is the controller's current choice.  Catalogs whose member names are listed in another order
than the controller's must be refused at construction (BiogemeError) or else follow by name."""
import itertools
import json
import sys
import warnings

warnings.simplefilter('ignore')


def main():
    from biogeme.catalog import Catalog
    from biogeme.controller import Controller
    from biogeme.exceptions import BiogemeError
    from biogeme.expressions import Numeric, NamedExpression
    fails, cases = [], 0
    for n in (2, 3):
        names = [f'spec{i}' for i in range(n)]
        for perm in itertools.permutations(range(n)):
            for how in ('list', 'from_dict'):
                cases += 1
                ctrl = Controller('ctrl', names)
                first = Catalog('first', [NamedExpression(nm, Numeric(10.0 + i)) for i, nm in enumerate(names)], controlled_by=ctrl)
                members = [(names[k], 100.0 * (k + 1)) for k in perm]          # value encodes the NAME, not the position
                try:
                    if how == 'list':
                        second = Catalog('second', [NamedExpression(nm, Numeric(v)) for nm, v in members], controlled_by=ctrl)
                    else:
                        second = Catalog.from_dict('second', {nm: Numeric(v) for nm, v in members}, controlled_by=ctrl)
                except BiogemeError:
                    if list(perm) == list(range(n)):
                        fails.append({'check': 'catalog with the same names in the same order is accepted', 'case': {'n': n, 'how': how}})
                    continue
                formula = first + second
                for idx, nm in enumerate(names):
                    formula.configure_catalogs(__import__('biogeme.configuration', fromlist=['Configuration']).Configuration.from_string(f'ctrl:{nm}'))
                    want = (10.0 + idx) + 100.0 * (idx + 1)
                    got = formula.get_value()
                    sel = (first.selected_name(), second.selected_name())
                    if sel != (nm, nm) or abs(got - want) > 1e-12:
                        fails.append({'check': 'catalogs sharing a controller take the alternative named by the configuration',
                                      'case': {'controller_names': names, 'second_catalog_order': [m for m, _ in members], 'built_with': how, 'configuration': f'ctrl:{nm}'},
                                      'expected': {'selected': [nm, nm], 'value': want}, 'got': {'selected': list(sel), 'value': got}})
                        break
    print(json.dumps({'cases': cases, 'failures': fails[:10]}))
    return 1 if fails else 0


if __name__ == '__main__':
    sys.exit(main())
