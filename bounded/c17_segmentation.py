"""C17 bounded stand-in: Segmentation.segmented_beta / segmented_code (segmentation.py) on the real code.

Bound: 0..3 segmentation variables x 2..4 levels each (all level-count combinations, quick: a fixed subset of 14),
level codes non-contiguous integers, reference level = default (first of the mapping) or an explicit level at every
position, reference parameter with/without bounds, fixed/free.  The tree is evaluated by the compiled engine on a tiny
Database holding EVERY combination of levels (<= 64 rows) after distinct values have been given to all parameters
(Expression.change_init_values).
Oracle: value in a segment = reference value + sum over segmentation variables of that level's shift (0 for the
reference level).  The generated code is exec-uted (namespace: Beta, Variable, bioMultSum) and must give a tree with the
same values under the same parameter values, the same parameters (names, bounds, status) and the same text.
"""
import itertools
import sys

from c17_common import Recorder, close, database, engine_values, tier_seed

CLAUSES = [
    'segmented_beta:value-per-segment',
    'segmented_beta:parameters',
    'segmented_beta:function-form',
    'segmented_code:exec-gives-same-formula',
]

VARS = ['income', 'age', 'gender']
LEVELS = {'income': {10: 'low', 20: 'medium', 35: 'high', 7: 'unknown'},
          'age': {0: 'young', 3: 'adult', 5: 'senior', 9: 'other'},
          'gender': {1: 'male', 2: 'female', -1: 'na', 6: 'x'}}


def configurations(tier):
    out = []
    for n in range(0, 4):
        for counts in itertools.product((2, 3, 4), repeat=n):
            for ref_mode in ('default', 'last', 'second'):
                out.append((counts, ref_mode))
    if tier == 'quick':
        keep = [c for c in out if c[0] in ((), (2,), (4,), (3, 2), (2, 4), (4, 4, 4), (2, 3, 4), (3, 3, 2))]
        return keep
    return out


def main():
    from biogeme.expressions import Beta, TypeOfElementaryExpression, Variable, bioMultSum
    from biogeme.segmentation import DiscreteSegmentationTuple, Segmentation, segmented_beta
    tier, _ = tier_seed()
    R = Recorder(CLAUSES)
    betas = [('b_time', 0.0, None, None, 0), ('asc', -1.5, -10.0, 10.0, 0), ('b_fix', 2.0, None, 5.0, 1)]
    for ci, (counts, ref_mode) in enumerate(configurations(tier)):
        name, init, lb, ub, status = betas[ci % len(betas)]
        case = {'levels': list(counts), 'reference': ref_mode, 'beta': name}
        tuples, maps, refs = [], [], []
        labelling = ('distinct', 'distinct', 'distinct', 'shared', 'merged')[ci % 5]
        case['labelling'] = labelling
        for vi, (v, n) in enumerate(zip(VARS, counts)):
            mapping = dict(list(LEVELS[v].items())[:n])
            if labelling == 'shared' and vi >= 1:
                # the same category labels as the first variable (two yes/no variables...): ONE shift parameter per label, used twice
                mapping = dict(zip(mapping.keys(), list(LEVELS[VARS[0]].values())[:n]))
            if labelling == 'merged' and vi == 0 and n >= 3:
                # two values of the variable in the same category
                ks = list(mapping.keys())
                mapping[ks[2]] = mapping[ks[1]]
            cats = list(dict.fromkeys(mapping.values()))
            ref = {'default': None, 'last': cats[-1], 'second': cats[1]}[ref_mode]
            tuples.append(DiscreteSegmentationTuple(variable=Variable(v) if ci % 2 else v, mapping=dict(mapping), reference=ref))
            maps.append(mapping)
            refs.append(cats[0] if ref is None else ref)
        # distinct values of all parameters
        values = {name: 0.75}
        shift = {}
        for si, (v, mapping, ref) in enumerate(zip(VARS, maps, refs)):
            for li, (code, cat) in enumerate(mapping.items()):
                if cat != ref:
                    # one parameter per category LABEL: a label used twice (shared / merged) denotes the same parameter
                    values.setdefault(f'{name}_{cat}', (si + 1) * 10.0 + (li + 1) * 1.25)
                    shift[(si, code)] = values[f'{name}_{cat}']
        combos = list(itertools.product(*[list(m.keys()) for m in maps]))
        cols = {v: [float(c[i]) for c in combos] for i, v in enumerate(VARS[:len(counts)])}
        cols['dummy'] = [0.0] * len(combos)
        db = database(cols)
        want = [values[name] + sum(shift.get((si, code), 0.0) for si, code in enumerate(combo)) for combo in combos]

        def evaluate(tree):
            tree.change_init_values(values)
            return engine_values(tree, db)

        def parameters(tree):
            d = dict(tree.dict_of_elementary_expression(TypeOfElementaryExpression.FREE_BETA))
            d.update(tree.dict_of_elementary_expression(TypeOfElementaryExpression.FIXED_BETA))
            return {k: (b.lb, b.ub, b.status) for k, b in d.items()}

        try:
            seg = Segmentation(Beta(name, init, lb, ub, status), tuples, prefix='seg')
            tree = seg.segmented_beta()
            text = str(tree)            # before any parameter value is changed
        except Exception as e:      # noqa
            for c in CLAUSES[:2]:
                R.case(c)
                R.fail(c, case, error=f'{type(e).__name__}: {e}'[:300])
            continue
        c = 'segmented_beta:value-per-segment'
        if R.wanted(c):
            try:
                got = evaluate(tree)
                for combo, g, w in zip(combos, got, want):
                    R.case(c)
                    if not close(g, w):
                        R.fail(c, dict(case, segment=dict(zip(VARS, combo)), values=values), expected=w, got=g)
            except Exception as e:      # noqa
                R.case(c)
                R.fail(c, case, error=f'{type(e).__name__}: {e}'[:300])
        c = 'segmented_beta:parameters'
        expected_params = {name: (lb, ub, status)}
        expected_params.update({k: (None, None, status) for k in values if k != name})
        if R.wanted(c):
            R.case(c)
            try:
                got = parameters(tree)
                if got != expected_params:
                    R.fail(c, case, expected=expected_params, got=got)
            except Exception as e:      # noqa
                R.fail(c, case, error=f'{type(e).__name__}: {e}'[:300])
        c = 'segmented_beta:function-form'
        if R.wanted(c):
            R.case(c)
            try:
                other = segmented_beta(Beta(name, init, lb, ub, status), tuples, prefix='seg')
                other_text = str(other)
                if other_text != text or [close(a, b) for a, b in zip(evaluate(other), want)].count(False):
                    R.fail(c, case, method=text[:300], function=other_text[:300])
            except Exception as e:      # noqa
                R.fail(c, case, error=f'{type(e).__name__}: {e}'[:300])
        c = 'segmented_code:exec-gives-same-formula'
        if R.wanted(c):
            R.case(c)
            code = None
            try:
                code = seg.segmented_code()
                ns = {'Beta': Beta, 'Variable': Variable, 'bioMultSum': bioMultSum}
                if counts:
                    exec(code, ns)
                    coded = ns[f'seg_{name}']
                else:       # no segmentation: the code is the expression of the parameter itself
                    lines = [ln for ln in code.split('\n') if ln.strip()]
                    exec('\n'.join(lines[:-1]), ns)
                    coded = eval(lines[-1], ns)
                coded_text = str(coded)
                got = evaluate(coded)
                bad = [(combo, g, w) for combo, g, w in zip(combos, got, want) if not close(g, w)]
                R.case(c, len(combos))
                if bad:
                    R.fail(c, dict(case, segment=dict(zip(VARS, bad[0][0]))), expected=bad[0][2], got=bad[0][1], code=code[:600])
                elif parameters(coded) != expected_params:
                    R.fail(c, case, expected=expected_params, got=parameters(coded), code=code[:600])
                elif counts and coded_text != text:      # (without segmentation the code is the bare parameter, the formula a one-term sum)
                    R.fail(c, case, formula=text[:400], coded=coded_text[:400], code=code[:600])
            except Exception as e:      # noqa
                R.fail(c, case, error=f'{type(e).__name__}: {e}'[:300], code=(code or '')[:600])
    return R.finish()


if __name__ == '__main__':
    sys.exit(main())
