"""C16 bounded native checks: the real catalog / controller / configuration code under /venv/bin/python.

BOUNDED (never counted as proved).  Bound: <= 3 controllers x <= 3 alternatives per structure, shared controllers,
nested catalogs, segmentation_catalogs (<= 2 segmentations x 2 levels x <= 2 parameters), generic_alt_specific_catalogs
(<= 2 parameters x <= 3 alternatives, with and without segmentations); operator sequences of length <= 20 with steps in
-3..7; identifiers with <= 4 selections in every listing order.

Families (each returns (number of cases, list of failures)):
  structure_cases    product count, enumeration, iteration exactly once, shared controllers follow, value == hand-written
  invariant_cases    the central-controller invariant CC_WF assumed by the contracts holds on every generated structure
  identifier_cases   get_string_id independent of listing order; from_string round trip; injective; duplicates rejected
  constructor_cases  names that break the identifier (';' ':' / duplicate specification names): either rejected at
                     construction or the property (round trip, one configuration per index combination) must hold
  operator_cases     closure + exact arithmetic of every operator of prepare_operators on random sequences; inc/dec inverse
  controller_cases   Controller.set_index / modify_controller against the arithmetic model
  delegation_cases   every MultipleExpression override forwards to the selected member (spies), dynamic twin of the static check
usage: c16_native.py <tier quick|thorough> <seed>   ->  one JSON line {"cases": n, "failures": [...]}, exit 0/1
"""
import itertools
import json
import math
import random
import sys


def _imports():
    from biogeme.catalog import Catalog, generic_alt_specific_catalogs, segmentation_catalogs
    from biogeme.configuration import Configuration, SelectionTuple
    from biogeme.controller import CentralController, Controller
    from biogeme.exceptions import BiogemeError
    from biogeme.expressions import Beta, NamedExpression, Numeric, Variable, exp
    from biogeme.segmentation import DiscreteSegmentationTuple, Segmentation
    return locals()


G = None


def g():
    global G
    if G is None:
        G = _imports()
    return G


# ------------------------------------------------------------------------------------------------
# generated structures: (label, build) ; build() -> (expression, hand, catalogs)
#   hand(sel: dict controller name -> specification name) -> number (value of the hand-written formula) or None
#   catalogs: list of (catalog object, controller name) for the "take the matching alternative" check
# ------------------------------------------------------------------------------------------------
def _cat(name, values, controlled_by=None, prefix='s'):
    E = g()
    named = [E['NamedExpression'](f'{prefix}{i}', v if not isinstance(v, (int, float)) else E['Numeric'](v))
             for i, v in enumerate(values)]
    return E['Catalog'](name, named, controlled_by=controlled_by)


def structures():
    E = g()
    Numeric, Controller, Catalog, NamedExpression, Beta = (E['Numeric'], E['Controller'], E['Catalog'],
                                                           E['NamedExpression'], E['Beta'])
    out = []

    def single(n):
        def build():
            c = _cat('A', [10.0 + i for i in range(n)])
            e = c * 2 + 1
            return e, (lambda sel: 2 * (10.0 + int(sel['A'][1:])) + 1), [(c, 'A')]
        return build
    for n in (1, 2, 3):
        out.append((f'single[{n}]', single(n)))

    def independent(sizes):
        def build():
            cats = [_cat(f'C{j}', [float(10 ** j * (i + 1)) for i in range(n)]) for j, n in enumerate(sizes)]
            e = cats[0]
            for c in cats[1:]:
                e = e + c
            e = e * 3 - 0.5

            def hand(sel):
                return 3 * sum(10 ** j * (int(sel[f'C{j}'][1:]) + 1) for j in range(len(sizes))) - 0.5
            return e, hand, [(c, c.name) for c in cats]
        return build
    for sizes in ((2, 2), (2, 3), (3, 3), (2, 3, 2), (3, 3, 3), (1, 3, 2)):
        out.append((f'independent{list(sizes)}', independent(sizes)))

    def shared(n, extra):
        def build():
            ctrl = Controller('shared', [f's{i}' for i in range(n)])
            c1 = _cat('P', [1.0 + i for i in range(n)], controlled_by=ctrl)
            c2 = _cat('Q', [100.0 * (i + 1) for i in range(n)], controlled_by=ctrl)
            cats = [(c1, 'shared'), (c2, 'shared')]
            e = c1 * c2
            if extra:
                c3 = _cat('R', [0.25, 0.5, 0.75][:extra])
                e = e + c3
                cats.append((c3, 'R'))

            def hand(sel):
                i = int(sel['shared'][1:])
                v = (1.0 + i) * (100.0 * (i + 1))
                if extra:
                    v += [0.25, 0.5, 0.75][int(sel['R'][1:])]
                return v
            return e, hand, cats
        return build
    for n, extra in ((2, 0), (3, 0), (2, 2), (3, 3)):
        out.append((f'shared[{n}]+{extra}', shared(n, extra)))

    def nested(n_in, shared_inner):
        def build():
            inner = _cat('inner', [1.0 + i for i in range(n_in)], prefix='i')
            outer = Catalog('outer', [NamedExpression('with', inner * 10), NamedExpression('without', Numeric(7)),
                                      NamedExpression('twice', inner + inner)])
            cats = [(inner, 'inner'), (outer, 'outer')]
            e = outer + 1000
            if shared_inner:
                other = _cat('other', [5.0 * (i + 1) for i in range(n_in)], controlled_by=inner.controlled_by, prefix='i')
                e = e + other
                cats.append((other, 'inner'))

            def hand(sel):
                i = int(sel['inner'][1:])
                v = {'with': (1.0 + i) * 10, 'without': 7.0, 'twice': 2 * (1.0 + i)}[sel['outer']] + 1000
                if shared_inner:
                    v += 5.0 * (i + 1)
                return v
            return e, hand, cats
        return build
    for n_in, sh in ((2, False), (3, False), (2, True), (3, True)):
        out.append((f'nested[{n_in}]{"+shared" if sh else ""}', nested(n_in, sh)))

    def gen_alt(n_beta, alts):
        def build():
            betas = [Beta(f'b{k}', 1.5 + k, None, None, 0) for k in range(n_beta)]
            res = E['generic_alt_specific_catalogs']('coef', betas, alts)
            e = None
            cats = []
            for k, d in enumerate(res):
                for a_i, a in enumerate(alts):
                    term = d[a] * float(10 ** (k * len(alts) + a_i))
                    e = term if e is None else e + term
                    cats.append((d[a], 'coef_gen_altspec'))
            # alternative-specific betas get the generic initial value, so values cannot tell them apart:
            # the hand-written check for this helper compares the selected member's Beta NAME instead

            def hand(sel):
                return sum((1.5 + k) * 10 ** (k * len(alts) + a_i) for k in range(n_beta) for a_i in range(len(alts)))

            def names(sel):
                want = []
                for k in range(n_beta):
                    for a in alts:
                        want.append(f'b{k}' if sel['coef_gen_altspec'] == 'generic' else f'b{k}_{a}')
                return want
            hand.names = names
            return e, hand, cats
        return build
    for n_beta, alts in ((1, ('A', 'B')), (2, ('A', 'B', 'C'))):
        out.append((f'generic_alt_specific[{n_beta}x{len(alts)}]', gen_alt(n_beta, alts)))

    def segm(n_beta, n_seg, maximum):
        def build():
            Variable, DST, Segmentation = E['Variable'], E['DiscreteSegmentationTuple'], E['Segmentation']
            segs = tuple(DST(Variable(f'x{j}'), {0: f'lo{j}', 1: f'hi{j}'}) for j in range(n_seg))
            betas = [Beta(f'beta{k}', 0.5 + k, None, None, 0) for k in range(n_beta)]
            cats = E['segmentation_catalogs']('seg', betas, segs, maximum)
            e = cats[0]
            for c in cats[1:]:
                e = e + c

            def hand(sel):
                return None          # contains Variables: compared structurally (text of the hand-written tree)

            def text(sel):
                keep = [] if sel['seg'] == 'no_seg' else sel['seg'].split('-')
                chosen = tuple(s for s in segs if s.variable.name in keep)
                return [str(Segmentation(b, chosen).segmented_beta()) for b in betas]
            hand.text = text
            hand.expected_count = sum(1 for comb in itertools.product([0, 1], repeat=n_seg) if sum(comb) <= maximum)
            return e, hand, [(c, 'seg') for c in cats]
        return build
    for n_beta, n_seg, maximum in ((1, 1, 1), (2, 2, 2), (2, 2, 1), (1, 3, 1)):
        out.append((f'segmentation[{n_beta} betas,{n_seg} segs,max {maximum}]', segm(n_beta, n_seg, maximum)))

    def gen_alt_seg():
        def build():
            Variable, DST = E['Variable'], E['DiscreteSegmentationTuple']
            segs = (DST(Variable('inc'), {0: 'low', 1: 'high'}),)
            betas = [Beta('cost', -1.0, None, None, 0)]
            alts = ('car', 'bus')
            res = E['generic_alt_specific_catalogs']('c', betas, alts, potential_segmentations=segs, maximum_number=1)
            e = res[0]['car'] + res[0]['bus']
            cats = [(res[0]['car'], 'c_gen_altspec'), (res[0]['bus'], 'c_gen_altspec')]

            def hand(sel):
                return None

            def text(sel):
                Segmentation = E['Segmentation']
                chosen = segs if sel['c'] != 'no_seg' else ()
                out_ = []
                for a in alts:
                    name = 'cost' if sel['c_gen_altspec'] == 'generic' else f'cost_{a}'
                    out_.append(str(Segmentation(Beta(name, -1.0, None, None, 0), chosen).segmented_beta()))
                return out_
            hand.text = text
            hand.text_of = lambda: [strip_catalog_marks(str(res[0][a])) for a in alts]
            return e, hand, cats
        return build
    out.append(('generic_alt_specific+segmentation', gen_alt_seg()))
    return out


def strip_catalog_marks(s: str) -> str:
    """str() of a catalog is '[name: selected]<member>': drop the bracketed marks to get the member's text."""
    import re
    return re.sub(r'\[[^\[\]:]+: [^\[\]]+\]', '', s)


def close(a, b):
    return a == b or abs(a - b) <= 1e-9 * max(1.0, abs(a), abs(b))


def controllers_of(expr):
    return sorted(expr.get_all_controllers(), key=lambda c: c.controller_name)


def structure_cases(seed=0, limit=None):
    E = g()
    Configuration = E['Configuration']
    bad = []
    n = 0
    for label, build in structures()[:limit]:
        try:
            expr, hand, cats = build()
            ctrls = controllers_of(expr)
            want = math.prod(c.controller_size() for c in ctrls)
            n += 1
            if expr.number_of_multiple_expressions() != want:
                bad.append({'structure': label, 'clause': 'count == product of controller sizes',
                            'got': expr.number_of_multiple_expressions(), 'want': want})
                continue
            if getattr(hand, 'expected_count', None) is not None and ctrls[0].controller_size() != hand.expected_count:
                bad.append({'structure': label, 'clause': 'segmentation combinations', 'got': ctrls[0].controller_size(),
                            'want': hand.expected_count})
            confs = expr.set_of_configurations()
            combos = {tuple(sorted(zip((c.controller_name for c in ctrls), names)))
                      for names in itertools.product(*[c.specification_names for c in ctrls])}
            got = {tuple(sorted((s.controller, s.selection) for s in cf.selections)) for cf in confs}
            if len(confs) != want or got != combos:
                bad.append({'structure': label, 'clause': 'one configuration per combination of controller choices',
                            'got': len(confs), 'want': want})
                continue
            # iteration visits every configuration exactly once
            seen = []
            for e_sel in expr:
                n += 1
                cur = expr.current_configuration()
                seen.append(cur.get_string_id())
                if e_sel is not expr:
                    bad.append({'structure': label, 'clause': 'iterator yields the configured formula'})
            if sorted(seen) != sorted(cf.get_string_id() for cf in confs) or len(set(seen)) != len(seen):
                bad.append({'structure': label, 'clause': 'iteration visits every configuration exactly once',
                            'visited': len(seen), 'distinct': len(set(seen)), 'want': want})
            # selecting a configuration
            for cf in sorted(confs, key=lambda c: c.get_string_id()):
                n += 1
                expr.configure_catalogs(cf)
                sel = {s.controller: s.selection for s in cf.selections}
                if expr.current_configuration().selections != cf.selections:
                    bad.append({'structure': label, 'clause': 'current_configuration after configure_catalogs',
                                'config': cf.get_string_id()})
                for cat, cname in cats:
                    if cat.selected_name() != sel[cname] or cat.selected()[0] != sel[cname]:
                        bad.append({'structure': label, 'clause': 'catalog takes the matching alternative',
                                    'catalog': cat.name, 'config': cf.get_string_id(), 'got': cat.selected_name()})
                want_v = hand(sel)
                if want_v is not None:
                    got_v = expr.get_value()
                    if not close(got_v, want_v):
                        bad.append({'structure': label, 'clause': 'value == hand-written formula',
                                    'config': cf.get_string_id(), 'got': got_v, 'want': want_v})
                if hasattr(hand, 'names'):
                    got_names = [cat.selected_expression().name for cat, _ in cats]
                    if got_names != hand.names(sel):
                        bad.append({'structure': label, 'clause': 'selected parameters == hand-written ones',
                                    'config': cf.get_string_id(), 'got': got_names, 'want': hand.names(sel)})
                if hasattr(hand, 'text'):
                    got_t = hand.text_of() if hasattr(hand, 'text_of') else [str(cat.selected_expression()) for cat, _ in cats]
                    if got_t != hand.text(sel):
                        bad.append({'structure': label, 'clause': 'selected tree == hand-written tree',
                                    'config': cf.get_string_id(), 'got': got_t, 'want': hand.text(sel)})
                # identifier round trip on the real configurations
                back = Configuration.from_string(cf.get_string_id())
                if back.selections != cf.selections:
                    bad.append({'structure': label, 'clause': 'from_string(get_string_id(c)) == c', 'config': cf.get_string_id()})
        except Exception as exc:           # noqa: BLE001
            bad.append({'structure': label, 'clause': 'no exception', 'exception': f'{type(exc).__name__}: {exc}'[:300]})
    return n, bad


def invariant_cases(seed=0):
    """CC_WF (contracts/c16_controller.py) on real central controllers."""
    bad = []
    n = 0
    for label, build in structures():
        expr, _, _ = build()
        cc = expr.set_central_controller()
        n += 1
        d = cc.dict_of_controllers
        problems = []
        if cc.expression is None:
            problems.append('expression is None')
        if list(d.values()) != list(cc.controllers) or len(d) != len(cc.controllers):
            problems.append('tuple `controllers` differs from the registered controllers')
        if sorted(c.controller_name for c in cc.controllers) != [c.controller_name for c in cc.controllers]:
            problems.append('controllers not sorted by name')
        if set(c.controller_name for c in cc.controllers) != set(c.controller_name for c in expr.get_all_controllers()):
            problems.append('controllers of the formula missing')
        for k, c in d.items():
            if c.controller_name != k:
                problems.append(f'{k}: stored under another name')
            if len(c.specification_names) < 1 or not 0 <= c.current_index < len(c.specification_names):
                problems.append(f'{k}: empty or index out of range')
            if len(c.controlled_catalogs) != 0:
                problems.append(f'{k}: controlled_catalogs not empty')
            if c.dict_of_index != {nm: i for i, nm in enumerate(c.specification_names)}:
                problems.append(f'{k}: dict_of_index is not the position table')
        if problems:
            bad.append({'structure': label, 'clause': 'CC_WF established by the constructors', 'problems': problems[:4]})
    return n, bad


# ------------------------------------------------------------------------------------------------
def identifier_cases(seed=0, rounds=40):
    E = g()
    Configuration, SelectionTuple, BiogemeError = E['Configuration'], E['SelectionTuple'], E['BiogemeError']
    rng = random.Random(seed + 16)
    alphabet = ['a', 'b', 'B', 'ab', 'a b', 'a-b', 'a_b', 'z9', '0', 'é', 'a,b', 'a=b', ' a', 'a.', 'A|B', '[x]']
    bad = []
    n = 0
    ids = {}
    for r in range(rounds):
        k = 1 + r % 4
        ctrl = rng.sample(alphabet, k)
        sel = [rng.choice(alphabet) for _ in range(k)]
        pairs = list(zip(ctrl, sel))
        ref = Configuration([SelectionTuple(c, s) for c, s in pairs])
        sid = ref.get_string_id()
        for perm in itertools.permutations(pairs):
            n += 1
            other = Configuration(SelectionTuple(c, s) for c, s in perm)
            if other.get_string_id() != sid or other != ref or hash(other) != hash(ref) or other.selections != ref.selections:
                bad.append({'clause': 'identifier independent of listing order', 'listed': list(perm), 'got': other.get_string_id(),
                            'want': sid})
                break
        back = Configuration.from_string(sid)
        if back.selections != ref.selections or back.get_string_id() != sid:
            bad.append({'clause': 'from_string(get_string_id(c)) == c', 'config': pairs, 'id': sid,
                        'back': [tuple(s) for s in back.selections]})
        if Configuration.from_dict(dict(pairs)).selections != ref.selections:
            bad.append({'clause': 'from_dict agrees', 'config': pairs})
        key = tuple(sorted(pairs))
        if sid in ids and ids[sid] != key:
            bad.append({'clause': 'identifier determines the configuration', 'id': sid, 'a': ids[sid], 'b': key})
        ids[sid] = key
        for c, s in pairs:
            if ref.get_selection(c) != s:
                bad.append({'clause': 'get_selection', 'config': pairs})
        if ref.get_selection('@absent@') is not None:
            bad.append({'clause': 'get_selection of an unknown controller is None', 'config': pairs})
    # a controller listed twice is refused
    for dup in ([('a', 'x'), ('a', 'y')], [('a', 'x'), ('b', 'y'), ('a', 'x')]):
        n += 1
        try:
            Configuration([SelectionTuple(c, s) for c, s in dup])
            bad.append({'clause': 'duplicate controller rejected', 'listed': dup})
        except BiogemeError:
            pass
    for text in ('a', 'a:b;c', 'a:b:c', ''):
        n += 1
        try:
            Configuration.from_string(text)
            bad.append({'clause': 'malformed identifier rejected', 'id': text})
        except BiogemeError:
            pass
    return n, bad


# ------------------------------------------------------------------------------------------------
def _property_on(expr):
    """The C16 identifier / enumeration clauses on an accepted structure; returns a description of the first breach."""
    E = g()
    Configuration = E['Configuration']
    cc = E['CentralController'](expr, maximum_number_of_configurations=10 ** 6)
    ctrls = cc.controllers
    want = math.prod(c.controller_size() for c in ctrls)
    if cc.number_of_configurations() != want:
        return f'{want} combinations of controller choices but {cc.number_of_configurations()} configurations'
    seen = set()
    for combo in itertools.product(*[range(c.controller_size()) for c in ctrls]):
        for c, i in zip(ctrls, combo):
            cc.set_controller(c.controller_name, i)
        cf = cc.get_configuration()
        sid = cf.get_string_id()
        if sid in seen:
            return f'two index combinations share the identifier {sid!r}'
        seen.add(sid)
        back = Configuration.from_string(sid)
        if back.selections != cf.selections:
            return f'identifier {sid!r} parses back to {[tuple(s) for s in back.selections]}'
        for c in ctrls:
            cc.set_controller(c.controller_name, 0)
        cc.set_configuration(back)
        if tuple(c.current_index for c in ctrls) != combo:
            return (f'configuration {sid!r} taken at indices {combo} selects indices '
                    f'{tuple(c.current_index for c in ctrls)} when applied')
    if cc.all_configurations is not None and {c.get_string_id() for c in cc.all_configurations} != seen:
        return 'enumerated configurations differ from the reachable ones'
    return None


def constructor_cases(seed=0):
    """Names that break the identifier must be rejected at construction (BiogemeError), or else the property must hold."""
    E = g()
    Numeric, Controller, Catalog, NamedExpression, Beta, BiogemeError = (
        E['Numeric'], E['Controller'], E['Catalog'], E['NamedExpression'], E['Beta'], E['BiogemeError'])
    Variable, DST = E['Variable'], E['DiscreteSegmentationTuple']

    def with_controller(cname, specs):
        def build():
            ctrl = Controller(cname, specs)
            cat = Catalog('cat', [NamedExpression(s, Numeric(i + 1.0)) for i, s in enumerate(specs)], controlled_by=ctrl)
            return cat + 1
        return build

    def own_controller(catname, specs):
        def build():
            return Catalog(catname, [NamedExpression(s, Numeric(i + 1.0)) for i, s in enumerate(specs)]) + 1
        return build

    def from_dict(catname, specs):
        def build():
            return Catalog.from_dict(catname, {s: Numeric(i + 1.0) for i, s in enumerate(specs)}) + 1
        return build

    def seg(generic_name, var, levels):
        def build():
            cats = E['segmentation_catalogs'](generic_name, [Beta('b', 0.0, None, None, 0)],
                                              (DST(Variable(var), dict(enumerate(levels))),), 1)
            return cats[0] + 1
        return build

    def gas(generic_name):
        def build():
            res = E['generic_alt_specific_catalogs'](generic_name, [Beta('b', 0.0, None, None, 0)], ('A', 'B'))
            return res[0]['A'] + res[0]['B']
        return build

    cases = [
        ('Controller name with ; and :', with_controller('a:b;c', ['x', 'y'])),
        ('Controller name with ;', with_controller('a;b', ['x', 'y'])),
        ('Controller name with :', with_controller('a:b', ['x', 'y'])),
        ('Controller specification name with ; and :', with_controller('c', ['x;d:y', 'z'])),
        ('Controller specification name with :', with_controller('c', ['x:y', 'z'])),
        ('Controller specification name with ;', with_controller('c', ['x;y', 'z'])),
        ('Controller duplicate specification names', with_controller('c', ['a', 'a', 'b'])),
        ('Catalog member name with ; and :', own_controller('cat', ['x;d:y', 'z'])),
        ('Catalog member name with :', own_controller('cat', ['x:y', 'z'])),
        ('Catalog duplicate member names', own_controller('cat', ['a', 'a', 'b'])),
        ('Catalog name with ;', own_controller('ca;t', ['x', 'y'])),
        ('Catalog name with :', own_controller('ca:t', ['x', 'y'])),
        ('Catalog.from_dict member name with ; and :', from_dict('cat', ['x;d:y', 'z'])),
        ('segmentation_catalogs generic name with ; and :', seg('g:x;h', 'v', ['lo', 'hi'])),
        ('segmentation_catalogs variable name with ; and :', seg('g', 'v;w:u', ['lo', 'hi'])),
        ('segmentation_catalogs level name with :', seg('g', 'v', ['lo:', 'hi'])),
        ('generic_alt_specific_catalogs generic name with ; and :', gas('g:x;h')),
        # controls: admissible names must be accepted and satisfy the property
        ('control: plain names', with_controller('ctrl', ['x', 'y', 'z'])),
        ('control: punctuation other than the separators', with_controller('c-1_a.b', ['x y', 'z,w', 'u=v'])),
        ('control: segmentation helper', seg('g', 'v', ['lo', 'hi'])),
        ('control: generic/alt-specific helper', gas('g')),
    ]
    bad = []
    n = 0
    for label, build in cases:
        n += 1
        try:
            expr = build()
        except BiogemeError:
            if label.startswith('control'):
                bad.append({'case': label, 'clause': 'admissible names accepted', 'got': 'BiogemeError'})
            continue
        except Exception as exc:      # noqa: BLE001
            bad.append({'case': label, 'clause': 'rejected with BiogemeError', 'got': f'{type(exc).__name__}: {exc}'[:200]})
            continue
        try:
            breach = _property_on(expr)
        except Exception as exc:      # noqa: BLE001
            breach = f'accepted at construction, then {type(exc).__name__}: {exc}'[:260]
        if breach:
            bad.append({'case': label, 'clause': 'accepted names keep identifiers unique and parseable', 'breach': breach})
    return n, bad


# ------------------------------------------------------------------------------------------------
def operator_cases(seed=0, sequences=12, length=20):
    E = g()
    rng = random.Random(seed + 1601)
    bad = []
    n = 0
    builds = [(l, b) for l, b in structures() if not l.startswith('single[1]')]
    for s_i in range(sequences):
        label, build = builds[(s_i * 5 + seed) % len(builds)]
        expr, _, _ = build()
        cc = expr.set_central_controller()
        ctrls = {c.controller_name: c for c in cc.controllers}
        sizes = {k: c.controller_size() for k, c in ctrls.items()}
        valid = cc.all_configurations
        ops = cc.prepare_operators()
        want_ops = 2 * len(ctrls) + 4 * len(ctrls) * (len(ctrls) - 1) + 2
        n += 1
        if len(ops) != want_ops:
            bad.append({'structure': label, 'clause': 'prepare_operators: one increase/decrease per controller, '
                        '4 directions per ordered pair, 2 random', 'got': len(ops), 'want': want_ops})
        conf = rng.choice(sorted(valid, key=lambda c: c.get_string_id()))
        for t in range(length):
            name = rng.choice(sorted(ops))
            step = rng.randint(1, 7) if 'several' in name else rng.randint(-3, 7)
            before = {s.controller: ctrls[s.controller].dict_of_index[s.selection] for s in conf.selections}
            n += 1
            try:
                new, done = ops[name](conf, step)
            except Exception as exc:      # noqa: BLE001
                bad.append({'structure': label, 'operator': name, 'step': step, 'clause': 'operator defined on a valid configuration',
                            'exception': f'{type(exc).__name__}: {exc}'[:200]})
                break
            after = {s.controller: ctrls[s.controller].dict_of_index.get(s.selection) for s in new.selections}
            ctx = {'structure': label, 'operator': name, 'step': step, 'from': conf.get_string_id(), 'to': new.get_string_id()}
            if new not in valid or any(v is None or not 0 <= v < sizes[k] for k, v in after.items()) or set(after) != set(ctrls):
                bad.append({**ctx, 'clause': 'closure: result is a configuration of the formula'})
                break
            if {k: c.current_index for k, c in ctrls.items()} != after:
                bad.append({**ctx, 'clause': 'returned configuration is the state of the controllers'})
            exp = dict(before)
            if name.startswith('Increase ') or name.startswith('Decrease '):
                k = name.split(' ', 1)[1]
                exp[k] = (before[k] + (step if name.startswith('Increase') else -step)) % sizes[k]
                if done != step:
                    bad.append({**ctx, 'clause': 'reported steps', 'got': done})
            elif name.startswith('Pair_'):
                body, direction = name[len('Pair_'):].rsplit('_', 1)
                first = next(k for k in ctrls if body.startswith(k + '_') and body[len(k) + 1:] in ctrls)
                second = body[len(first) + 1:]
                exp[first] = (before[first] + (step if direction[1] == 'E' else -step)) % sizes[first]
                exp[second] = (before[second] + (step if direction[0] == 'N' else -step)) % sizes[second]
                if done != step:
                    bad.append({**ctx, 'clause': 'reported steps', 'got': done})
            else:
                exp = None
                if done != min(step, len(ctrls)):
                    bad.append({**ctx, 'clause': 'number of modified controllers', 'got': done, 'want': min(step, len(ctrls))})
                moved = sum((after[k] - before[k]) % sizes[k] for k in ctrls if sizes[k] > 1)
                if all(sz > 1 for sz in sizes.values()) and moved > done:
                    bad.append({**ctx, 'clause': 'at most `done` unit moves', 'moved': moved, 'done': done})
            if exp is not None and exp != after:
                bad.append({**ctx, 'clause': 'exact circular arithmetic', 'got': after, 'want': exp})
            conf = new
        # increase then decrease (and decrease then increase) by the same step returns
        for k in ctrls:
            for step in (-5, -1, 0, 1, 2, 3, 7):
                start = rng.choice(sorted(valid, key=lambda c: c.get_string_id()))
                n += 1
                up, _ = cc.increased_controller(k, start, step)
                back, _ = cc.decreased_controller(k, up, step)
                down, _ = cc.decreased_controller(k, start, step)
                back2, _ = cc.increased_controller(k, down, step)
                if back != start or back.selections != start.selections or back2.selections != start.selections:
                    bad.append({'structure': label, 'clause': 'increase then decrease by the same step returns', 'controller': k,
                                'step': step, 'start': start.get_string_id(), 'back': back.get_string_id()})
        # a configuration that leaves a controller out / names an unknown one is refused
        Configuration, BiogemeError = E['Configuration'], E['BiogemeError']
        some = sorted(valid, key=lambda c: c.get_string_id())[0]
        for broken, what in ((Configuration(list(some.selections)[1:]) if len(some.selections) > 1 else None, 'incomplete'),
                             (Configuration(list(some.selections) + [E['SelectionTuple']('@nobody@', 'x')]), 'unknown controller')):
            if broken is None:
                continue
            n += 1
            try:
                cc.set_configuration(broken)
                bad.append({'structure': label, 'clause': f'{what} configuration refused'})
            except BiogemeError:
                pass
    return n, bad


def controller_cases(seed=0, rounds=60):
    E = g()
    Controller, BiogemeError = E['Controller'], E['BiogemeError']
    rng = random.Random(seed + 7)
    bad = []
    n = 0
    # exhaustive range check of set_index on small sizes
    for size in range(1, 5):
        for i in range(-2, size + 3):
            n += 1
            c = Controller('c', [f's{k}' for k in range(size)])
            try:
                c.set_index(i)
                raised = False
            except BiogemeError:
                raised = True
            if raised != (not 0 <= i < size) or (not raised and c.current_index != i) or (raised and c.current_index != 0):
                bad.append({'clause': 'set_index raises BiogemeError iff the index is out of range', 'size': size, 'index': i,
                            'raised': raised, 'current': c.current_index})
    if bad:
        return n, bad
    for r in range(rounds):
        size = 1 + r % 4
        c = Controller('c', [f's{i}' for i in range(size)])
        cur = 0
        for _ in range(8):
            n += 1
            kind = rng.choice(['set', 'circ', 'clamp', 'name'])
            if kind == 'set':
                i = rng.randint(-2, size + 1)
                try:
                    c.set_index(i)
                    ok = 0 <= i < size
                    cur = i
                except BiogemeError:
                    ok = not 0 <= i < size
                if not ok or c.current_index != cur:
                    bad.append({'clause': 'set_index range check', 'size': size, 'index': i, 'current': c.current_index})
            elif kind == 'name':
                i = rng.randint(0, size)
                try:
                    c.set_name(f's{i}')
                    ok = i < size
                    cur = i if ok else cur
                except BiogemeError:
                    ok = i >= size
                if not ok or c.current_index != cur or c.current_name() != f's{cur}':
                    bad.append({'clause': 'set_name', 'size': size, 'name': f's{i}', 'current': c.current_index})
            else:
                step = rng.randint(-7, 7)
                got = c.modify_controller(step, circular=(kind == 'circ'))
                if kind == 'circ':
                    want, want_ret = (cur + step) % size, step
                else:
                    want = max(0, min(size - 1, cur + step))
                    want_ret = None
                if c.current_index != want or (want_ret is not None and got != want_ret) or \
                        (want_ret is None and abs(got) != abs(want - cur)):
                    bad.append({'clause': f'modify_controller circular={kind == "circ"}', 'size': size, 'from': cur, 'step': step,
                                'to': c.current_index, 'want': want, 'returned': got})
                cur = want
        for step in range(-6, 7):
            n += 1
            start = c.current_index
            c.modify_controller(step, True)
            c.modify_controller(-step, True)
            if c.current_index != start:
                bad.append({'clause': 'increase then decrease returns', 'size': size, 'start': start, 'step': step})
    return n, bad


def delegation_cases(seed=0, only=None):
    """Every method that MultipleExpression overrides (found at run time) forwards to the SAME method of the selected
    member with the same arguments and returns its result; no other member is consulted.  Dynamic counterpart of the
    static delegation obligations (spies on the members of a two-level catalog)."""
    import inspect
    from unittest import mock
    E = g()
    from biogeme.expressions import Expression, MultipleExpression
    Beta, Catalog, NamedExpression = E['Beta'], E['Catalog'], E['NamedExpression']
    own = {'__init__', 'selected', 'get_iterator', 'catalog_size', 'selected_name', 'selected_expression', '__str__'}
    no_result = {'set_id_manager', 'change_init_values', 'rename_elementary', 'fix_betas'}
    methods = [m for m, f in vars(MultipleExpression).items() if inspect.isfunction(f) and m not in own
               and hasattr(Expression, m) and not getattr(f, '__wrapped__', None) and m[0] != '_'
               and 'deprecated' not in (f.__qualname__ or '')]
    methods = [m for m in methods if m not in ('getValue',)]
    if only:
        methods = [m for m in methods if m in only]
    bad = []
    n = 0
    for m in methods:
        params = [p for p in inspect.signature(getattr(MultipleExpression, m)).parameters if p != 'self']
        for index in (0, 1, 2):
            n += 1
            members = [Beta(f'b{i}', 1.0 + i, None, None, 0) * (2.0 + i) for i in range(3)]
            cat = Catalog('cat', [NamedExpression(f's{i}', e) for i, e in enumerate(members)])
            cat.controlled_by.set_index(index)
            members = [ne.expression for ne in cat.named_expressions]
            args = [object() for _ in params]
            result = object()
            spies = []
            try:
                for e in members:
                    sp = mock.patch.object(e, m, return_value=result)
                    spies.append((e, sp.start(), sp))
                got = getattr(cat, m)(*args)
            except Exception as exc:        # noqa: BLE001
                bad.append({'method': m, 'selected': index, 'clause': 'forwarding call raised', 'exception': f'{type(exc).__name__}: {exc}'[:200]})
                continue
            finally:
                for _, _, sp in spies:
                    try:
                        sp.stop()
                    except RuntimeError:
                        pass
            for i, (e, mk, _) in enumerate(spies):
                if i == index:
                    ok = mk.call_count == 1
                    if ok:
                        ca = mk.call_args
                        bound = dict(zip(params, ca.args))
                        bound.update(ca.kwargs)
                        ok = [bound.get(p) for p in params] == args and len(ca.args) + len(ca.kwargs) == len(params)
                    if not ok:
                        bad.append({'method': m, 'selected': index, 'clause': 'selected member called once with the same arguments',
                                    'calls': str(mk.call_args_list)[:200]})
                elif mk.call_count:
                    bad.append({'method': m, 'selected': index, 'clause': 'unselected member not consulted', 'member': i})
            if m not in no_result and got is not result:
                bad.append({'method': m, 'selected': index, 'clause': 'result of the selected member returned'})
    return n, bad


def run(tier='quick', seed=0, only=None):
    fams = {
        'structure': lambda: structure_cases(seed),
        'invariant': lambda: invariant_cases(seed),
        'identifier': lambda: identifier_cases(seed, rounds=40 if tier == 'quick' else 400),
        'constructor': lambda: constructor_cases(seed),
        'operator': lambda: operator_cases(seed, sequences=12 if tier == 'quick' else 120, length=20),
        'controller': lambda: controller_cases(seed, rounds=60 if tier == 'quick' else 600),
        'delegation': lambda: delegation_cases(seed),
    }
    total, failures = 0, []
    for name, f in fams.items():
        if only and name not in only:
            continue
        n, bad = f()
        total += n
        for b in bad:
            failures.append({'family': name, **b})
    return total, failures


if __name__ == '__main__':
    tier = sys.argv[1] if len(sys.argv) > 1 else 'quick'
    seed = int(sys.argv[2]) if len(sys.argv) > 2 else 0
    only = sys.argv[3].split(',') if len(sys.argv) > 3 else None
    n, failures = run(tier, seed, only)
    print(json.dumps({'cases': n, 'failures': failures}, default=str))
    sys.exit(1 if failures else 0)
