"""Bounded stand-in + replay for the n-ary signature contracts of C01 (tag c01c), on the real code.

usage: /venv/bin/python c01c_nary.py [class ...]      one JSON line {"cases": n, "failures": [...]}, exit 0/1

For each n-ary node class (bioMultSum, ConditionalSum, Elem, bioLinearUtility, _bioLogLogit,
_bioLogLogitFullChoiceSet, BelongsTo) instances with 1..4 terms are built through the public constructors
(Expression operands and plain numbers, shared operands, keys in non-sorted order, negative keys) and
  * the node line is read back with an independent transcription of the engine's reader for that class
    (cythonbiogeme bioFormula.cc: extractParentheses + split(',') + the per-class position arithmetic) and the
    decoded structure is compared with the Python object: same class tag, id = get_id(), count, and for every term
    the ids / keys / indices / names the engine will bind (Elem, LogLogit: as a MAP key -> ids, as in the engine);
  * post-order: every id the line refers to is the id of a line EARLIER in the list (defined before use), the list
    minus its last line is the concatenation of the children's signatures in order;
  * child layout established by the constructors (LogLogit: choice, utilities in key order, availabilities in key
    order; bioLinearUtility: betas then variables; Elem: key expression then the dictionary values).
Bound: 7 classes x (1..4 terms) x 3 operand mixes.
"""
import json
import sys
import warnings

warnings.simplefilter('ignore')


def between(s, op, cl):
    i = s.index(op)
    j = s.index(cl, i + 1)
    return s[i + 1:j]


def lex(line):
    line = line.decode() if isinstance(line, bytes) else line
    return between(line, '<', '>'), between(line, '{', '}'), between(line, '(', ')'), line.split(',')


def ids_defined(sig):
    out = []
    for ln in sig:
        s = ln.decode()
        out.append(between(s, '{', '}'))
    return out


def operands(n, mix):
    from biogeme.expressions import Beta, Numeric, Variable
    ops = []
    for k in range(n):
        if mix == 0:
            ops.append(Numeric(1.5 + k))
        elif mix == 1:
            b = Beta(f'b{k}', 0.5 * k, None, None, k % 2)
            b.elementaryIndex, b.betaId = k, k          # ids as IdManager.prepare would give them
            ops.append(b * Numeric(2 + k))
        else:
            ops.append(float(k) + 0.25)      # plain number: the constructor wraps it
    return ops


def common(cls_name, node, sig, bad, tag):
    typ, ident, count, items = lex(sig[-1])
    if typ != cls_name:
        bad.append(f'{tag}: class tag {typ!r}, expected {cls_name!r}')
    if ident != str(node.get_id()):
        bad.append(f'{tag}: id field {ident!r} is not get_id() = {node.get_id()}')
    prefix = []
    for c in node.get_children():
        prefix += c.get_signature()
    if sig[:-1] != prefix:
        bad.append(f'{tag}: the lines before the node line are not the children signatures in order')
    defined = set(ids_defined(sig[:-1]))
    return typ, ident, count, items, defined


def need(defined, ident, what, bad, tag):
    if ident not in defined:
        bad.append(f'{tag}: {what} id {ident} is used by the node line but not defined by an earlier line')


def check_class(cls_name):
    import biogeme.expressions as ex
    from biogeme.expressions import Beta, Numeric, Variable
    from biogeme.expressions.nary_expressions import ConditionalTermTuple, LinearTermTuple
    from biogeme.expressions.logit_expressions import _bioLogLogit, _bioLogLogitFullChoiceSet
    bad = []
    known = ('bioMultSum', 'ConditionalSum', 'Elem', 'bioLinearUtility', '_bioLogLogit', '_bioLogLogitFullChoiceSet', 'BelongsTo')
    if cls_name not in known:
        return None
    for n in (1, 2, 3, 4):
        for mix in (0, 1, 2):
            tag = f'{cls_name}[n={n},mix={mix}]'
            ops = operands(n, mix)
            keys = [3, -1, 7, 2][:n]
            if cls_name == 'bioMultSum':
                shared = ops[0]
                lst = ops + ([shared] if mix == 1 else [])
                node = ex.bioMultSum(lst)
                sig = node.get_signature()
                typ, ident, count, items, defined = common(cls_name, node, sig, bad, tag)
                kids = node.get_children()
                if int(count) != len(lst) or len(kids) != len(lst) or len(items) != 1 + len(lst):
                    bad.append(f'{tag}: count {count}, {len(items) - 1} ids, {len(lst)} terms')
                for k in range(min(int(count), len(items) - 1, len(kids))):
                    if items[1 + k] != str(kids[k].get_id()):
                        bad.append(f'{tag}: item {1 + k} is not the id of term {k}')
                    need(defined, items[1 + k], f'term {k}', bad, tag)
                    if mix != 2 and kids[k] is not lst[k]:
                        bad.append(f'{tag}: child {k} is not the {k}-th argument')
            elif cls_name == 'ConditionalSum':
                conds = [Numeric(float(k % 2)) for k in range(n)]
                node = ex.ConditionalSum([ConditionalTermTuple(condition=c, term=t) for c, t in zip(conds, ops)])
                sig = node.get_signature()
                typ, ident, count, items, defined = common(cls_name, node, sig, bad, tag)
                if int(count) != n or len(items) != 1 + 2 * n:
                    bad.append(f'{tag}: count {count}, {len(items)} items for {n} terms')
                for k in range(n):
                    t = node.list_of_terms[k]
                    if items[1 + 2 * k] != str(t.condition.get_id()) or items[2 + 2 * k] != str(t.term.get_id()):
                        bad.append(f'{tag}: items of term {k} are not (condition id, term id)')
                    if t.condition is not conds[k] or (mix != 2 and t.term is not ops[k]):
                        bad.append(f'{tag}: term {k} does not hold the arguments')
                    need(defined, items[1 + 2 * k], f'condition {k}', bad, tag)
                    need(defined, items[2 + 2 * k], f'term {k}', bad, tag)
            elif cls_name == 'Elem':
                d = dict(zip(keys, ops))
                key = Numeric(float(keys[0])) if mix != 2 else keys[0]
                node = ex.Elem(d, key)
                sig = node.get_signature()
                typ, ident, count, items, defined = common(cls_name, node, sig, bad, tag)
                if int(count) != n or len(items) != 2 + 2 * n:
                    bad.append(f'{tag}: count {count}, {len(items)} items for {n} entries')
                if items[1] != str(node.keyExpression.get_id()):
                    bad.append(f'{tag}: item 1 is not the id of the key expression')
                need(defined, items[1], 'key expression', bad, tag)
                decoded = {}
                for k in range(min(int(count), (len(items) - 2) // 2)):
                    decoded[int(items[2 + 2 * k])] = items[3 + 2 * k]
                    need(defined, items[3 + 2 * k], f'entry {k}', bad, tag)
                want = {kk: str(v.get_id()) for kk, v in node.dict_of_expressions.items()}
                if decoded != want:
                    bad.append(f'{tag}: decoded map {decoded} differs from the dictionary {want}')
                if list(node.dict_of_expressions) != keys or (mix != 2 and any(node.dict_of_expressions[kk] is not d[kk] for kk in keys)):
                    bad.append(f'{tag}: the node dictionary is not the argument dictionary')
                if node.get_children()[0] is not node.keyExpression or \
                        any(a is not b for a, b in zip(node.get_children()[1:], node.dict_of_expressions.values())):
                    bad.append(f'{tag}: children are not [key expression] + dictionary values')
            elif cls_name == 'bioLinearUtility':
                betas = [Beta(f'b{k}', 0.1 * k, None, None, (k + mix) % 2) for k in range(n)]
                xs = [Variable(f'x{k}') for k in range(n)]
                if mix == 1 and n > 1:
                    betas[-1] = betas[0]          # a repeated parameter
                for k, (b, x) in enumerate(zip(betas, xs)):
                    b.elementaryIndex, b.betaId = 10 + k, k
                    x.elementaryIndex, x.variableId = 20 + k, k
                node = ex.bioLinearUtility([LinearTermTuple(beta=b, x=x) for b, x in zip(betas, xs)])
                sig = node.get_signature()
                typ, ident, count, items, defined = common(cls_name, node, sig, bad, tag)
                if int(count) != n or len(items) != 1 + 6 * n:
                    bad.append(f'{tag}: count {count}, {len(items)} items for {n} terms')
                for k in range(n):
                    got = items[1 + 6 * k: 7 + 6 * k]
                    b, x = betas[k], xs[k]
                    want = [str(b.get_id()), str(b.elementaryIndex), b.name, str(x.get_id()), str(x.elementaryIndex), x.name]
                    if got != want:
                        bad.append(f'{tag}: term {k} reads {got}, expected {want}')
                    need(defined, got[0], f'beta {k}', bad, tag)
                    need(defined, got[3], f'variable {k}', bad, tag)
                if any(a is not b for a, b in zip(node.get_children(), betas + xs)) or len(node.get_children()) != 2 * n:
                    bad.append(f'{tag}: children are not betas + variables')
            elif cls_name in ('_bioLogLogit', '_bioLogLogitFullChoiceSet'):
                util = dict(zip(keys, ops))
                choice = Numeric(float(keys[0])) if mix != 2 else keys[0]
                if cls_name == '_bioLogLogit':
                    av = {kk: Numeric(1.0) for kk in reversed(keys)} if mix != 2 else {kk: 1 for kk in keys}
                    if mix == 0:
                        av = None
                    node = _bioLogLogit(util, av, choice)
                else:
                    node = _bioLogLogitFullChoiceSet(util, choice)
                sig = node.get_signature()
                typ, ident, count, items, defined = common(cls_name, node, sig, bad, tag)
                if int(count) != n or len(items) != 2 + 3 * n:
                    bad.append(f'{tag}: count {count}, {len(items)} items for {n} alternatives')
                if items[1] != str(node.choice.get_id()):
                    bad.append(f'{tag}: item 1 is not the id of the choice expression')
                need(defined, items[1], 'choice', bad, tag)
                dec_u, dec_a = {}, {}
                for k in range(min(int(count), (len(items) - 2) // 3)):
                    alt = int(items[2 + 3 * k])
                    dec_u[alt], dec_a[alt] = items[3 + 3 * k], items[4 + 3 * k]
                    need(defined, items[3 + 3 * k], f'utility of {alt}', bad, tag)
                    need(defined, items[4 + 3 * k], f'availability of {alt}', bad, tag)
                if dec_u != {kk: str(v.get_id()) for kk, v in node.util.items()}:
                    bad.append(f'{tag}: decoded utilities {dec_u} differ from util')
                if dec_a != {kk: str(v.get_id()) for kk, v in node.av.items()}:
                    bad.append(f'{tag}: decoded availabilities {dec_a} differ from av')
                if mix != 2 and any(node.util[kk] is not util[kk] for kk in keys):
                    bad.append(f'{tag}: util does not hold the argument expressions')
                layout = [node.choice] + list(node.util.values()) + list(node.av.values())
                if len(layout) != len(node.get_children()) or any(a is not b for a, b in zip(layout, node.get_children())):
                    bad.append(f'{tag}: children are not [choice] + utilities + availabilities')
            elif cls_name == 'BelongsTo':
                the_set = set([1.0, 2.0, 5.0, 7.0][:n]) if mix != 2 else set([1, 2, 5, 7][:n])
                child = ops[0]
                node = ex.BelongsTo(child, the_set)
                sig = node.get_signature()
                typ, ident, count, items, defined = common(cls_name, node, sig, bad, tag)
                if int(count) != n or len(items) != 2 + n:
                    bad.append(f'{tag}: count {count}, {len(items)} items for {n} members')
                if items[1] != str(node.child.get_id()):
                    bad.append(f'{tag}: item 1 is not the id of the child')
                need(defined, items[1], 'child', bad, tag)
                members = sorted(float(x) for x in items[2:2 + int(count)])
                if members != sorted(float(x) for x in the_set):
                    bad.append(f'{tag}: members read {members}, the set is {sorted(the_set)}')
    return bad


if __name__ == '__main__':
    names = sys.argv[1:] or ['bioMultSum', 'ConditionalSum', 'Elem', 'bioLinearUtility', '_bioLogLogit',
                             '_bioLogLogitFullChoiceSet', 'BelongsTo']
    fails, n = [], 0
    for nme in names:
        try:
            b = check_class(nme)
        except Exception as e:      # a crash of the real code on a well-formed node is a failure of the clause
            import traceback
            b = [f'{nme}: {type(e).__name__}: {e}', traceback.format_exc()[-600:]]
        n += 12
        if b:
            fails.append({'check': f'class {nme}', 'detail': b[:4]})
    print(json.dumps({'cases': n, 'failures': fails}))
    sys.exit(1 if fails else 0)
