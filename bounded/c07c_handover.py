"""C07 (c07c): native re-check of the hand-over clauses of the wrappers of biogeme.optimization (replay of the deductive
obligations of contracts/c07c_optimization.py, and bounded stand-in).

usage: c07c_handover.py <wrapper name | all>

The underlying optimiser (scipy.optimize.minimize / biogeme_optimization.*) is replaced by a spy that records what it
receives and returns a sentinel.  Each wrapper is called on a fixed candidate list: 7 bound lists (None / 0 / -0.0 /
negative / positive / one- and two-sided entries) x parameter dicts (None, {}, every documented key alone with a non-default
value, every key with a zero / False value, all keys together).  Checked: exactly one call; exactly the expected argument
names; the function object, the starting point and (simple_bounds*) the variable names are the caller's objects; the bounds
are the caller's (None == absent == -/+ infinity; every other value kept, order kept); every configured parameter has the
caller's value when given and the default otherwise; the optimiser's result is returned unchanged (scipy: field by field);
scipy's objective evaluates fct.f_g at the point it is given.
Prints one JSON line {"cases": n, "failures": [...]}; exit 0/1."""
import json
import math
import sys
import warnings

import numpy as np

warnings.simplefilter('ignore')
import logging  # noqa: E402
logging.disable(logging.CRITICAL)

BOUNDS = [
    [(None, None), (None, None)],
    [(None, 0.0), (0.0, None)],
    [(0.0, 1.0), (-1.0, 0.0)],
    [(-5.0, 5.0), (None, -2.5)],
    [(0, None), (None, 0)],
    [(-0.0, 3.0), (1e-12, None)],
    [(-3.0, -1.0), (2.0, 2.0)],
]
CGTOL = np.finfo(np.float64).eps ** 0.3333

# wrapper -> (attribute spied in biogeme.optimization, {callee keyword: (parameter key | None, default)})
LS_N = {'maxiter': ('maxiter', 100)}
TR_N = {'maxiter': ('maxiter', 100), 'use_dogleg': ('dogleg', False), 'initial_radius': ('radius', 1.0)}
LS_B = {'maxiter': ('maxiter', 100), 'init_bfgs': ('initBfgs', None)}
TR_B = {**TR_N, 'init_bfgs': ('initBfgs', None)}


def sb(prop):
    return {'proportion_analytical_hessian': prop, 'first_radius': ('radius', 1.0),
            'conjugate_gradient_tol': ('cgtolerance', CGTOL), 'maxiter': ('maxiter', 1000),
            'eta1': ('eta1', 0.1), 'eta2': ('eta2', 0.9), 'enlarging_factor': ('enlargingFactor', 2)}


WRAPPERS = {
    'newton_linesearch_for_biogeme': ('newton_line_search', LS_N, False),
    'newton_trust_region_for_biogeme': ('newton_trust_region', TR_N, False),
    'bfgs_linesearch_for_biogeme': ('bfgs_line_search', LS_B, False),
    'bfgs_trust_region_for_biogeme': ('bfgs_trust_region', TR_B, False),
    'simple_bounds_newton_algorithm_for_biogeme': ('simple_bounds_newton_algorithm', sb(('proportionAnalyticalHessian', 1.0)), True),
    'bio_newton': ('simple_bounds_newton_algorithm', sb((None, 1)), True),
    'bio_bfgs': ('simple_bounds_newton_algorithm', sb((None, 0)), True),
}
SENTINELS = {'maxiter': 7, 'dogleg': True, 'radius': 3.25, 'initBfgs': np.array([[2.0, 0.0], [0.0, 2.0]]), 'cgtolerance': 0.125,
             'eta1': 0.3, 'eta2': 0.7, 'enlargingFactor': 5, 'proportionAnalyticalHessian': 0.5}
ZEROS = {'maxiter': 0, 'dogleg': False, 'radius': 0.0, 'initBfgs': None, 'cgtolerance': 0.0, 'eta1': 0.0, 'eta2': 0.0,
         'enlargingFactor': 0, 'proportionAnalyticalHessian': 0.0}


def lb(v):
    return -math.inf if v is None else float(v)


def ub(v):
    return math.inf if v is None else float(v)


def pairs_of(b):
    if b is None:
        return None
    if hasattr(b, 'lb') and hasattr(b, 'ub'):                 # scipy.optimize.Bounds
        return [(lb(x), ub(y)) for x, y in zip(np.atleast_1d(b.lb).tolist(), np.atleast_1d(b.ub).tolist())]
    if hasattr(b, 'bounds'):                                   # biogeme_optimization.bounds.Bounds
        big = float(getattr(type(b), 'INFINITY', math.inf))
        return [(-math.inf if x is None or x <= -big else float(x), math.inf if y is None or y >= big else float(y)) for x, y in b.bounds]
    return [(lb(x), ub(y)) for x, y in b]


def same_value(a, b):
    if isinstance(a, np.ndarray) or isinstance(b, np.ndarray):
        return a is b
    return type(a) is type(b) and a == b or (a is b)


def param_sets(keys):
    out = [None, {}]
    for k in keys:
        out.append({k: SENTINELS[k]})
        out.append({k: ZEROS[k]})
    out.append({k: SENTINELS[k] for k in keys})
    out.append({'unknown_key': 1, 'tolerance': 1e-3})
    return out


def main():
    which = sys.argv[1] if len(sys.argv) > 1 else 'all'
    import biogeme.optimization as opt
    from biogeme_optimization.diagnostics import OptimizationResults
    from biogeme_optimization.function import FunctionData, FunctionToMinimize

    class Quad(FunctionToMinimize):
        def dimension(self):
            return 2

        def _f(self):
            return float(np.sum((self.x - 1.0) ** 2))

        def _f_g(self):
            return FunctionData(function=self._f(), gradient=2 * (self.x - 1.0), hessian=None)

        def _f_g_h(self):
            return FunctionData(function=self._f(), gradient=2 * (self.x - 1.0), hessian=2 * np.eye(2))

    fails, cases = [], 0

    def bad(check, case, expected, got):
        fails.append({'check': check, 'case': case, 'expected': str(expected), 'got': str(got)})

    for wname, (attr, spec, with_bounds) in WRAPPERS.items():
        if which not in ('all', wname):
            continue
        keys = sorted({p[0] for p in spec.values() if isinstance(p, tuple) and p[0]})
        sentinel = OptimizationResults(solution=np.array([9.0, 9.0]), messages={'m': 1}, convergence=True)
        seen = []

        def spy(*a, **k):
            seen.append((a, k))
            return sentinel
        orig = getattr(opt, attr)
        setattr(opt, attr, spy)
        try:
            for bi, cfg in enumerate(BOUNDS):
                for params in (param_sets(keys) if bi < 2 else [None]):
                    cases += 1
                    case = {'wrapper': wname, 'bounds': str(cfg), 'parameters': str(params)}
                    seen.clear()
                    f, x0, names = Quad(), np.array([0.5, 0.5]), ['a', 'b']
                    given = None if params is None else dict(params)
                    try:
                        res = getattr(opt, wname)(f, x0, list(cfg), names, given)
                    except Exception as e:
                        bad(f'{wname}: raises', case, 'no exception', f'{type(e).__name__}: {e}')
                        continue
                    if len(seen) != 1:
                        bad(f'{wname}: exactly one optimiser call', case, 1, len(seen))
                        continue
                    a, k = seen[0]
                    want_names = {'the_function', 'starting_point'} | set(spec) | ({'bounds', 'variable_names'} if with_bounds else set())
                    if a or set(k) != want_names:
                        bad(f'{wname}: argument names', case, sorted(want_names), (len(a), sorted(k)))
                        continue
                    if k['the_function'] is not f:
                        bad(f'{wname}: function object', case, 'the caller\'s object', k['the_function'])
                    if k['starting_point'] is not x0:
                        bad(f'{wname}: starting point', case, 'the caller\'s array', k['starting_point'])
                    if with_bounds:
                        if k['variable_names'] is not names:
                            bad(f'{wname}: variable names', case, names, k['variable_names'])
                        got, want = pairs_of(k['bounds']), [(lb(p), ub(q)) for p, q in cfg]
                        if got != want:
                            bad(f'{wname}: bounds', case, want, got)
                    for kw, src in spec.items():
                        pkey, default = src
                        forced = pkey is None
                        want = default if (forced or params is None or pkey not in params) else params[pkey]
                        if not same_value(k[kw], want):
                            bad(f'{wname}: parameter {kw}', case, repr(want), repr(k[kw]))
                    if res is not sentinel:
                        bad(f'{wname}: result unchanged', case, 'the optimiser\'s result object', res)
        finally:
            setattr(opt, attr, orig)

    if which in ('all', 'scipy'):
        class R:
            x = np.array([4.0, 5.0])
            message = 'spy message'
            nit = 11
            nfev = 13
            success = True
        seen = []

        def spy_min(*a, **k):
            seen.append((a, k))
            return R
        orig = opt.sc.minimize
        opt.sc.minimize = spy_min
        eps = np.finfo(np.float64).eps
        try:
            for bi, cfg in enumerate(BOUNDS):
                for params in ([None, {}, {'gtol': 1e-3}, {'ftol': 0.0}, {'gtol': 0.0, 'maxiter': 5}, {'maxfun': 3}] if bi < 2 else [None]):
                    cases += 1
                    case = {'wrapper': 'scipy', 'bounds': str(cfg), 'parameters': str(params)}
                    seen.clear()
                    f, x0 = Quad(), np.array([0.5, 0.5])
                    try:
                        res = opt.scipy(f, x0, list(cfg), ['a', 'b'], None if params is None else dict(params))
                    except Exception as e:
                        bad('scipy: raises', case, 'no exception', f'{type(e).__name__}: {e}')
                        continue
                    if len(seen) != 1:
                        bad('scipy: exactly one optimiser call', case, 1, len(seen))
                        continue
                    a, k = seen[0]
                    names = ['fun', 'x0', 'args', 'method', 'jac', 'hess', 'hessp', 'bounds', 'constraints', 'tol', 'callback', 'options']
                    k = {**dict(zip(names, a)), **k}
                    extra = set(k) - {'fun', 'x0', 'bounds', 'jac', 'options', 'method'}
                    if extra or k.get('method', 'L-BFGS-B') != 'L-BFGS-B':
                        bad('scipy: argument names', case, 'fun, x0, bounds, jac, options (method L-BFGS-B at most)', sorted(k))
                    if k.get('x0') is not x0:
                        bad('scipy: starting point', case, 'the caller\'s array', k.get('x0'))
                    if k.get('jac') is not True:
                        bad('scipy: jac', case, True, k.get('jac'))
                    got, want = pairs_of(k.get('bounds')), [(lb(p), ub(q)) for p, q in cfg]
                    if got != want:
                        bad('scipy: bounds', case, want, got)
                    wopts = {'ftol': eps, 'gtol': 1.0e-7, **(params or {})}
                    if k.get('options') != wopts:
                        bad('scipy: options', case, wopts, k.get('options'))
                    pt = np.array([0.25, -2.0])
                    try:
                        v, g = k['fun'](pt)
                        f2 = Quad()
                        f2.set_variables(pt)
                        w = f2.f_g()
                        if v != w.function or not np.array_equal(g, w.gradient) or not np.array_equal(f.x, pt):
                            bad('scipy: objective is f_g of the function object', case, (w.function, w.gradient), (v, g))
                    except Exception as e:
                        bad('scipy: objective is f_g of the function object', case, 'callable objective', f'{type(e).__name__}: {e}')
                    ok = (res.solution is R.x and res.convergence is R.success and res.messages.get('Cause of termination') == R.message
                          and res.messages.get('Number of iterations') == R.nit and res.messages.get('Number of function evaluations') == R.nfev)
                    if not ok:
                        bad('scipy: result repackaged unchanged', case, 'x, message, nit, nfev, success of the optimiser', res)
        finally:
            opt.sc.minimize = orig
    print(json.dumps({'cases': cases, 'failures': fails[:40]}))
    return 1 if fails else 0


if __name__ == '__main__':
    sys.exit(main())
