"""C07 bounded stand-in: BIOGEME.estimate()/quick_estimate() on small concave logit problems, every
algorithm of biogeme.optimization.algorithms, against a numpy oracle written from the property.

Property C07: for every estimable model and every available optimisation algorithm, the returned
estimates respect the declared bounds whenever the algorithm supports bounds, the final log likelihood
is not lower than the initial one and equals the likelihood recomputed at the returned estimates, and
the reported gradient, Hessian and BHHH are those of the likelihood at that point.  When convergence is
reported on a concave problem, the gradient vanishes in every direction not blocked by an active bound
and all algorithms agree on the maximum value.  After estimation the formulas' starting values equal the
estimates and fixed parameters are untouched.

Oracle (independent of biogeme's evaluator): multinomial logit with linear-in-parameters utilities,
    LL(b)   = sum_n [ V_n,c(n) - log sum_{j available} exp V_nj ],  V_nj = X_nj . b + offset_nj
    grad    = sum_n ( X_n,c(n) - sum_j P_nj X_nj )
    Hessian = - sum_n sum_j P_nj (X_nj - Xbar_n)(X_nj - Xbar_n)^T
    BHHH    = sum_n grad_n grad_n^T
in numpy, and the exact box-constrained maximum by enumeration of the active sets (each of <= 3
parameters free / at its lower bound / at its upper bound), a damped Newton iteration on the free
coordinates to |g| < 1e-11, and the KKT sign conditions (strict concavity => unique solution).

Reported convergence and the gradient: the bound on the free gradient components is the algorithm's own one
(biogeme_optimization: |g_i| max(|x_i|,1) / max(|f|, |f(start)|, 1) <= tolerance; scipy: |proj g|_inf <= 1e-7 or a
relative decrease <= eps).  The simple_bounds family also reports convergence=True on 'Relative change <= steptol',
which happens with a ZERO step as soon as |g_free|_2 <= cgtolerance = eps**0.3333 ~ 6.1e-6 whatever `tolerance` is
(see CGTOL below); the harness allows that threshold for these stops.

Extra clause (one run per problem): after estimate(run_bootstrap=True) the reported log likelihood must still equal
calculate_likelihood(x*) on the same object (the engine must not be left on a bootstrap sample).

usage: c07_estimation.py <quick|thorough> <seed>     -> last stdout line = one JSON object
       c07_estimation.py --case '<json>'             -> re-run one estimation verbosely
"""
import itertools
import json
import logging
import math
import os
import shutil
import sys
import tempfile
import time
import warnings

for _v in ('OMP_NUM_THREADS', 'OPENBLAS_NUM_THREADS', 'MKL_NUM_THREADS'):
    os.environ.setdefault(_v, '1')           # tiny matrices: threaded BLAS only costs time

import numpy as np
import pandas as pd

warnings.simplefilter('ignore')

BOUND_ALGOS = {'scipy', 'simple_bounds', 'simple_bounds_newton', 'simple_bounds_BFGS'}
# read from /repo/src/biogeme/optimization.py: the four others log 'bounds will be ignored'
TOL = 1.0e-7                     # `tolerance` (section SimpleBounds) given to the biogeme algorithms
DEFAULT_TOL = float(np.finfo(np.float64).eps ** 0.25)
STEPTOL = 1.0e-12                # `steptol` given together with TOL (default: 1e-5)
DEFAULT_STEPTOL = 1.0e-5
CGTOL = float(np.finfo(np.float64).eps ** 0.3333)   # conjugate-gradient tolerance of the simple_bounds family
SCIPY_GTOL = 1.0e-7              # hard-wired in optimization.scipy
ACTIVE_EPS = 1.0e-6              # a bound is 'active' when the estimate is within this distance of it

MAX_FAIL = 10


# ------------------------------------------------------------------------------------------------
# oracle
# ------------------------------------------------------------------------------------------------
class Logit:
    """X: (N, J, K) attributes of the free parameters, off: (N, J) fixed part, av: (N, J) 0/1,
    ch: (N,) index of the chosen alternative."""

    def __init__(self, X, off, av, ch):
        self.X, self.off, self.av, self.ch = X, off, av.astype(bool), ch
        self.N, self.J, self.K = X.shape

    def parts(self, b):
        V = self.X @ b + self.off
        V = np.where(self.av, V, -np.inf)
        m = V.max(axis=1, keepdims=True)
        e = np.exp(V - m)
        s = e.sum(axis=1, keepdims=True)
        P = e / s
        rows = np.arange(self.N)
        ll_n = V[rows, self.ch] - (m[:, 0] + np.log(s[:, 0]))
        xbar = np.einsum('nj,njk->nk', P, self.X)
        g_n = self.X[rows, self.ch, :] - xbar
        return ll_n, P, xbar, g_n

    def ll(self, b):
        return float(math.fsum(self.parts(np.asarray(b, float))[0]))

    def all(self, b):
        ll_n, P, xbar, g_n = self.parts(np.asarray(b, float))
        d = self.X - xbar[:, None, :]
        H = -np.einsum('nj,nja,njb->ab', P, d, d)
        return float(math.fsum(ll_n)), g_n.sum(axis=0), H, g_n.T @ g_n

    def newton(self, b0, free):
        """maximise over the coordinates in `free`, the others kept at b0"""
        b = np.array(b0, float)
        free = list(free)
        if not free:
            return b
        for _ in range(200):
            f, g, H, _ = self.all(b)
            gf = g[free]
            if np.abs(gf).max() < 1e-11:
                return b
            step = np.linalg.solve(-H[np.ix_(free, free)], gf)
            t = 1.0
            while True:
                c = b.copy()
                c[free] += t * step
                if self.ll(c) >= f + 1e-4 * t * float(gf @ step) or t < 1e-12:
                    break
                t *= 0.5
            b = c
        return b

    def box_max(self, lb, ub):
        """exact maximum on the box by active-set enumeration; returns (x, f) or None"""
        K = self.K
        best = None
        for states in itertools.product((0, -1, 1), repeat=K):
            if any((s == -1 and lb[i] is None) or (s == 1 and ub[i] is None) for i, s in enumerate(states)):
                continue
            b0 = np.zeros(K)
            for i, s in enumerate(states):
                if s == -1:
                    b0[i] = lb[i]
                elif s == 1:
                    b0[i] = ub[i]
            free = [i for i, s in enumerate(states) if s == 0]
            x = self.newton(b0, free)
            f, g, _, _ = self.all(x)
            ok = True
            for i, s in enumerate(states):
                if s == 0:
                    ok &= abs(g[i]) < 1e-9
                    ok &= (lb[i] is None or x[i] >= lb[i] - 1e-12) and (ub[i] is None or x[i] <= ub[i] + 1e-12)
                elif s == -1:
                    ok &= g[i] <= 1e-12
                else:
                    ok &= g[i] >= -1e-12
            if ok and (best is None or f > best[1]):
                best = (x, f)
        return best


# ------------------------------------------------------------------------------------------------
# problems
# ------------------------------------------------------------------------------------------------
SPECS = [   # (J, free parameters).  'asc<j>' = constant of alternative j, 'b<k>' = generic coefficient of x<k>_<j>
    (2, ['b1']),
    (2, ['asc1', 'b1']),
    (2, ['asc1', 'b1', 'b2']),
    (3, ['b1', 'b2']),
    (3, ['asc1', 'asc2', 'b1']),
    (3, ['asc2', 'b1', 'b2']),
]


def make_problem(rng, spec_id, with_avail):
    J, names = SPECS[spec_id]
    for _attempt in range(50):
        N = int(rng.integers(18, 41))
        cols = {}
        for k in (1, 2):
            for j in range(1, J + 1):
                cols[f'x{k}_{j}'] = np.round(rng.normal(size=N), 3)
        for j in range(1, J + 1):
            cols[f'z_{j}'] = np.round(rng.normal(size=N), 3)
        av = np.ones((N, J), int)
        if with_avail and J == 3:
            av = (rng.random((N, J)) < 0.8).astype(int)
        fixed_value = float(np.round(rng.uniform(-1, 1), 2))
        K = len(names)
        X = np.zeros((N, J, K))
        for kk, nm in enumerate(names):
            if nm.startswith('asc'):
                X[:, int(nm[3:]) - 1, kk] = 1.0
            else:
                for j in range(J):
                    X[:, j, kk] = cols[f'x{nm[1:]}_{j + 1}']
        off = np.stack([fixed_value * cols[f'z_{j + 1}'] for j in range(J)], axis=1)
        true_b = rng.uniform(-1, 1, size=K)
        V = X @ true_b + off
        ch = np.zeros(N, int)
        for n in range(N):
            if av[n].sum() == 0:
                av[n, int(rng.integers(0, J))] = 1
            p = np.where(av[n] == 1, np.exp(V[n]), 0.0)
            p = p / p.sum()
            ch[n] = int(rng.choice(J, p=p))
        if min(np.bincount(ch, minlength=J)) < 3:
            continue
        model = Logit(X, off, av, ch)
        u = model.box_max([None] * K, [None] * K)
        if u is None or np.abs(u[0]).max() > 4.0:
            continue                      # (quasi-)separation: no well-defined interior maximum
        _, _, H, _ = model.all(u[0])
        if np.linalg.eigvalsh(-H).min() < 0.3:
            continue
        for j in range(J):
            cols[f'av_{j + 1}'] = av[:, j]
        cols['choice'] = ch + 1
        return {'J': J, 'names': names, 'fixed_value': fixed_value, 'cols': cols, 'with_avail': bool(with_avail and J == 3),
                'model': model, 'u': u[0], 'fu': u[1], 'N': N}
    raise RuntimeError('no admissible data set generated')


def bound_configs(rng, prob):
    """name -> (lb list, ub list), indexed like prob['names']"""
    K = len(prob['names'])
    u = prob['u']
    none = [None] * K
    j0 = int(rng.integers(0, K))
    cfg = {'none': (list(none), list(none)),
           'wide': ([-10.0] * K, [10.0] * K)}
    lb, ub = list(none), list(none)
    ub[j0] = float(np.round(u[j0] - 0.25, 2))
    cfg['active_ub_onesided'] = (lb, ub)
    lb, ub = [-10.0] * K, [10.0] * K
    lb[j0] = float(np.round(u[j0] + 0.2, 2))
    ub[j0] = lb[j0] + 2.0
    cfg['active_lb_twosided'] = (lb, ub)
    lb, ub = list(none), list(none)
    lb[j0] = float(np.round(u[j0] - 1.0, 2))
    cfg['inactive_lb_onesided'] = (lb, ub)
    if K >= 2:
        j1 = (j0 + 1) % K
        lb, ub = list(none), list(none)
        ub[j0] = float(np.round(u[j0] - 0.3, 2))
        lb[j1] = float(np.round(u[j1] + 0.3, 2))
        cfg['two_active'] = (lb, ub)
    return cfg


def project(x, lb, ub):
    y = np.array(x, float)
    for i in range(len(y)):
        if lb[i] is not None and y[i] < lb[i]:
            y[i] = lb[i]
        if ub[i] is not None and y[i] > ub[i]:
            y[i] = ub[i]
    return y


# ------------------------------------------------------------------------------------------------
# real code
# ------------------------------------------------------------------------------------------------
def build(prob, lb, ub, start, algo, tol, bootstrap=None):
    """a fresh BIOGEME; returns (biogeme object, list of all Beta objects created, the fixed Betas)"""
    import biogeme.biogeme as bio
    import biogeme.database as db
    from biogeme import models
    from biogeme.expressions import Beta, Variable
    from biogeme.parameters import Parameters

    J, names = prob['J'], prob['names']
    idx = {nm: i for i, nm in enumerate(names)}
    free_objs, fixed_objs = [], []

    def free(nm):      # a NEW object at each use: the write-back has to reach every occurrence
        i = idx[nm]
        o = Beta(nm, float(start[i]), lb[i], ub[i], 0)
        free_objs.append(o)
        return o

    def fixed():
        o = Beta('b_fixed', prob['fixed_value'], None, None, 1)
        fixed_objs.append(o)
        return o

    V = {}
    for j in range(1, J + 1):
        terms = fixed() * Variable(f'z_{j}')
        for nm in names:
            if nm.startswith('asc'):
                if int(nm[3:]) == j:
                    terms = terms + free(nm)
            else:
                terms = terms + free(nm) * Variable(f'x{nm[1:]}_{j}')
        V[j] = terms
    av = {j: Variable(f'av_{j}') for j in range(1, J + 1)} if prob['with_avail'] else None
    loglike = models.loglogit(V, av, Variable('choice'))
    database = db.Database('c07', pd.DataFrame(prob['cols']))
    p = Parameters()
    p.set_value('optimization_algorithm', algo, section='Estimation')
    p.set_value('save_iterations', False, section='Estimation')
    p.set_value('generate_html', False, section='Output')
    p.set_value('generate_pickle', False, section='Output')
    p.set_value('number_of_threads', 1, section='MultiThreading')
    if tol is not None:
        # gradient-only termination: the step-length criterion (steptol) of the simple_bounds family also reports
        # convergence=True ('Relative change <= steptol') without any statement on the gradient
        p.set_value('tolerance', float(tol), section='SimpleBounds')
        p.set_value('steptol', STEPTOL, section='SimpleBounds')
    if bootstrap is not None:
        p.set_value('bootstrap_samples', int(bootstrap), section='Estimation')
    b = bio.BIOGEME(database, loglike, parameters=p)
    b.modelName = 'c07model'
    return b, free_objs, fixed_objs


def close(a, b, rtol, atol):
    a, b = np.asarray(a, float), np.asarray(b, float)
    return a.shape == b.shape and bool(np.all(np.abs(a - b) <= atol + rtol * np.abs(b)))


def run_one(prob, cfg_name, lb, ub, start_id, start, algo, tol, targets, fail, info, verbose=False):
    """one estimate() + one quick_estimate(); appends failures through fail(clause, expected, got)"""
    model = prob['model']
    names = prob['names']
    K = len(names)
    b, free_objs, fixed_objs = build(prob, lb, ub, start, algo, tol)
    order = list(b.free_beta_names)                      # biogeme's order of the free parameters
    perm = [names.index(nm) for nm in order]             # biogeme position -> oracle position
    if sorted(order) != sorted(names):
        fail('harness.free-names', sorted(names), order)
        return
    r = b.estimate()
    d = r.data
    x_b = np.array(d.betaValues, float)                  # biogeme order
    x = np.empty(K)
    x[perm] = x_b                                        # oracle order
    supports = algo in BOUND_ALGOS
    eff_lb, eff_ub = (lb, ub) if supports else ([None] * K, [None] * K)
    if verbose:
        print('estimates', dict(zip(order, x_b)), 'logLike', d.logLike, 'init', d.initLogLike,
              'convergence', d.convergence, d.optimizationMessages)

    # 1. feasibility
    if supports:
        for i in range(K):
            if (lb[i] is not None and x[i] < lb[i]) or (ub[i] is not None and x[i] > ub[i]):
                fail('feasible-when-bounds-supported', {'name': names[i], 'lb': lb[i], 'ub': ub[i]}, float(x[i]))

    # 2. initial likelihood and monotonicity
    ll0 = model.ll(start)
    if d.initLogLike is None or not close(d.initLogLike, ll0, 1e-9, 1e-9):
        fail('init-loglike-is-likelihood-at-start', ll0, d.initLogLike)
    if not (d.logLike >= d.initLogLike - 1e-10):
        fail('final-not-below-initial', f'>= {d.initLogLike}', d.logLike)
    if not (d.logLike >= ll0 - 1e-8):
        fail('final-not-below-initial(oracle start value)', f'>= {ll0}', d.logLike)

    # 3./4. value and derivatives at the returned point: real recomputation and numpy oracle
    f_re = b.calculate_likelihood(x_b, scaled=False)
    if not close(d.logLike, f_re, 1e-9, 1e-9):
        fail('loglike-equals-recomputed', f_re, d.logLike)
    fo, go, Ho, Bo = model.all(x)
    go_b, Ho_b, Bo_b = go[perm], Ho[np.ix_(perm, perm)], Bo[np.ix_(perm, perm)]
    if not close(d.logLike, fo, 1e-9, 1e-9):
        fail('loglike-equals-oracle-at-estimates', fo, d.logLike)
    fgh = b.calculate_likelihood_and_derivatives(x_b, scaled=False, hessian=True, bhhh=True)
    for nm, got, re_, orc in (('gradient', d.g, fgh.gradient, go_b), ('hessian', d.H, fgh.hessian, Ho_b),
                              ('bhhh', d.bhhh, fgh.bhhh, Bo_b)):
        if got is None or not close(got, re_, 1e-9, 1e-9):
            fail(f'{nm}-equals-recomputed', np.asarray(re_).tolist(), None if got is None else np.asarray(got).tolist())
        if got is None or not close(got, orc, 1e-7, 1e-8):
            fail(f'{nm}-equals-oracle-at-estimates', np.asarray(orc).tolist(), None if got is None else np.asarray(got).tolist())

    # 5./6. reported convergence on a concave problem
    info['runs'] += 1
    if d.convergence:
        info['converged'] += 1
        g = go                                            # oracle gradient, oracle order
        scale_f = max(abs(ll0), abs(fo), 1.0)
        worst = None
        for i in range(K):
            at_ub = eff_ub[i] is not None and x[i] >= eff_ub[i] - ACTIVE_EPS
            at_lb = eff_lb[i] is not None and x[i] <= eff_lb[i] + ACTIVE_EPS
            blocked = (at_ub and g[i] > 0) or (at_lb and g[i] < 0)
            if blocked:
                continue
            if algo == 'scipy':
                # L-BFGS-B stops on |proj g|_inf <= gtol=1e-7 or on a relative decrease <= ftol=eps
                allowed = SCIPY_GTOL * 1.001 + 1e-12 if 'PROJECTED GRADIENT' in str(
                    d.optimizationMessages.get('Cause of termination')) else 1e-5 * scale_f
            else:
                # relative gradient |g_i| max(|x_i|,1) / max(|f|, typf) <= tolerance, typf = max(|f(start)|, 1)
                t = DEFAULT_TOL if tol is None else tol
                allowed = t * scale_f / max(abs(x[i]), 1.0) * 1.001 + 1e-12
                if str(d.optimizationMessages.get('Cause of termination')).startswith('Relative change'):
                    # stopped on the step length |dx_j| <= steptol max(|x_j|,1): quasi-Newton step => |g| <~ |H| |dx|
                    # ... or on a zero step: the truncated conjugate gradient returns the iterate itself as soon as
                    # |g_free|_2 <= cgtolerance (optimization.py: eps**0.3333, not linked to `tolerance`), the zero
                    # step is accepted (rho = 0/0 = nan is not < eta1) and 'Relative change = 0' reports convergence
                    st = DEFAULT_STEPTOL if tol is None else STEPTOL
                    allowed = max(allowed, CGTOL * 1.001,
                                  10.0 * sum(abs(Ho[i, j]) * st * max(abs(x[j]), 1.0) for j in range(K)))
                    info['steptol_stops'] = info.get('steptol_stops', 0) + 1
            if abs(g[i]) > allowed and (worst is None or abs(g[i]) / allowed > worst[2]):
                worst = (names[i], float(g[i]), abs(g[i]) / allowed, allowed)
        if worst is not None:
            fail('converged=>free-gradient-vanishes', f'|g[{worst[0]}]| <= {worst[3]:.3g}', worst[1])
        key = 'box' if supports else 'free'
        fmax = targets[key][1]
        gfree = [abs(g[i]) for i in range(K)]
        agree_tol = 1e-5
        if tol is None:                                   # default (looser) tolerance: second-order bound
            lam = float(np.linalg.eigvalsh(-Ho).min())
            agree_tol = max(1e-5, float(np.sum(np.square(gfree))) / lam)
        if not (fmax - agree_tol <= d.logLike <= fmax + 1e-8):
            fail('converged=>maximum-value(all algorithms agree)', fmax, d.logLike)

    # 7. write-back
    for o in free_objs:
        want = float(x[names.index(o.name)])
        if not (o.initValue == want):
            fail('free-beta-start-equals-estimate', {o.name: want}, o.initValue)
            break
    got = b.log_like.get_beta_values()
    want = {nm: float(x[names.index(nm)]) for nm in names}
    if got != want:
        fail('formula-beta-values-equal-estimates', want, got)
    for o in fixed_objs:
        if not (o.initValue == prob['fixed_value'] and o.status == 1 and o.lb is None and o.ub is None):
            fail('fixed-beta-untouched', prob['fixed_value'], [o.initValue, o.status, o.lb, o.ub])
            break
    for o in free_objs:
        i = names.index(o.name)
        if o.lb != lb[i] or o.ub != ub[i] or o.status != 0:
            fail('free-beta-bounds-and-status-untouched', [lb[i], ub[i], 0], [o.lb, o.ub, o.status])
            break

    # 8. quick_estimate from the same start
    b2, _, fixed2 = build(prob, lb, ub, start, algo, tol)
    r2 = b2.quick_estimate()
    if not close(r2.data.logLike, d.logLike, 1e-9, 1e-9):
        fail('quick_estimate-agrees-on-loglike', d.logLike, r2.data.logLike)
    if not close(r2.data.betaValues, x_b, 1e-9, 1e-9):
        fail('quick_estimate-agrees-on-estimates', x_b.tolist(), list(r2.data.betaValues))
    for o in fixed2:
        if o.initValue != prob['fixed_value']:
            fail('fixed-beta-untouched(quick_estimate)', prob['fixed_value'], o.initValue)
            break
    return float(d.logLike), bool(d.convergence)


def run_bootstrap_case(prob, fail):
    """estimate(run_bootstrap=True): the reported likelihood is still the one recomputed on the same object"""
    K = len(prob['names'])
    none = [None] * K
    b, _, _ = build(prob, none, none, np.zeros(K), 'simple_bounds', TOL, bootstrap=3)
    np.random.seed(12345)
    r = b.estimate(run_bootstrap=True)
    x_b = np.array(r.data.betaValues, float)
    x = np.empty(K)
    x[[prob['names'].index(nm) for nm in b.free_beta_names]] = x_b
    fo = prob['model'].ll(x)
    if not close(r.data.logLike, fo, 1e-9, 1e-9):
        fail('after-bootstrap.loglike-equals-oracle-at-estimates', fo, r.data.logLike)
    f_re = b.calculate_likelihood(x_b, scaled=False)
    if not close(r.data.logLike, f_re, 1e-9, 1e-9):
        fail('after-bootstrap.loglike-equals-recomputed', f_re, r.data.logLike)


# ------------------------------------------------------------------------------------------------
# driver
# ------------------------------------------------------------------------------------------------
def problems_for(seed, nprob):
    rng = np.random.default_rng([seed, 7007])
    specs = list(rng.permutation(len(SPECS)))
    # always at least one binary and one 3-alternative specification
    binary = [s for s in specs if SPECS[s][0] == 2]
    ternary = [s for s in specs if SPECS[s][0] == 3]
    chosen = []
    while len(chosen) < nprob:
        chosen.append((binary if len(chosen) % 2 == 0 else ternary)[(len(chosen) // 2) % 3])
    out = []
    for pi, s in enumerate(chosen):
        prng = np.random.default_rng([seed, 7007, pi])
        prob = make_problem(prng, int(s), with_avail=bool(pi % 2 == 1 and (pi // 2) % 2 == 0))
        prob['cfgs'] = bound_configs(prng, prob)
        K = len(prob['names'])
        prob['starts_raw'] = [np.zeros(K), prob['u'] + prng.normal(size=K), np.round(prng.uniform(-2, 2, size=K), 2)]
        prob['spec'] = int(s)
        out.append(prob)
    return out


def main():
    logging.disable(logging.CRITICAL)
    if sys.argv[1] == '--case':
        case = json.loads(sys.argv[2])
        tier_tols = [case['tol']]
    else:
        tier, seed = sys.argv[1], int(sys.argv[2])
        case = None
    import biogeme.optimization as opt
    algos = list(opt.algorithms.keys())

    t0 = time.time()
    cwd = os.getcwd()
    tmp = tempfile.mkdtemp(prefix='c07_')
    os.chdir(tmp)
    failures, nfail, cases = [], 0, 0
    info = {'runs': 0, 'converged': 0}
    unexpected_files = set()
    try:
        if case is not None:
            seeds, nprob, tols = [case['seed']], case['problem'] + 1, [case['tol']]
        elif tier == 'quick':
            seeds, nprob, tols = [seed], 3, [TOL]
        else:
            seeds, nprob, tols = [seed * 5 + i for i in range(5)], 4, [TOL, None]
        for sd in seeds:
            probs = problems_for(sd, nprob)
            for pi, prob in enumerate(probs):
                if case is not None and pi != case['problem']:
                    continue
                K = len(prob['names'])
                free_t = (prob['u'], prob['fu'])
                if case is None:
                    cases += 1
                    desc = {'seed': sd, 'problem': pi, 'spec': [prob['J'], prob['names']], 'N': prob['N'],
                            'bounds': 'none', 'start': 0, 'algo': 'simple_bounds', 'run_bootstrap': True, 'bootstrap_samples': 3}

                    def bfail(clause, expected, got, desc=desc):
                        nonlocal nfail
                        nfail += 1
                        if len(failures) < MAX_FAIL:
                            failures.append({'clause': clause, 'case': desc, 'expected': expected, 'got': got})
                    try:
                        run_bootstrap_case(prob, bfail)
                    except Exception as e:  # noqa: BLE001
                        bfail('harness.exception', 'no exception', f'{type(e).__name__}: {e}')
                for cfg_name, (lb, ub) in prob['cfgs'].items():
                    if case is not None and cfg_name != case['bounds']:
                        continue
                    box_t = prob['model'].box_max(lb, ub)
                    targets = {'box': box_t, 'free': free_t}
                    for si, raw in enumerate(prob['starts_raw']):
                        start = project(raw, lb, ub)
                        for tol in tols:
                            if tol is None and si != 0:
                                continue            # default tolerance: first starting point only
                            for algo in algos:
                                if case is not None and (si != case['start'] or algo != case['algo']):
                                    continue
                                cases += 1
                                desc = {'seed': sd, 'problem': pi, 'spec': [prob['J'], prob['names']], 'N': prob['N'],
                                        'avail': prob['with_avail'], 'bounds': cfg_name, 'lb': lb, 'ub': ub,
                                        'start': si, 'start_values': [float(v) for v in start], 'algo': algo, 'tol': tol}

                                def fail(clause, expected, got, desc=desc):
                                    nonlocal nfail
                                    nfail += 1
                                    if len(failures) < MAX_FAIL:
                                        failures.append({'clause': clause, 'case': desc, 'expected': expected, 'got': got})
                                try:
                                    run_one(prob, cfg_name, lb, ub, si, start, algo, tol, targets, fail, info,
                                            verbose=case is not None)
                                except Exception as e:  # noqa: BLE001
                                    fail('harness.exception', 'no exception', f'{type(e).__name__}: {e}')
                                left = set(os.listdir(tmp))
                                if left:
                                    unexpected_files |= left
        if unexpected_files:
            nfail += 1
            failures.append({'clause': 'nothing-written(save_iterations/html/pickle off)', 'case': {},
                             'expected': [], 'got': sorted(unexpected_files)[:5]})
    finally:
        os.chdir(cwd)
        shutil.rmtree(tmp, ignore_errors=True)
    bound = (f'{len(seeds)} seed(s) x {nprob} generated concave logit problems (binary / 3 alternatives, 18..40 rows, '
             f'1..3 free + 1 fixed parameter, availability conditions on some 3-alternative ones) x bound configurations '
             f'none/wide/active-ub-one-sided/active-lb-two-sided/inactive-lb-one-sided/two-active x 3 feasible starting '
             f'points x all {len(algos)} algorithms {algos}; tolerance {TOL}'
             + f' with steptol {STEPTOL}'
             + ('' if len(tols) == 1 else f' and the defaults {DEFAULT_TOL:.3g}/{DEFAULT_STEPTOL} (first start only; '
                                          f'{info.get("steptol_stops", 0)} gradient checks after a step-length stop)')
             + f'; plus one estimate(run_bootstrap=True, 3 samples) per problem; {info["converged"]}/{info["runs"]} runs reported convergence; {nfail} failing checks; '
             f'{time.time() - t0:.1f}s')
    print(json.dumps({'cases': cases, 'bound': bound, 'failures': failures[:MAX_FAIL]}, default=str))
    sys.exit(1 if nfail else 0)


if __name__ == '__main__':
    main()
