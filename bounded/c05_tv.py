"""C05/C06 translation validation, checking half (python3-vt: mpmath + sympy; does not import biogeme).

Input: the JSON written by bounded/c05_dump.py (real Expression trees built by the real builders, hash-consed,
plus the values the real Python evaluator and the compiled engine gave at random points).

SEM: per-class semantics of the expression classes (the equations of their `get_value`, with the engine's
conventions log(0) = -inf, 0 * x = 0, 0 ** negative = +inf, and the log-logit kernel giving -inf for an
unavailable chosen alternative) evaluated in 30-digit arithmetic.  TEXTBOOK: independent closed forms
(nested logit as P(m) P(i|m), cross-nested logit as sum_m P(m) P(i|m), ordered models as cdf differences,
generating function of the nested logit, its partial derivatives by sympy).

Everything here is BOUNDED: shapes up to the stated bound x random points; nothing is counted as proved.
"""
from __future__ import annotations

import json
import math

import mpmath as mp

mp.mp.dps = 30
TOL = mp.mpf(10) ** -20        # SEM vs textbook / SEM vs SEM
NTOL_REL, NTOL_ABS = 1e-8, 1e-11   # SEM vs native floating point


VARIANTS = ('same-name', 'reused', 'reordered', 'unsorted-names')


class Unsupported(Exception):
    pass


# --------------------------------------------------------------------------- SEM
class Sem:
    def __init__(self, nodes):
        self.nodes = nodes
        self.dep = {}
        for i in range(len(nodes)):
            self._dep(i)

    def _kids(self, n):
        c = n['c']
        if c == 'LogLogit':
            return [n['choice']] + list(n['util'].values()) + list(n['av'].values())
        if c == 'ConditionalSum':
            return [x for t in n['terms'] for x in t]
        return n.get('k', [])

    def _dep(self, i):
        if i in self.dep:
            return self.dep[i]
        n = self.nodes[i]
        d = (n['c'] in ('Beta', 'Variable') and n['name'] == 'CHOICE') or any(self._dep(k) for k in self._kids(n))
        self.dep[i] = d
        return d

    def ev(self, i, env, base, per_choice):
        memo = per_choice if self.dep[i] else base
        if i in memo:
            return memo[i]
        v = self._ev(self.nodes[i], env, base, per_choice)
        memo[i] = v
        return v

    def _ev(self, n, env, base, pc):
        c = n['c']
        E = lambda k: self.ev(k, env, base, pc)      # noqa: E731
        if c == 'Numeric':
            return mp.mpf(n['v'])
        if c in ('Beta', 'Variable'):
            if n['name'] not in env:
                raise Unsupported(f'leaf {n["name"]} has no value')
            return env[n['name']]
        k = n.get('k', [])
        if c == 'Plus':
            return E(k[0]) + E(k[1])
        if c == 'Minus':
            return E(k[0]) - E(k[1])
        if c == 'Times':
            a = E(k[0])
            if a == 0:
                return mp.mpf(0)
            b = E(k[1])
            return mp.mpf(0) if b == 0 else a * b
        if c == 'Divide':
            a, b = E(k[0]), E(k[1])
            if b == 0:
                return mp.nan if a == 0 else (mp.inf if a > 0 else -mp.inf)
            return a / b
        if c == 'Power':
            return power(E(k[0]), E(k[1]))
        if c == 'PowerConstant':
            a = E(k[0])
            return mp.mpf(0) if a == 0 else power(a, mp.mpf(n['exponent']))
        if c == 'UnaryMinus':
            return -E(k[0])
        if c == 'exp':
            return mp.exp(E(k[0]))
        if c == 'log':
            return log(E(k[0]))
        if c == 'logzero':
            a = E(k[0])
            return mp.mpf(0) if a == 0 else log(a)
        if c == 'bioNormalCdf':
            return mp.ncdf(E(k[0]))
        if c == 'bioMultSum':
            return mp.fsum(E(x) for x in k)
        if c == 'ConditionalSum':
            return mp.fsum(E(t) for cnd, t in n['terms'] if E(cnd) != 0)
        if c in ('NotEqual', 'Equal', 'Less', 'LessOrEqual', 'Greater', 'GreaterOrEqual'):
            a, b = E(k[0]), E(k[1])
            r = {'NotEqual': a != b, 'Equal': a == b, 'Less': a < b, 'LessOrEqual': a <= b, 'Greater': a > b,
                 'GreaterOrEqual': a >= b}[c]
            return mp.mpf(1 if r else 0)
        if c == 'And':
            return mp.mpf(1 if (E(k[0]) != 0 and E(k[1]) != 0) else 0)
        if c == 'Or':
            return mp.mpf(1 if (E(k[0]) != 0 or E(k[1]) != 0) else 0)
        if c == 'bioMin':
            return min(E(k[0]), E(k[1]))
        if c == 'bioMax':
            return max(E(k[0]), E(k[1]))
        if c == 'LogLogit':
            ch = E(n['choice'])
            key = str(int(ch))
            if key not in n['util'] or key not in n['av']:
                raise Unsupported(f'choice {key} not among the alternatives')
            if E(n['av'][key]) == 0:
                return -mp.inf
            vc = E(n['util'][key])
            den = mp.fsum(mp.exp(E(u) - vc) for a, u in n['util'].items() if E(n['av'][a]) != 0)
            return -mp.log(den)
        raise Unsupported(f'expression class {c} has no SEM entry')


def power(a, b):
    if a == 0:
        return mp.mpf(0) if b > 0 else (mp.mpf(1) if b == 0 else mp.inf)
    if a < 0 and b != mp.floor(b):
        return mp.nan
    if mp.isinf(a) or mp.isinf(b) or mp.isnan(a) or mp.isnan(b):
        try:
            return mp.mpf(float(a) ** float(b))
        except Exception:
            return mp.nan
    return mp.power(a, b)


def log(a):
    if mp.isnan(a) or a < 0:
        return mp.nan
    return -mp.inf if a == 0 else mp.log(a)


def close(a, b, tol=TOL):
    if mp.isnan(a) or mp.isnan(b):
        return False
    if mp.isinf(a) or mp.isinf(b):
        return a == b
    return abs(a - b) <= tol * max(1, abs(a), abs(b))


def nclose(sem, nat):
    """SEM value (30 digits) vs a native double."""
    if isinstance(nat, dict) or nat is None:
        return False
    nat = float(nat)
    if math.isnan(nat) or mp.isnan(sem):
        return False
    if math.isinf(nat) or mp.isinf(sem):
        return mp.mpf(nat) == sem or (abs(sem) > mp.mpf(10) ** 300 and math.copysign(1, nat) == mp.sign(sem))
    return abs(sem - mp.mpf(nat)) <= NTOL_ABS + NTOL_REL * max(abs(sem), abs(nat))


# --------------------------------------------------------------------------- textbook formulas
def tb_logit(ids, h, a):
    den = mp.fsum(mp.exp(h[i]) for i in ids if a[i])
    return {i: (mp.exp(h[i]) / den if a[i] else mp.mpf(0)) for i in ids}


def tb_nested(ids, nests, alone, V, a, mum, mu):
    """P(i) = P(m) P(i|m); an alternative outside every nest is a nest of its own (any nest parameter)."""
    groups = [(list(n), mum[m]) for m, n in enumerate(nests)] + [([i], mu) for i in alone]
    S = [mp.fsum(mp.exp(mm * V[j]) for j in g if a[j]) for g, mm in groups]
    top = [power(s, mu / mm) if s != 0 else mp.mpf(0) for s, (g, mm) in zip(S, groups)]
    den = mp.fsum(top)
    P = {}
    for (g, mm), s, t in zip(groups, S, top):
        for i in g:
            P[i] = (t / den) * (mp.exp(mm * V[i]) / s) if a[i] else mp.mpf(0)
    return P


def tb_cnl(ids, nests, alone, V, a, mum, alpha, mu):
    """P(i) = sum_m P(m) P(i|m), alpha_im^(mu_m/mu) exp(mu_m V_i) inside nest m."""
    groups = [({i: alpha[m][i] for i in n}, mum[m]) for m, n in enumerate(nests)] + [({i: mp.mpf(1)}, mu) for i in alone]
    w = [{i: (power(al, mm / mu) * mp.exp(mm * V[i]) if a[i] else mp.mpf(0)) for i, al in g.items()} for g, mm in groups]
    B = [mp.fsum(x.values()) for x in w]
    top = [power(b, mu / mm) if b != 0 else mp.mpf(0) for b, (g, mm) in zip(B, groups)]
    den = mp.fsum(top)
    P = {i: mp.mpf(0) for i in ids}
    for x, b, t in zip(w, B, top):
        for i, wi in x.items():
            if b != 0:
                P[i] += (t / den) * (wi / b)
    return P


def tb_ordered(levels, x, tau, diffs, cdf):
    taus = [tau]
    for lv in levels[1:-1]:
        taus.append(taus[-1] + diffs[lv])
    F = [cdf(t - x) for t in taus]          # P(y <= level k) = F(tau_k - x)
    P = {}
    for k, lv in enumerate(levels):
        lo = F[k - 1] if k > 0 else mp.mpf(0)
        hi = F[k] if k < len(levels) - 1 else mp.mpf(1)
        P[lv] = hi - lo
    return P


def tb_G_nested(nests, alone, V, a, mum):
    G = mp.mpf(0)
    for m, n in enumerate(nests):
        s = mp.fsum(mp.exp(mum[m] * V[l]) for l in n if a[l])
        G += power(s, 1 / mum[m]) if s != 0 else 0
    return G + mp.fsum(mp.exp(V[i]) for i in alone)


# --------------------------------------------------------------------------- results
def plain(v):
    if isinstance(v, (list, tuple)):
        return [plain(x) for x in v]
    if isinstance(v, dict):
        return {str(k): plain(x) for k, x in v.items()}
    if isinstance(v, (int, float, str, bool, type(None))):
        return v
    return mp.nstr(v, 17)


class Res:
    def __init__(self):
        self.d = {}

    def ob(self, name):
        return self.d.setdefault(name, {'cases': 0, 'failures': [], 'skipped': 0, 'nfail': 0})

    def ok(self, name, n=1):
        self.ob(name)['cases'] += n

    def skip(self, name, n=1):
        self.ob(name)['skipped'] += n

    def fail(self, name, **info):
        o = self.ob(name)
        o['cases'] += 1
        o['nfail'] += 1
        if len(o['failures']) < 4:
            o['failures'].append({k: plain(v) for k, v in info.items()})

    def check(self, name, cond, **info):
        if cond:
            self.ok(name)
        else:
            self.fail(name, **info)

    def merge(self, other):
        for k, o in other.items():
            t = self.ob(k)
            t['cases'] += o['cases']
            t['skipped'] += o['skipped']
            t['nfail'] += o['nfail']
            t['failures'] = (t['failures'] + o['failures'])[:4]


def fenv(env):
    return {k: v for k, v in env.items() if not k.startswith('_')}


def mpenv(env):
    return {k: mp.mpf(v) for k, v in env.items() if not k.startswith('_')}


class Ctx:
    """One shape: SEM evaluation with memoisation per point and per choice."""

    def __init__(self, shape):
        self.s = shape
        self.sem = Sem(shape['nodes'])
        self.trees = shape['trees']
        self.dep = shape['dep_choice']

    def start(self, env):
        self.env = mpenv(env)
        self.base = {}
        self.pc = {}

    def val(self, tree, choice=None):
        env = self.env
        if choice is not None:
            env = dict(env)
            env['CHOICE'] = mp.mpf(choice)
            pc = self.pc.setdefault(choice, {})
        else:
            pc = {}
        return self.sem.ev(self.trees[tree], env, self.base, pc)


def where(s, pt, **kw):
    d = {'shape': s['sid'], 'family': s['family'], 'meta': s['meta'], 'env': fenv(pt['env'])}
    d.update(kw)
    return d


def avail(s, env):
    ids = s['meta']['ids']
    return {i: (env.get(f'AV{i}', 1.0) != 0) for i in ids}


# --------------------------------------------------------------------------- native agreement (both props)
def native_agreement(P, s, c, pt, R, a, ids):
    """SEM vs the real Python evaluator and vs the compiled engine, tree by tree."""
    for tree in c.trees:
        chs = ids if c.dep[tree] else [None]
        if ':' in tree and tree.split(':')[1].isdigit() and not a.get(int(tree.split(':')[1]), True):
            continue        # ln G_i of an unavailable alternative is never used by the kernel
        for ch in chs:
            unavailable = ch is not None and not a[ch]
            try:
                sv = c.val(tree, ch)
            except Unsupported as e:
                R.fail(f'{P}:bounded:sem:every-expression-class-has-semantics', **where(s, pt, tree=tree, error=str(e)))
                continue
            for side, label in (('py', 'python-evaluator'), ('c', 'compiled-engine')):
                nat = pt[side].get(tree, {}).get(str(ch), None)
                if nat is None:
                    continue
                if isinstance(nat, dict) and 'NotImplementedError' in nat.get('err', ''):
                    R.skip(f'{P}:bounded:{label}:agrees-with-sem')        # bioNormalCdf has no Python evaluator
                    continue
                if unavailable and P == 'C05' and tree.split('@')[0] in ('P', 'logP', 'P_mu', 'logP_mu', 'P_es', 'logP_es', 'P_logit'):
                    want = mp.mpf(0) if tree.startswith('P') else -mp.inf
                    name = f'{P}:bounded:{label}:unavailable-alternative-has-probability-zero'
                    R.check(name, nclose(want, nat), **where(s, pt, tree=tree, alternative=ch, expected=want, got=nat))
                    continue
                if unavailable:
                    continue
                name = f'{P}:bounded:{label}:agrees-with-sem'
                if tree.endswith('@cnl01z'):
                    name = f'{P}:bounded:{label}:cnl-explicit-zero-allocation:agrees-with-sem'
                R.check(name, nclose(sv, nat), **where(s, pt, tree=tree, alternative=ch, sem=sv, native=nat))


# --------------------------------------------------------------------------- C05
def distribution(R, fam, s, pt, ids, a, P, TB, logP=None):
    pre = f'C05:bounded:tv:{fam}'
    tot = mp.fsum(P[i] for i in ids)
    R.check(f'{pre}:probabilities-in-unit-interval', all(0 <= P[i] <= 1 for i in ids), **where(s, pt, P={str(i): mp.nstr(P[i], 12) for i in ids}))
    R.check(f'{pre}:probabilities-sum-to-one', close(tot, 1), **where(s, pt, total=tot))
    R.check(f'{pre}:zero-for-unavailable', all(P[i] == 0 for i in ids if not a[i]), **where(s, pt, P={str(i): mp.nstr(P[i], 12) for i in ids}))
    if TB is not None:
        bad = [i for i in ids if not close(P[i], TB[i])]
        R.check(f'{pre}:equals-textbook', not bad, **where(s, pt, alternative=bad[:1], got=[P[i] for i in bad[:1]], textbook=[TB[i] for i in bad[:1]]))
    if logP is not None:
        bad = [i for i in ids if not close(logP[i], log(P[i]))]
        R.check(f'{pre}:log-version-is-log-of-probability', not bad, **where(s, pt, alternative=bad[:1]))


def shift(R, fam, s, c, pt, ids, tree, P):
    for cst in (mp.mpf('1.375'), mp.mpf('-2.5')):
        env2 = dict(pt['env'])
        for i in ids:
            env2[f'V{i}'] = mp.mpf(env2[f'V{i}']) + cst
        c2 = Ctx(s)
        c2.start(env2)
        bad = [i for i in ids if not close(c2.val(tree, i), P[i], TOL * 1000)]
        R.check(f'C05:bounded:tv:{fam}:invariant-under-common-shift-of-utilities', not bad, **where(s, pt, shift=cst, alternative=bad[:1]))


def check_shape_c05(s):
    R = Res()
    c = Ctx(s)
    fam = s['family']
    m = s['meta']
    for pt in s['points']:
        env = pt['env']
        c.start(env)
        E = c.env
        if fam == 'ordered':
            levels = m['levels']
            try:
                P = {lv: c.val(f'P:{lv}') for lv in levels}
            except Unsupported as e:
                R.fail('C05:bounded:sem:every-expression-class-has-semantics', **where(s, pt, error=str(e)))
                continue
            cdf = (lambda z: 1 / (1 + mp.exp(-z))) if m['cdf'] == 'logit' else mp.ncdf
            TB = tb_ordered(levels, E['X'], E['TAU'], {lv: E[f'TAU_diff_{lv}'] for lv in levels[1:-1]}, cdf)
            pre = f'C05:bounded:tv:ordered_{m["cdf"]}'
            R.check(f'{pre}:probabilities-in-unit-interval', all(0 <= P[lv] <= 1 for lv in levels), **where(s, pt))
            R.check(f'{pre}:probabilities-sum-to-one', close(mp.fsum(P.values()), 1), **where(s, pt, total=mp.fsum(P.values())))
            bad = [lv for lv in levels if not close(P[lv], TB[lv])]
            R.check(f'{pre}:equals-textbook', not bad, **where(s, pt, level=bad[:1], got=[P[x] for x in bad[:1]], textbook=[TB[x] for x in bad[:1]]))
            for side, label in (('py', 'python-evaluator'), ('c', 'compiled-engine')):
                for lv in levels:
                    nat = pt[side].get(f'P:{lv}', {}).get('None')
                    if nat is None:
                        continue
                    if isinstance(nat, dict) and 'NotImplementedError' in nat.get('err', ''):
                        R.skip(f'C05:bounded:{label}:agrees-with-sem')
                        continue
                    if m['cdf'] == 'probit':
                        # the engine's normal cdf is an approximation with absolute error about 3e-11
                        okv = not isinstance(nat, dict) and abs(P[lv] - mp.mpf(float(nat))) <= 1e-9
                        R.check(f'C05:bounded:{label}:ordered_probit:agrees-with-sem-to-1e-9', okv, **where(s, pt, tree=f'P:{lv}', sem=P[lv], native=nat))
                        continue
                    R.check(f'C05:bounded:{label}:agrees-with-sem', nclose(P[lv], nat), **where(s, pt, tree=f'P:{lv}', sem=P[lv], native=nat))
            continue
        ids = m['ids']
        a = avail(s, env)
        V = {i: E[f'V{i}'] for i in ids}
        try:
            native_agreement('C05', s, c, pt, R, a, ids)
            if fam == 'logit':
                P = {i: c.val('P', i) for i in ids}
                LP = {i: c.val('logP', i) for i in ids}
                distribution(R, 'logit', s, pt, ids, a, P, tb_logit(ids, V, a), LP)
                shift(R, 'logit', s, c, pt, ids, 'P', P)
            elif fam == 'mev':
                h = {i: V[i] + E[f'LG{i}'] for i in ids}
                P = {i: c.val('P', i) for i in ids}
                LP = {i: c.val('logP', i) for i in ids}
                distribution(R, 'mev', s, pt, ids, a, P, tb_logit(ids, h, a), LP)
                h2 = {i: h[i] + E[f'W{i}'] for i in ids}
                P = {i: c.val('P_es', i) for i in ids}
                LP = {i: c.val('logP_es', i) for i in ids}
                distribution(R, 'mev_endogenous_sampling', s, pt, ids, a, P, tb_logit(ids, h2, a), LP)
            elif fam in ('nested', 'cnl'):
                nests, alone = m['nests'], m['alone']
                mum = [E[f'MU{k + 1}'] for k in range(len(nests))]
                if fam == 'nested':
                    tb = lambda mu: tb_nested(ids, nests, alone, V, a, mum, mu)      # noqa: E731
                else:
                    alpha = [{i: E[f'A{k + 1}_{i}'] for i in n} for k, n in enumerate(nests)]
                    tb = lambda mu: tb_cnl(ids, nests, alone, V, a, mum, alpha, mu)  # noqa: E731
                for tag, tp, tl, mu in ((fam, 'P', 'logP', mp.mpf(1)), (fam + '_mu', 'P_mu', 'logP_mu', E['MU'])):
                    P = {i: c.val(tp, i) for i in ids}
                    LP = {i: c.val(tl, i) for i in ids}
                    TB = tb(mu)
                    distribution(R, tag, s, pt, ids, a, P, TB, LP)
                    shift(R, tag, s, c, pt, ids, tp, P)
                    # same structure reached through other nest names / re-used nest objects: textbook keyed by position
                    for var in VARIANTS:
                        if f'{tp}#{var}' in c.trees:
                            bad = [i for i in ids if not close(c.val(f'{tp}#{var}', i), TB[i])]
                            if tp == 'P' and f'logP#{var}' in c.trees:
                                bad += [i for i in ids if not close(c.val(f'logP#{var}', i), log(TB[i]))]
                            R.check(f'C05:bounded:tv:{tag}:independent-of-nest-names-and-object-reuse', not bad,
                                    **where(s, pt, variant=var, alternative=bad[:1], got=[c.val(f'{tp}#{var}', i) for i in bad[:1]],
                                            textbook=[TB[i] for i in bad[:1]]))
        except Unsupported as e:
            R.fail('C05:bounded:sem:every-expression-class-has-semantics', **where(s, pt, error=str(e)))
    return R.d


# --------------------------------------------------------------------------- C06
_SYM = {}


def sym_nested_G(nests, alone, ids, scaled):
    """Textbook G of the nested logit in sympy (availability indicators a_i as symbols) and log dG/dy_i."""
    import sympy as sp
    key = (json.dumps(nests), json.dumps(alone), scaled)
    if key in _SYM:
        return _SYM[key]
    y = {i: sp.Symbol(f'y{i}', positive=True) for i in ids}
    av = {i: sp.Symbol(f'a{i}', nonnegative=True) for i in ids}
    mus = [sp.Symbol(f'mu{k + 1}', positive=True) for k in range(len(nests))]
    mu = sp.Symbol('mu', positive=True) if scaled else sp.Integer(1)
    G = sp.Integer(0)
    for k, n in enumerate(nests):
        G += sp.Add(*[av[l] * y[l] ** mus[k] for l in n]) ** (mu / mus[k])
    for i in alone:
        G += y[i] ** mu
    args = [y[i] for i in ids] + [av[i] for i in ids] + mus + ([mu] if scaled else [])
    d = {i: sp.lambdify(args, sp.diff(G, y[i]), 'mpmath') for i in ids}
    _SYM[key] = d
    return d


def to_sympy(nodes, i, memo, ids):
    """The published generating function (real tree) as a sympy term in y_i = exp(V_i)."""
    import sympy as sp
    if i in memo:
        return memo[i]
    n = nodes[i]
    c = n['c']
    T = lambda k: to_sympy(nodes, k, memo, ids)     # noqa: E731
    k = n.get('k', [])
    if c == 'Numeric':
        r = sp.nsimplify(n['v'])
    elif c in ('Beta', 'Variable'):
        nm = n['name']
        if nm.startswith('V') and nm[1:].isdigit():
            r = sp.log(sp.Symbol(f'y{nm[1:]}', positive=True))
        elif nm.startswith('AV'):
            r = sp.Symbol(f'a{nm[2:]}', nonnegative=True)
        else:
            r = sp.Symbol(nm.lower(), positive=True)
    elif c == 'Plus':
        r = T(k[0]) + T(k[1])
    elif c == 'Minus':
        r = T(k[0]) - T(k[1])
    elif c == 'Times':
        r = T(k[0]) * T(k[1])
    elif c == 'Divide':
        r = T(k[0]) / T(k[1])
    elif c == 'Power':
        r = T(k[0]) ** T(k[1])
    elif c == 'PowerConstant':
        r = T(k[0]) ** sp.nsimplify(n['exponent'])
    elif c == 'UnaryMinus':
        r = -T(k[0])
    elif c == 'exp':
        r = sp.exp(T(k[0]))
    elif c == 'log':
        r = sp.log(T(k[0]))
    elif c == 'bioMultSum':
        r = sp.Add(*[T(x) for x in k])
    elif c == 'ConditionalSum':
        terms = []
        for cnd, t in n['terms']:
            cn = nodes[cnd]
            ok = (cn['c'] == 'NotEqual' and nodes[cn['k'][0]]['c'] in ('Beta', 'Variable') and nodes[cn['k'][0]]['name'].startswith('AV')
                  and nodes[cn['k'][1]]['c'] == 'Numeric' and nodes[cn['k'][1]]['v'] == 0.0)
            if not ok:
                raise Unsupported('condition of a ConditionalSum is not `availability != 0`')
            terms.append(T(cn['k'][0]) * T(t))        # availability in {0, 1}: indicator
        r = sp.Add(*terms)
    else:
        raise Unsupported(f'expression class {c} has no sympy translation')
    memo[i] = r
    return r


def check_shape_c06(s):
    import sympy as sp
    R = Res()
    c = Ctx(s)
    fam = s['family']
    m = s['meta']
    ids, nests, alone = m['ids'], m['nests'], m['alone']
    T = c.trees
    # tuple syntax: identical tree (decided for all values) or, failing that, equal values at the points
    structural = {}
    for name in T:
        if name.endswith('@tuple'):
            structural[name] = (T[name] == T[name[:-6]]) if name[:-6] in T else False
    pubG = None
    if fam == 'nested' and 'G' in T:
        try:
            g = to_sympy(s['nodes'], T['G'], {}, ids)
            ysym = {i: sp.Symbol(f'y{i}', positive=True) for i in ids}
            args = ([ysym[i] for i in ids] + [sp.Symbol(f'a{i}', nonnegative=True) for i in ids] +
                    [sp.Symbol(f'mu{k + 1}', positive=True) for k in range(len(nests))])
            pubG = {i: sp.lambdify(args, sp.diff(g, ysym[i]), 'mpmath') for i in ids}
        except Unsupported as e:
            R.fail('C06:bounded:tv:nested:lnG-is-log-derivative-of-published-G', shape=s['sid'], meta=m, error=str(e))
    for pt in s['points']:
        env = pt['env']
        tag = env.get('_tag', '')
        c.start(env)
        E = c.env
        a = avail(s, env)
        V = {i: E[f'V{i}'] for i in ids}
        mum = [E[f'MU{k + 1}'] for k in range(len(nests))]
        try:
            native_agreement('C06', s, c, pt, R, a, ids)
            P = {i: c.val('P', i) for i in ids}
            for name, same in structural.items():
                ob = f'C06:bounded:tv:{fam}:tuple-syntax-equals-object-syntax'
                if same:
                    R.ok(ob)
                    continue
                base = name[:-6]
                chs = ids if c.dep[name] else [None]
                bad = [ch for ch in chs if (ch is None or a[ch]) and not close(c.val(name, ch), c.val(base, ch))]
                R.check(ob, base in T and not bad, **where(s, pt, tree=name, alternative=bad[:1]))
            for var in VARIANTS:
                pairs = [(f'{x}#{var}', x, True) for x in ('P', 'logP', 'P_mu')]
                pairs += [(f'G#{var}', 'G', False)]
                pairs += [(f'{x}#{var}:{i}', f'{x}:{i}', False) for x in ('lnG', 'lnG_mu') for i in ids if a[i]]
                for vt, bt, dep in pairs:
                    if vt in T and bt in T:
                        chs = [i for i in ids if a[i]] if dep else [None]
                        bad = [ch for ch in chs if not close(c.val(vt, ch), c.val(bt, ch))]
                        fn = {'P': 'nested' if fam == 'nested' else 'cnl', 'logP': 'lognested' if fam == 'nested' else 'logcnl',
                              'P_mu': 'nested_mev_mu' if fam == 'nested' else 'cnlmu', 'G': 'get_mev_generating_for_nested',
                              'lnG': 'get_mev_for_nested', 'lnG_mu': 'get_mev_for_nested_mu'}[bt.split(':')[0]]
                        R.check(f'C06:bounded:tv:{fn}:independent-of-nest-names-and-object-reuse', not bad,
                                **where(s, pt, variant=var, tree=vt, alternative=bad[:1], got=[c.val(vt, ch) for ch in bad[:1]],
                                        position_keyed=[c.val(bt, ch) for ch in bad[:1]]))
            if tag == 'mu=1':
                pre = f'C06:bounded:tv:{fam}_mu:scale-one-equals-unscaled'
                for x, y in (('P_mu', 'P'), ('logP_mu', 'logP')):
                    bad = [i for i in ids if a[i] and not close(c.val(x, i), c.val(y, i))]
                    R.check(pre, not bad, **where(s, pt, tree=x, alternative=bad[:1]))
                if fam == 'nested':
                    bad = [i for i in ids if a[i] and f'lnG_mu:{i}' in T and not close(c.val(f'lnG_mu:{i}'), c.val(f'lnG:{i}'))]
                    R.check('C06:bounded:tv:get_mev_for_nested_mu:scale-one-equals-unscaled', not bad, **where(s, pt, alternative=bad[:1]))
            if fam != 'nested':
                continue
            if tag == 'all-one':
                TB = tb_logit(ids, V, a)
                bad = [i for i in ids if not (close(P[i], c.val('P_logit', i)) and close(P[i], TB[i]))]
                R.check('C06:bounded:tv:nested:nest-parameters-one-equals-logit', not bad,
                        **where(s, pt, alternative=bad[:1], nested=[P[i] for i in bad[:1]], logit=[TB[i] for i in bad[:1]]))
                bad = [i for i in ids if not close(c.val('P_mu', i), TB[i])]
                R.check('C06:bounded:tv:nested_mu:nest-parameters-and-scale-one-equals-logit', not bad, **where(s, pt, alternative=bad[:1]))
            # cross-nested logit whose alternatives belong wholly to one nest == nested logit
            # (the cross-nested code weights by the availability VALUE, the nested code tests it: the two only meet on 0/1 values)
            binary_av = all(env.get(f'AV{i}', 1.0) in (0.0, 1.0) for i in ids)
            for x, y, ob in ((('P@cnl01b', 'P', 'cnl-with-0-1-allocations-given-as-parameters-equals-nested'),
                             ('P@cnl01', 'P', 'cnl-with-0-1-allocations-equals-nested'), ('logP@cnl01', 'logP', 'cnl-with-0-1-allocations-equals-nested'),
                             ('P_mu@cnl01', 'P_mu', 'cnlmu-with-0-1-allocations-equals-nested_mev_mu'),
                             ('P@cnl01z', 'P', 'cnl-with-explicit-zero-allocations-equals-nested'),
                             ('P_mu@cnl01z', 'P_mu', 'cnlmu-with-explicit-zero-allocations-equals-nested_mev_mu')) if binary_av else ()):
                if x in T:
                    bad = [i for i in ids if a[i] and not close(c.val(x, i), c.val(y, i))]
                    R.check(f'C06:bounded:tv:{ob}', not bad, **where(s, pt, alternative=bad[:1], cnl=[c.val(x, i) for i in bad[:1]], nested=[c.val(y, i) for i in bad[:1]]))
            # generating function and its log-derivatives
            if 'G' in T:
                G, TG = c.val('G'), tb_G_nested(nests, alone, V, a, mum)
                R.check('C06:bounded:tv:get_mev_generating_for_nested:equals-textbook-G', close(G, TG), **where(s, pt, published=G, textbook=TG))
                yv = [mp.exp(V[i]) for i in ids]
                av = [mp.mpf(1 if a[i] else 0) for i in ids]
                for scaled, nm in ((False, 'lnG'), (True, 'lnG_mu')):
                    d = sym_nested_G(nests, alone, ids, scaled)
                    args = yv + av + mum + ([E['MU']] if scaled else [])
                    bad = []
                    for i in ids:
                        if a[i] and f'{nm}:{i}' in T:
                            want = log(d[i](*args))
                            got = c.val(f'{nm}:{i}')
                            if not close(got, want):
                                bad.append((i, got, want))
                    fn = 'get_mev_for_nested' + ('_mu' if scaled else '')
                    R.check(f'C06:bounded:tv:{fn}:terms-are-log-derivatives-of-textbook-G', not bad,
                            **where(s, pt, alternative=[b[0] for b in bad[:1]], got=[b[1] for b in bad[:1]], want=[b[2] for b in bad[:1]]))
                if pubG is not None:
                    bad = []
                    for i in ids:
                        if a[i] and f'lnG:{i}' in T:
                            want = log(pubG[i](*(yv + av + mum)))
                            got = c.val(f'lnG:{i}')
                            if not close(got, want):
                                bad.append((i, got, want))
                    R.check('C06:bounded:tv:nested:lnG-is-log-derivative-of-published-G', not bad,
                            **where(s, pt, alternative=[b[0] for b in bad[:1]], published_term=[b[1] for b in bad[:1]],
                                    log_dG_dy=[b[2] for b in bad[:1]]))
        except Unsupported as e:
            R.fail('C06:bounded:sem:every-expression-class-has-semantics', **where(s, pt, error=str(e)))
    return R.d


def _run(args):
    prop, shape = args
    try:
        return (check_shape_c05 if prop == 'C05' else check_shape_c06)(shape)
    except Exception as e:      # pragma: no cover
        import traceback
        return {f'{prop}:bounded:tv:checker': {'cases': 1, 'nfail': 1, 'skipped': 0,
                                              'failures': [{'shape': shape.get('sid'), 'error': traceback.format_exc()[-800:]}]}}


def run(path, prop, jobs=6):
    with open(path) as f:
        data = json.load(f)
    R = Res()
    shapes = data['shapes']
    if jobs > 1:
        import multiprocessing as mpc
        with mpc.get_context('fork').Pool(jobs) as pool:
            outs = pool.map(_run, [(prop, s) for s in shapes], chunksize=4)
    else:
        outs = [_run((prop, s)) for s in shapes]
    for o in outs:
        R.merge(o)
    return R.d, data


if __name__ == '__main__':
    import sys
    import time
    t0 = time.time()
    res, data = run(sys.argv[1], sys.argv[2], int(sys.argv[3]) if len(sys.argv) > 3 else 6)
    for k in sorted(res):
        o = res[k]
        print(('FAIL ' if o['nfail'] else 'ok   ') + k, o['cases'], 'failed', o['nfail'], 'skipped', o['skipped'])
        for fl in o['failures'][:2]:
            print('      ', json.dumps(fl)[:600])
    print('seconds', round(time.time() - t0, 1))
