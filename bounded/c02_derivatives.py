"""Bounded stand-in for C02 (derivatives) on the real code.

usage: /venv/bin/python c02_derivatives.py <quick|thorough> <seed>

Property C02: the gradient, Hessian and BHHH matrix returned together with a value are the true derivatives of that
value with respect to the free parameters; entry i belongs to the i-th name of the SORTED list of free parameter
names (with named_results=True the entries are keyed by name); the Hessian is symmetric; BHHH is the sum over the
observations of the outer products of the per-observation gradients; aggregated results are the sums of the
per-observation results; a Hessian/BHHH without gradient is refused (BiogemeError);
BIOGEME.calculate_likelihood_and_derivatives(x, scaled) agrees (scaled divides f, g, H, BHHH by the sample size).

Oracles (none of them looks at biogeme's derivative code)
  analytic   closed forms derived by hand, written with numpy: binary logit and 3-alternative logit with linear
             utilities (g = sum (y - p) x, H = - sum p(1-p) x x' ...), and seven small formulas (polynomial / exp, log /
             sin, quotient, cube of a linear form, square of exp + b, probit, power with a parameter in the exponent)
  jets       second-order forward differentiation written here from the calculus rules (sum, product, chain rule for
             exp log sin cos Phi power), applied to a *description* of the formula (nested tuples) from which the
             biogeme expression is built in parallel; used for an operator-wise family where both children of every
             differentiable operator have a non-zero Hessian
  finite     central finite differences with Richardson extrapolation on the engine VALUE (get_value_c per row)

Clauses (names in the failure records)
  value, gradient, hessian, bhhh           per observation (aggregation=False) against analytic/jets
  agg-value, agg-gradient, agg-hessian, agg-bhhh   aggregated against the sums of the oracle
  sum-of-rows                              aggregated results against the sums of the engine's own per-row results
  finite-differences                       gradient / Hessian per row against Richardson differences of the value
  symmetric                                Hessian and BHHH symmetric
  named                                    named_results=True: entries keyed by name
  options                                  gradient only / +hessian / +bhhh give the same numbers, absent parts are None
  refused                                  hessian or bhhh without gradient -> BiogemeError (get_value_and_derivatives,
                                           create_function)
  sorted-names                             id_manager.free_betas.names / BIOGEME.free_beta_names is the sorted list
  biogeme                                  BIOGEME.calculate_likelihood_and_derivatives / calculate_likelihood,
                                           scaled and unscaled, with and without hessian/bhhh, 1..3 threads
  create-function                          Expression.create_function(...)(x) (named output)
  no-database                              formulas without variables evaluated without a database
"""
import itertools
import json
import math
import os
import random
import shutil
import subprocess
import sys
import tempfile
import time

import numpy as np

RTOL = 1e-9        # analytic / jets
FDTOL = 2e-6       # finite differences
SQRT2 = math.sqrt(2.0)
NAME_POOL = ['zeta', 'alpha', 'mid', 'Beta2', 'beta10', 'beta9', '_u', 'Zed']


# ----------------------------------------------------------------------------------------------------------------
# second-order jets
# ----------------------------------------------------------------------------------------------------------------
class Jet:
    __slots__ = ('v', 'g', 'h')

    def __init__(self, v, g, h):
        self.v, self.g, self.h = v, g, h


def jconst(v, n):
    return Jet(float(v), np.zeros(n), np.zeros((n, n)))


def jadd(a, b, sign=1.0):
    return Jet(a.v + sign * b.v, a.g + sign * b.g, a.h + sign * b.h)


def jmul(a, b):
    return Jet(a.v * b.v, a.v * b.g + b.v * a.g, a.v * b.h + b.v * a.h + np.outer(a.g, b.g) + np.outer(b.g, a.g))


def jfun(a, f0, f1, f2):
    """phi(a): phi' a_g ; phi' a_h + phi'' a_g a_g'"""
    return Jet(f0, f1 * a.g, f1 * a.h + f2 * np.outer(a.g, a.g))


def jexp(a):
    e = math.exp(a.v)
    return jfun(a, e, e, e)


def jlog(a):
    return jfun(a, math.log(a.v), 1.0 / a.v, -1.0 / (a.v * a.v))


def jrecip(a):
    return jfun(a, 1.0 / a.v, -1.0 / a.v ** 2, 2.0 / a.v ** 3)


def jpowc(a, p):
    if p == 0.0:
        return jconst(1.0, len(a.g))
    if p == 1.0:
        return a
    if p == 2.0:
        return jfun(a, a.v * a.v, 2.0 * a.v, 2.0)
    return jfun(a, a.v ** p, p * a.v ** (p - 1.0), p * (p - 1.0) * a.v ** (p - 2.0))


def jet(n, env):
    """env: order {free name: index}, theta {free name: value}, fixed {name: value}, row {column: value}"""
    k = n[0]
    m = len(env['order'])
    if k == 'num':
        return jconst(n[1], m)
    if k == 'beta':
        if n[1] in env['order']:
            j = jconst(env['theta'][n[1]], m)
            j.g[env['order'][n[1]]] = 1.0
            return j
        return jconst(env['fixed'][n[1]], m)
    if k == 'var':
        return jconst(env['row'][n[1]], m)
    if k == 'Plus':
        return jadd(jet(n[1], env), jet(n[2], env))
    if k == 'Minus':
        return jadd(jet(n[1], env), jet(n[2], env), -1.0)
    if k == 'Times':
        return jmul(jet(n[1], env), jet(n[2], env))
    if k == 'Divide':
        return jmul(jet(n[1], env), jrecip(jet(n[2], env)))
    if k == 'Power':
        a, b = jet(n[1], env), jet(n[2], env)
        return jexp(jmul(b, jlog(a)))
    if k in ('bioMin', 'bioMax'):
        a, b = jet(n[1], env), jet(n[2], env)
        assert abs(a.v - b.v) > 1e-3, 'family must stay away from ties'
        env.setdefault('margins', []).append(abs(a.v - b.v))
        return (a if a.v < b.v else b) if k == 'bioMin' else (a if a.v > b.v else b)
    if k == 'UnaryMinus':
        a = jet(n[1], env)
        return Jet(-a.v, -a.g, -a.h)
    if k == 'exp':
        return jexp(jet(n[1], env))
    if k == 'log':
        return jlog(jet(n[1], env))
    if k == 'logzero':
        a = jet(n[1], env)
        return jconst(0.0, m) if a.v == 0.0 else jlog(a)
    if k == 'sin':
        a = jet(n[1], env)
        return jfun(a, math.sin(a.v), math.cos(a.v), -math.sin(a.v))
    if k == 'cos':
        a = jet(n[1], env)
        return jfun(a, math.cos(a.v), -math.sin(a.v), -math.cos(a.v))
    if k == 'bioNormalCdf':
        a = jet(n[1], env)
        pdf = math.exp(-0.5 * a.v * a.v) / math.sqrt(2 * math.pi)
        return jfun(a, 0.5 * math.erfc(-a.v / SQRT2), pdf, -a.v * pdf)
    if k in ('PowerConstant', 'PowNumeric'):
        return jpowc(jet(n[1], env), float(n[2]))
    if k == 'Elem':
        key = int(jet(n[1], env).v)
        return jet(dict(n[2])[key], env)
    if k == 'ConditionalSum':
        tot = jconst(0.0, m)
        for c, t in n[1]:
            if jet(c, env).v != 0.0:
                tot = jadd(tot, jet(t, env))
        return tot
    if k == 'bioMultSum':
        tot = jconst(0.0, m)
        for t in n[1]:
            tot = jadd(tot, jet(t, env))
        return tot
    if k == 'bioLinearUtility':
        tot = jconst(0.0, m)
        for b, x in n[1]:
            tot = jadd(tot, jmul(jet(b, env), jet(x, env)))
        return tot
    if k == 'LogLogit':
        _, choice, utils, avs = n
        c = int(jet(choice, env).v)
        avail = {key: True for key, _ in utils} if avs is None else {key: jet(a, env).v != 0.0 for key, a in avs}
        assert avail[c]
        vs = {key: jet(u, env) for key, u in utils if avail[key]}
        top = max(j.v for j in vs.values())
        den = jconst(0.0, m)
        for j in vs.values():
            den = jadd(den, jexp(jadd(j, jconst(top, m), -1.0)))
        return jadd(jadd(vs[c], jconst(top, m), -1.0), jlog(den), -1.0)
    raise AssertionError(k)


def build(n, betas):
    """description -> biogeme expression; betas: {name: Beta object} (one object per name)"""
    import biogeme.expressions as ex
    from biogeme.expressions.binary_expressions import Power
    from biogeme import models
    k = n[0]
    if k == 'num':
        return ex.Numeric(n[1])
    if k == 'beta':
        return betas[n[1]]
    if k == 'var':
        return ex.Variable(n[1])
    if k in ('Plus', 'Minus', 'Times', 'Divide', 'Power', 'bioMin', 'bioMax'):
        a, b = build(n[1], betas), build(n[2], betas)
        if k == 'Plus':
            return a + b
        if k == 'Minus':
            return a - b
        if k == 'Times':
            return a * b
        if k == 'Divide':
            return a / b
        if k == 'Power':
            return Power(a, b) if isinstance(b, ex.Numeric) else a ** b
        return ex.bioMin(a, b) if k == 'bioMin' else ex.bioMax(a, b)
    if k == 'UnaryMinus':
        return -build(n[1], betas)
    if k in ('exp', 'log', 'logzero', 'sin', 'cos', 'bioNormalCdf'):
        return getattr(ex, k)(build(n[1], betas))
    if k == 'PowerConstant':
        return build(n[1], betas) ** n[2]
    if k == 'PowNumeric':          # the exponent written as a Numeric expression: same function as a constant exponent
        return build(n[1], betas) ** ex.Numeric(n[2])
    if k == 'Elem':
        return ex.Elem({key: build(s, betas) for key, s in n[2]}, build(n[1], betas))
    if k == 'ConditionalSum':
        return ex.ConditionalSum([ex.ConditionalTermTuple(condition=build(c, betas), term=build(t, betas))
                                  for c, t in n[1]])
    if k == 'bioMultSum':
        return ex.bioMultSum([build(t, betas) for t in n[1]])
    if k == 'bioLinearUtility':
        return ex.bioLinearUtility([ex.LinearTermTuple(beta=build(b, betas), x=build(x, betas)) for b, x in n[1]])
    if k == 'LogLogit':
        _, choice, utils, avs = n
        return models.loglogit({key: build(u, betas) for key, u in utils},
                               None if avs is None else {key: build(a, betas) for key, a in avs},
                               build(choice, betas))
    raise AssertionError(k)


def betas_in(n, acc):
    """names of the parameters of a description in order of first appearance"""
    if isinstance(n, tuple):
        if len(n) == 2 and n[0] == 'beta':
            if n[1] not in acc:
                acc.append(n[1])
        else:
            for c in n:
                betas_in(c, acc)
    return acc


def show(n):
    if not isinstance(n, tuple):
        return repr(n)
    if n and isinstance(n[0], str):
        if n[0] == 'num':
            return repr(n[1])
        if n[0] in ('beta', 'var'):
            return n[1]
        return n[0] + '(' + ', '.join(show(c) for c in n[1:]) + ')'
    return '[' + ', '.join(show(c) for c in n) + ']'


# ----------------------------------------------------------------------------------------------------------------
# families.  A case = dict(tag, node, free (names in order of appearance), fixed {name: value}, data {col: list},
#                          theta {name: value}, analytic: None or callable(theta, data, order) -> (f, G, H) per row)
# ----------------------------------------------------------------------------------------------------------------
def pick_names(rng, k):
    while True:
        names = rng.sample(NAME_POOL, k)
        if sorted(names) != names:
            return names


def B(name):
    return ('beta', name)


def V(name):
    return ('var', name)


def N(v):
    return ('num', float(v))


def rnd(rng, lo, hi):
    return round(rng.uniform(lo, hi), 3)


def family_binary_logit(rng, count, nrows):
    out = []
    for idx in range(count):
        k = 2 + idx % 3                                     # 2..4 free parameters
        names = pick_names(rng, k)
        data = {'x%d' % j: [rnd(rng, -2, 2) for _ in range(nrows)] for j in range(k - 1)}
        data['y'] = [rng.choice((1, 2)) for _ in range(nrows)]
        if idx % 2 == 0:
            v1 = ('bioLinearUtility', tuple((B(names[j]), V('x%d' % j)) for j in range(k - 1)))
        else:
            v1 = ('Times', B(names[0]), V('x0'))
            for j in range(1, k - 1):
                v1 = ('Plus', v1, ('Times', V('x%d' % j), B(names[j])))
        v2 = B(names[k - 1])                                # constant of alternative 2
        avs = None if idx % 3 == 0 else ((1, N(1)), (2, N(1)))
        node = ('LogLogit', V('y'), ((1, v1), (2, v2)), avs)
        theta = {nm: rnd(rng, -1.5, 1.5) for nm in names}

        def analytic(theta, data, order, names=names, k=k):
            n = len(data['y'])
            f, G, H = np.zeros(n), np.zeros((n, k)), np.zeros((n, k, k))
            for r in range(n):
                xv = np.zeros(k)                            # derivative of V1 - V2 w.r.t. each parameter
                for j in range(k - 1):
                    xv[order[names[j]]] = data['x%d' % j][r]
                xv[order[names[k - 1]]] = -1.0
                d = sum(theta[names[j]] * data['x%d' % j][r] for j in range(k - 1)) - theta[names[k - 1]]
                p1 = 1.0 / (1.0 + math.exp(-d))
                y1 = 1.0 if data['y'][r] == 1 else 0.0
                f[r] = y1 * d - math.log1p(math.exp(d))
                G[r] = (y1 - p1) * xv
                H[r] = -p1 * (1.0 - p1) * np.outer(xv, xv)
            return f, G, H
        out.append(dict(tag='binary-logit[%d]' % k, node=node, free=names, fixed={}, data=data, theta=theta,
                        analytic=analytic))
    return out


def family_mnl3(rng, count, nrows):
    out = []
    for idx in range(count):
        names = pick_names(rng, 4)                          # time coefficient, constant 1, cost coefficient, constant 2
        bt, a1, bc, a2 = names
        data = {}
        for j in (1, 2, 3):
            data['t%d' % j] = [rnd(rng, 0.1, 3) for _ in range(nrows)]
            data['c%d' % j] = [rnd(rng, 0.1, 2) for _ in range(nrows)]
        data['ch'] = [rng.choice((1, 2, 3)) for _ in range(nrows)]
        for j in (1, 2, 3):
            data['av%d' % j] = [1 if (data['ch'][r] == j or rng.random() < 0.7) else 0 for r in range(nrows)]
        fixed = {'kappa3': 0.0, 'scale_fixed': 1.0}
        utils = []
        for j, asc in ((1, B(a1)), (2, B(a2)), (3, B('kappa3'))):
            u = ('Plus', ('Plus', asc, ('Times', B(bt), V('t%d' % j))),
                 ('Times', ('Times', B(bc), B('scale_fixed')), V('c%d' % j)))
            utils.append((j, u))
        node = ('LogLogit', V('ch'), tuple(utils), tuple((j, V('av%d' % j)) for j in (1, 2, 3)))
        theta = {nm: rnd(rng, -1.0, 1.0) for nm in names}

        def analytic(theta, data, order, bt=bt, a1=a1, bc=bc, a2=a2):
            n = len(data['ch'])
            f, G, H = np.zeros(n), np.zeros((n, 4)), np.zeros((n, 4, 4))
            for r in range(n):
                xs, vs = {}, {}
                for j in (1, 2, 3):
                    if data['av%d' % j][r] == 0:
                        continue
                    x = np.zeros(4)
                    x[order[bt]] = data['t%d' % j][r]
                    x[order[bc]] = data['c%d' % j][r]
                    if j == 1:
                        x[order[a1]] = 1.0
                    if j == 2:
                        x[order[a2]] = 1.0
                    xs[j] = x
                    vs[j] = ((theta[a1] if j == 1 else theta[a2] if j == 2 else 0.0)
                             + theta[bt] * data['t%d' % j][r] + theta[bc] * data['c%d' % j][r])
                top = max(vs.values())
                den = sum(math.exp(v - top) for v in vs.values())
                p = {j: math.exp(vs[j] - top) / den for j in vs}
                c = data['ch'][r]
                f[r] = vs[c] - top - math.log(den)
                mean = sum(p[j] * xs[j] for j in vs)
                G[r] = xs[c] - mean
                H[r] = -(sum(p[j] * np.outer(xs[j], xs[j]) for j in vs) - np.outer(mean, mean))
            return f, G, H
        out.append(dict(tag='mnl3', node=node, free=names, fixed=fixed, data=data, theta=theta, analytic=analytic))
    return out


def family_closed_forms(rng, count, nrows):
    out = []
    for idx in range(count):
        data = {'x': [rnd(rng, -1.5, 1.5) for _ in range(nrows)]}
        form = idx % 8
        if form == 0:
            names = pick_names(rng, 3)
            b1, b2, b3 = names
            node = ('Plus', ('Plus', ('Times', ('PowerConstant', B(b1), 2.0), V('x')),
                             ('Times', ('exp', ('Times', B(b2), V('x'))), B(b3))),
                    ('Times', ('Times', B(b1), B(b2)), B(b3)))

            def analytic(theta, data, order, b1=b1, b2=b2, b3=b3):
                n = len(data['x'])
                f, G, H = np.zeros(n), np.zeros((n, 3)), np.zeros((n, 3, 3))
                t1, t2, t3 = theta[b1], theta[b2], theta[b3]
                i1, i2, i3 = order[b1], order[b2], order[b3]
                for r, x in enumerate(data['x']):
                    e = math.exp(t2 * x)
                    f[r] = t1 * t1 * x + e * t3 + t1 * t2 * t3
                    G[r, i1] = 2 * t1 * x + t2 * t3
                    G[r, i2] = x * e * t3 + t1 * t3
                    G[r, i3] = e + t1 * t2
                    H[r, i1, i1] = 2 * x
                    H[r, i2, i2] = x * x * e * t3
                    H[r, i1, i2] = H[r, i2, i1] = t3
                    H[r, i1, i3] = H[r, i3, i1] = t2
                    H[r, i2, i3] = H[r, i3, i2] = x * e + t1
                return f, G, H
        elif form == 1:
            names = pick_names(rng, 2)
            b1, b2 = names
            s = ('Plus', ('Plus', ('Times', B(b1), B(b1)), ('Times', V('x'), V('x'))), N(1))
            node = ('Plus', ('Times', ('log', s), B(b2)), ('sin', ('Times', B(b1), B(b2))))

            def analytic(theta, data, order, b1=b1, b2=b2):
                n = len(data['x'])
                f, G, H = np.zeros(n), np.zeros((n, 2)), np.zeros((n, 2, 2))
                t1, t2 = theta[b1], theta[b2]
                i1, i2 = order[b1], order[b2]
                for r, x in enumerate(data['x']):
                    s = t1 * t1 + x * x + 1
                    sn, cs = math.sin(t1 * t2), math.cos(t1 * t2)
                    f[r] = math.log(s) * t2 + sn
                    G[r, i1] = 2 * t1 * t2 / s + t2 * cs
                    G[r, i2] = math.log(s) + t1 * cs
                    H[r, i1, i1] = t2 * (2 * s - 4 * t1 * t1) / (s * s) - t2 * t2 * sn
                    H[r, i2, i2] = -t1 * t1 * sn
                    H[r, i1, i2] = H[r, i2, i1] = 2 * t1 / s + cs - t1 * t2 * sn
                return f, G, H
        elif form == 2:
            names = pick_names(rng, 2)
            b1, b2 = names
            node = ('Divide', B(b1), ('Plus', ('Plus', B(b2), ('PowerConstant', V('x'), 2.0)), N(3)))

            def analytic(theta, data, order, b1=b1, b2=b2):
                n = len(data['x'])
                f, G, H = np.zeros(n), np.zeros((n, 2)), np.zeros((n, 2, 2))
                t1, t2 = theta[b1], theta[b2]
                i1, i2 = order[b1], order[b2]
                for r, x in enumerate(data['x']):
                    d = t2 + x * x + 3
                    f[r] = t1 / d
                    G[r, i1] = 1 / d
                    G[r, i2] = -t1 / d ** 2
                    H[r, i1, i2] = H[r, i2, i1] = -1 / d ** 2
                    H[r, i2, i2] = 2 * t1 / d ** 3
                return f, G, H
        elif form == 3:
            names = pick_names(rng, 2)
            b1, b2 = names
            node = ('PowerConstant', ('Plus', ('Times', B(b1), V('x')), B(b2)), 3.0)

            def analytic(theta, data, order, b1=b1, b2=b2):
                n = len(data['x'])
                f, G, H = np.zeros(n), np.zeros((n, 2)), np.zeros((n, 2, 2))
                i1, i2 = order[b1], order[b2]
                for r, x in enumerate(data['x']):
                    u = theta[b1] * x + theta[b2]
                    d = np.zeros(2)
                    d[i1], d[i2] = x, 1.0
                    f[r] = u ** 3
                    G[r] = 3 * u * u * d
                    H[r] = 6 * u * np.outer(d, d)
                return f, G, H
        elif form == 4:
            names = pick_names(rng, 2)
            b1, b2 = names
            node = ('PowerConstant', ('Plus', ('exp', ('Times', B(b1), V('x'))), B(b2)), 2.0)

            def analytic(theta, data, order, b1=b1, b2=b2):
                n = len(data['x'])
                f, G, H = np.zeros(n), np.zeros((n, 2)), np.zeros((n, 2, 2))
                i1, i2 = order[b1], order[b2]
                for r, x in enumerate(data['x']):
                    e = math.exp(theta[b1] * x)
                    u = e + theta[b2]
                    f[r] = u * u
                    G[r, i1] = 2 * u * x * e
                    G[r, i2] = 2 * u
                    H[r, i1, i1] = 2 * (x * e) ** 2 + 2 * u * x * x * e
                    H[r, i1, i2] = H[r, i2, i1] = 2 * x * e
                    H[r, i2, i2] = 2.0
                return f, G, H
        elif form == 5:
            names = pick_names(rng, 2)
            b1, b2 = names
            node = ('log', ('bioNormalCdf', ('Plus', B(b1), ('Times', B(b2), V('x')))))

            def analytic(theta, data, order, b1=b1, b2=b2):
                n = len(data['x'])
                f, G, H = np.zeros(n), np.zeros((n, 2)), np.zeros((n, 2, 2))
                i1, i2 = order[b1], order[b2]
                for r, x in enumerate(data['x']):
                    u = theta[b1] + theta[b2] * x
                    cdf = 0.5 * math.erfc(-u / SQRT2)
                    lam = math.exp(-0.5 * u * u) / math.sqrt(2 * math.pi) / cdf
                    d = np.zeros(2)
                    d[i1], d[i2] = 1.0, x
                    f[r] = math.log(cdf)
                    G[r] = lam * d
                    H[r] = -lam * (u + lam) * np.outer(d, d)
                return f, G, H
        elif form == 7:
            # interior point of a polynomial: the base of the power is EXACTLY 0 on two rows (the value 0 is right there whatever
            # the node; the second derivative 2 is only right if the exponent is treated as the constant it is)
            names = pick_names(rng, 2)
            b1, b2 = names
            node = ('UnaryMinus', ('Times', B(b2), ('PowNumeric', ('Minus', B(b1), V('x')), 2.0)))

            def analytic(theta, data, order, b1=b1, b2=b2):
                n = len(data['x'])
                f, G, H = np.zeros(n), np.zeros((n, 2)), np.zeros((n, 2, 2))
                i1, i2 = order[b1], order[b2]
                for r, x in enumerate(data['x']):
                    d = theta[b1] - x
                    f[r] = -theta[b2] * d * d
                    G[r, i1] = -2 * theta[b2] * d
                    G[r, i2] = -d * d
                    H[r, i1, i1] = -2 * theta[b2]
                    H[r, i1, i2] = H[r, i2, i1] = -2 * d
                return f, G, H
        else:
            names = pick_names(rng, 2)
            b1, b2 = names
            node = ('Times', ('Power', ('Plus', N(2), ('Times', V('x'), V('x'))), B(b1)), B(b2))

            def analytic(theta, data, order, b1=b1, b2=b2):
                n = len(data['x'])
                f, G, H = np.zeros(n), np.zeros((n, 2)), np.zeros((n, 2, 2))
                i1, i2 = order[b1], order[b2]
                for r, x in enumerate(data['x']):
                    base = 2 + x * x
                    pw = base ** theta[b1]
                    lg = math.log(base)
                    f[r] = pw * theta[b2]
                    G[r, i1] = f[r] * lg
                    G[r, i2] = pw
                    H[r, i1, i1] = f[r] * lg * lg
                    H[r, i1, i2] = H[r, i2, i1] = pw * lg
                return f, G, H
        theta = {nm: rnd(rng, 0.2, 1.4) * rng.choice((1, 1, -1)) for nm in names}
        if form == 7:
            data['x'][0] = data['x'][-1] = theta[names[0]]          # base exactly 0 on the first and the last row
        if form == 2:
            theta[names[1]] = abs(theta[names[1]])
        out.append(dict(tag='closed-form[%d]' % form, node=node, free=names, fixed={}, data=data, theta=theta,
                        analytic=analytic))
    return out


OPERATORS = ['Plus', 'Minus', 'Times', 'Divide', 'Power', 'bioMin', 'bioMax', 'UnaryMinus', 'exp', 'log', 'logzero',
             'sin', 'cos', 'bioNormalCdf', 'PowerConstant[2]', 'PowerConstant[3]', 'PowerConstant[0.5]',
             'PowerConstant[-1]', 'PowerConstant[1]', 'PowerConstant[-2.5]', 'Elem', 'ConditionalSum', 'bioMultSum',
             'LogLogit', 'LogLogit[av]', 'Power[const-base]', 'Divide[const-num]', 'nested', 'PowerConstant[0]',
             'Divide[zero-num]', 'Divide[unit-den]', 'Times[zero-factor]']


def family_operators(rng, count_per_op, nrows):
    """every differentiable operator over two sub-formulas u, v (positive, non-zero Hessians, u != v)"""
    out = []
    for op in OPERATORS:
        for rep in range(count_per_op):
            k = 2 + (rep + len(op)) % 3
            names = pick_names(rng, k)
            fixed = {'kappa': rnd(rng, 0.5, 1.5), 'Mfix': rnd(rng, 0.2, 0.9)}
            theta = {nm: rnd(rng, 0.3, 1.2) * rng.choice((1, 1, -1)) for nm in names}
            p = [B(nm) for nm in names]
            q = p[2] if k > 2 else B('kappa')
            r4 = p[3] if k > 3 else B('Mfix')
            # u, v > 0 with non-zero first and second derivatives in every parameter
            u = ('Plus', ('exp', ('Times', ('Times', p[0], N(0.5)), V('x'))), ('Plus', ('Times', p[1], q), N(3.0)))
            v = ('Plus', ('Plus', ('Times', p[1], p[1]), ('Times', ('Times', V('x'), V('x')), ('Times', q, r4))),
                 ('Plus', N(2.5), ('sin', p[0])))
            if op in ('Plus', 'Minus', 'Times', 'Divide', 'Power', 'bioMin', 'bioMax'):
                node = (op, u, v)
            elif op in ('UnaryMinus', 'exp', 'log', 'logzero', 'sin', 'cos'):
                node = (op, ('Times', u, ('Divide', N(1.0), v)))
            elif op == 'bioNormalCdf':
                node = (op, ('Minus', u, v))
            elif op.startswith('PowerConstant'):
                node = ('PowerConstant', u if rep % 2 == 0 else v, float(op[op.index('[') + 1:-1]))
            elif op == 'Elem':
                node = ('Elem', V('key'), ((1, u), (2, v), (3, ('Times', u, v))))
            elif op == 'ConditionalSum':
                node = ('ConditionalSum', ((V('c1'), u), (V('c2'), v), (('Minus', V('key'), N(2)), ('Times', u, u))))
            elif op == 'bioMultSum':
                node = ('bioMultSum', (u, v, ('Times', u, v), p[0]))
            elif op == 'LogLogit':
                node = ('LogLogit', V('key'), ((1, u), (2, v), (3, ('Times', p[0], V('x')))), None)
            elif op == 'LogLogit[av]':
                node = ('LogLogit', V('key'), ((1, u), (2, v), (3, ('Times', p[0], V('x')))),
                        ((1, V('one')), (2, V('one')), (3, N(1))))
            elif op == 'Power[const-base]':
                node = ('Power', N(1.7), ('Times', u, N(0.3)))
            elif op == 'Divide[const-num]':
                node = ('Divide', N(2.0), ('Times', u, v))
            elif op == 'Divide[zero-num]':
                # the numerator vanishes at the evaluation point (its derivative does not)
                node = ('Divide', ('Times', ('Minus', p[0], N(theta[names[0]])), u), v)
            elif op == 'Divide[unit-den]':
                # the denominator is exactly one at the evaluation point
                node = ('Divide', u, ('Plus', ('Times', ('Minus', p[1], N(theta[names[1]])), v), N(1.0)))
            elif op == 'Times[zero-factor]':
                node = ('Times', ('Times', ('Minus', p[0], N(theta[names[0]])), u), v)
            else:
                node = ('log', ('Plus', ('exp', ('Divide', u, v)), ('PowerConstant', ('Times', u, v), 0.5)))
            data = {'x': [rnd(rng, -1.2, 1.2) for _ in range(nrows)],
                    'key': [1 + (i + rep) % 3 for i in range(nrows)],
                    'c1': [float((i + rep) % 2) for i in range(nrows)],
                    'c2': [float((i // 2) % 2) * 2.5 for i in range(nrows)],
                    'one': [1.0] * nrows}
            used = [nm for nm in betas_in(node, []) if nm in names]            # order of first appearance
            out.append(dict(tag='operator:' + op, node=node, free=used, fixed=fixed, data=data,
                            theta={nm: theta[nm] for nm in used}, analytic=None))
    return out


def family_no_database(rng, count):
    out = []
    for idx in range(count):
        k = 1 + idx % 4
        names = pick_names(rng, max(k, 2))[:k] if k > 1 else [rng.choice(NAME_POOL)]
        p = [B(nm) for nm in names]
        node = ('exp', ('Times', p[0], N(0.5)))
        for j in range(1, k):
            node = ('Plus', ('Times', node, p[j]), ('PowerConstant', ('Plus', p[j], N(2.0)), float(j + 1)))
        theta = {nm: rnd(rng, 0.2, 1.3) for nm in names}
        out.append(dict(tag='no-database[%d]' % k, node=node, free=names, fixed={}, data=None, theta=theta,
                        analytic=None))
    return out


# ----------------------------------------------------------------------------------------------------------------
# checking one case
# ----------------------------------------------------------------------------------------------------------------
class Poisoned(Exception):
    pass


class Checker:
    def __init__(self, tier, seed):
        import logging
        import warnings
        logging.disable(logging.CRITICAL)
        warnings.filterwarnings('ignore')
        self.tier, self.seed = tier, seed
        self.cases = 0
        self.failures = []
        self.hist = {}

    def fail(self, clause, case, expected, got, extra=None):
        desc = {'tag': case['tag'], 'formula': show(case['node']), 'free_in_order_of_appearance': case['free'],
                'theta': case['theta'], 'fixed': case['fixed'],
                'data': case['data'] if case['data'] is None or len(str(case['data'])) < 1500 else
                {c: v[:6] for c, v in case['data'].items()}}
        if extra:
            desc.update(extra)
        if case.get('_square_of_curved_child'):
            desc['note'] = ('the formula contains child ** 2 (PowerConstant, exponent 2) over a child with a non-zero '
                            'Hessian: the engine branch for exponent 2 adds 2*h_child instead of 2*f_child*h_child')
        key = clause + ' | ' + case['tag']
        self.hist[key] = self.hist.get(key, 0) + 1
        if self.hist[key] <= 2 and len(self.failures) < 60:      # two records per (clause, formula family): a flood of one kind must not hide another
            def conv(o):
                if isinstance(o, np.ndarray):
                    return o.tolist()
                if isinstance(o, (np.floating, np.integer)):
                    return o.item()
                return o
            self.failures.append(json.loads(json.dumps({'clause': clause, 'case': desc, 'expected': conv(expected),
                                                        'got': conv(got)}, default=lambda o: conv(o) if isinstance(
                                                            o, (np.ndarray, np.floating, np.integer)) else str(o))))
        else:
            self.failures.append(None)

    def sentinel_ok(self):
        import biogeme.expressions as ex
        try:
            b = ex.Beta('s', 2.0, None, None, 0)
            r = (b * b).get_value_and_derivatives(prepare_ids=True, gradient=True, hessian=True, bhhh=False)
            return float(r.function) == 4.0
        except Exception:
            return False

    def guarded(self, clause, case, fn, extra=None):
        try:
            return fn()
        except Exception as e:  # noqa
            self.fail(clause, case, 'a result', 'raised %s: %s' % (type(e).__name__, str(e)[:300]), extra)
            if not self.sentinel_ok():
                raise Poisoned()
            return None

    def compare(self, clause, case, got, want, tol=RTOL, extra=None):
        """arrays equal up to tol * max(1, largest |expected| entry)"""
        self.cases += 1
        if got is None:
            self.fail(clause, case, want, None, extra)
            return False
        got = np.asarray(got, dtype=float)
        want = np.asarray(want, dtype=float)
        if got.shape != want.shape:
            self.fail(clause, case, {'shape': list(want.shape)}, {'shape': list(got.shape)}, extra)
            return False
        scale = max(1.0, float(np.max(np.abs(want))) if want.size else 1.0)
        if not np.all(np.isfinite(got)) or float(np.max(np.abs(got - want))) > tol * scale:
            self.fail(clause, case, want, got, extra)
            return False
        return True

    def oracle(self, case, order):
        names = sorted(case['free'])
        n = len(names)
        if case['data'] is None:
            rows = [{}]
        else:
            cols = list(case['data'])
            rows = [{c: float(case['data'][c][r]) for c in cols} for r in range(len(case['data'][cols[0]]))]
        f, G, H = np.zeros(len(rows)), np.zeros((len(rows), n)), np.zeros((len(rows), n, n))
        self.margin = []
        for r, row in enumerate(rows):
            env = {'order': order, 'theta': case['theta'], 'fixed': case['fixed'], 'row': row}
            j = jet(case['node'], env)
            f[r], G[r], H[r] = j.v, j.g, j.h
            self.margin.append(min(env.get('margins', [1e9])))
        if case['analytic'] is not None:
            fa, Ga, Ha = case['analytic'](case['theta'], case['data'], order)
            # the two independent oracles must agree with each other (else the harness itself is wrong)
            for a, b_, what in ((fa, f, 'value'), (Ga, G, 'gradient'), (Ha, H, 'hessian')):
                if float(np.max(np.abs(a - b_))) > 1e-10 * max(1.0, float(np.max(np.abs(a)))):
                    self.fail('harness', case, a, b_, {'what': 'hand-derived closed form and jets disagree on ' + what})
            return fa, Ga, Ha
        return f, G, H

    def square_of_curved_child(self, case, order):
        """does the formula contain PowerConstant(child, 2) with a child whose Hessian is not zero? (tag only)"""
        found = []

        def walk(n):
            if isinstance(n, tuple):
                if n and n[0] == 'PowerConstant' and float(n[2]) == 2.0:
                    found.append(n[1])
                for c in n:
                    walk(c)
        walk(case['node'])
        if not found or case['data'] is None and False:
            return False
        cols = list(case['data']) if case['data'] else []
        row = {c: float(case['data'][c][0]) for c in cols}
        for child in found:
            try:
                j = jet(child, {'order': order, 'theta': case['theta'], 'fixed': case['fixed'], 'row': row})
                if np.any(j.h != 0.0):
                    return True
            except Exception:  # noqa
                return True
        return False

    def make(self, case, rng):
        """biogeme expression, betas dict for the call, database"""
        import pandas as pd
        import biogeme.database as bdb
        import biogeme.expressions as ex
        betas = {}
        given = {}
        for i, nm in enumerate(case['free']):
            if rng.random() < 0.4:
                betas[nm] = ex.Beta(nm, case['theta'][nm], None, None, 0)       # value = initial value
            else:
                betas[nm] = ex.Beta(nm, 0.123 + i, None, None, 0)               # value through the betas dict
                given[nm] = case['theta'][nm]
        for nm, v in case['fixed'].items():
            betas[nm] = ex.Beta(nm, v, None, None, 1)
        keys = list(given)
        rng.shuffle(keys)
        given = {kk: given[kk] for kk in keys}
        e = build(case['node'], betas)
        db = None if case['data'] is None else bdb.Database('c02', pd.DataFrame(case['data']))
        return e, (given or None), db

    def run(self, idx, case, with_fd):
        from biogeme.exceptions import BiogemeError
        rng = random.Random(self.seed * 1000003 + idx)
        names = sorted(case['free'])
        order = {nm: i for i, nm in enumerate(names)}
        n = len(names)
        f, G, H = self.oracle(case, order)
        BH = np.array([np.outer(g, g) for g in G])
        case['_square_of_curved_child'] = self.square_of_curved_child(case, order)
        e, given, db = self.make(case, rng)
        nodb = db is None
        kw = dict(betas=given, database=db, prepare_ids=True)

        if not nodb:
            # ---- per observation
            r = self.guarded('value', case, lambda: e.get_value_and_derivatives(
                aggregation=False, gradient=True, hessian=True, bhhh=True, **kw))
            if r is not None:
                self.compare('value', case, r.functions, f)
                self.compare('gradient', case, r.gradients, G)
                self.compare('hessian', case, r.hessians, H)
                self.compare('bhhh', case, r.bhhhs, BH)
                hs = np.asarray(r.hessians, dtype=float)
                bs = np.asarray(r.bhhhs, dtype=float)
                self.cases += 1
                if hs.shape == H.shape and (np.max(np.abs(hs - np.transpose(hs, (0, 2, 1)))) > 1e-12 * max(1.0, np.max(np.abs(hs)))
                                            or np.max(np.abs(bs - np.transpose(bs, (0, 2, 1)))) > 0):
                    self.fail('symmetric', case, 'symmetric matrices', hs)
                rows_sum = (np.sum(np.asarray(r.functions, dtype=float)), np.sum(np.asarray(r.gradients, dtype=float), axis=0),
                            np.sum(hs, axis=0), np.sum(bs, axis=0))
                rn = self.guarded('named', case, lambda: e.get_value_and_derivatives(
                    aggregation=False, gradient=True, hessian=True, bhhh=True, named_results=True, **kw))
                if rn is not None:
                    try:
                        gn = np.array([[row[nm] for nm in names] for row in rn.gradients])
                        hn = np.array([[[m[a][b_] for b_ in names] for a in names] for m in rn.hessians])
                        bn = np.array([[[m[a][b_] for b_ in names] for a in names] for m in rn.bhhhs])
                        self.compare('named', case, gn, G, extra={'what': 'per-row gradients by name'})
                        self.compare('named', case, hn, H, extra={'what': 'per-row hessians by name'})
                        self.compare('named', case, bn, BH, extra={'what': 'per-row bhhh by name'})
                    except Exception as exn:  # noqa
                        self.fail('named', case, 'dicts keyed by %s' % names, 'raised %s: %s' % (type(exn).__name__, exn))
            else:
                rows_sum = None
        else:
            rows_sum = None
        # ---- aggregated (for a formula without database: the single value)
        ra = self.guarded('agg-value', case, lambda: e.get_value_and_derivatives(
            aggregation=True, gradient=True, hessian=True, bhhh=True, **kw))
        pre = 'no-database' if nodb else 'agg-'
        cl = (lambda s: 'no-database') if nodb else (lambda s: 'agg-' + s)
        if ra is not None:
            self.compare(cl('value'), case, ra.function, np.sum(f), extra={'what': 'value'})
            self.compare(cl('gradient'), case, ra.gradient, np.sum(G, axis=0), extra={'what': 'gradient'})
            self.compare(cl('hessian'), case, ra.hessian, np.sum(H, axis=0), extra={'what': 'hessian'})
            self.compare(cl('bhhh'), case, ra.bhhh, np.sum(BH, axis=0), extra={'what': 'bhhh'})
            ha = np.asarray(ra.hessian, dtype=float)
            self.cases += 1
            if ha.shape == (n, n) and np.max(np.abs(ha - ha.T)) > 1e-12 * max(1.0, np.max(np.abs(ha))):
                self.fail('symmetric', case, 'a symmetric matrix', ha)
            if rows_sum is not None:
                for got, want, what in zip((ra.function, ra.gradient, ra.hessian, ra.bhhh), rows_sum,
                                           ('value', 'gradient', 'hessian', 'bhhh')):
                    self.compare('sum-of-rows', case, got, want, tol=1e-12, extra={'what': what})
        rna = self.guarded('named', case, lambda: e.get_value_and_derivatives(
            aggregation=True, gradient=True, hessian=True, bhhh=True, named_results=True, **kw))
        if rna is not None:
            try:
                self.compare('named', case, [rna.gradient[nm] for nm in names], np.sum(G, axis=0),
                             extra={'what': 'aggregated gradient by name'})
                self.compare('named', case, [[rna.hessian[a][b_] for b_ in names] for a in names], np.sum(H, axis=0),
                             extra={'what': 'aggregated hessian by name'})
                self.compare('named', case, [[rna.bhhh[a][b_] for b_ in names] for a in names], np.sum(BH, axis=0),
                             extra={'what': 'aggregated bhhh by name'})
                self.cases += 1
                if sorted(rna.gradient) != names:
                    self.fail('named', case, names, sorted(rna.gradient))
            except Exception as exn:  # noqa
                self.fail('named', case, 'dicts keyed by %s' % names, 'raised %s: %s' % (type(exn).__name__, exn))
        # ---- options
        for hess, bh in ((False, False), (True, False), (False, True)):
            ro = self.guarded('options', case, lambda: e.get_value_and_derivatives(
                aggregation=True, gradient=True, hessian=hess, bhhh=bh, **kw), {'hessian': hess, 'bhhh': bh})
            if ro is None:
                continue
            ex_ = {'hessian': hess, 'bhhh': bh}
            self.compare('options', case, ro.function, np.sum(f), extra=ex_)
            self.compare('options', case, ro.gradient, np.sum(G, axis=0), extra=ex_)
            self.cases += 1
            if hess:
                self.compare('options', case, ro.hessian, np.sum(H, axis=0), extra=ex_)
            elif ro.hessian is not None:
                self.fail('options', case, None, ro.hessian, ex_)
            if bh:
                self.compare('options', case, ro.bhhh, np.sum(BH, axis=0), extra=ex_)
            elif ro.bhhh is not None:
                self.fail('options', case, None, ro.bhhh, ex_)
        rv = self.guarded('options', case, lambda: e.get_value_and_derivatives(
            aggregation=True, gradient=False, hessian=False, bhhh=False, **kw), {'gradient': False})
        if rv is not None:
            self.compare('options', case, rv.function, np.sum(f), extra={'gradient': False})
            self.cases += 1
            if rv.gradient is not None or rv.hessian is not None or rv.bhhh is not None:
                self.fail('options', case, 'no derivatives', [rv.gradient, rv.hessian, rv.bhhh])
        # ---- refused
        for hess, bh in ((True, False), (False, True), (True, True)):
            self.cases += 1
            try:
                e.get_value_and_derivatives(aggregation=True, gradient=False, hessian=hess, bhhh=bh, **kw)
                self.fail('refused', case, 'BiogemeError', 'a result', {'gradient': False, 'hessian': hess, 'bhhh': bh})
            except BiogemeError:
                pass
            except Exception as exn:  # noqa
                self.fail('refused', case, 'BiogemeError', type(exn).__name__ + ': ' + str(exn)[:200],
                          {'gradient': False, 'hessian': hess, 'bhhh': bh})
            self.cases += 1
            try:
                e.create_function(database=db, gradient=False, hessian=hess, bhhh=bh)
                self.fail('refused', case, 'BiogemeError', 'a function', {'through': 'create_function', 'hessian': hess, 'bhhh': bh})
            except BiogemeError:
                pass
            except Exception as exn:  # noqa
                self.fail('refused', case, 'BiogemeError', type(exn).__name__ + ': ' + str(exn)[:200],
                          {'through': 'create_function'})
        if not self.sentinel_ok():
            raise Poisoned()
        # ---- create_function
        x = [case['theta'][nm] for nm in names]

        def through_function():
            e.set_id_manager(None)
            fn = e.create_function(database=db, gradient=True, hessian=True, bhhh=True)
            listed = list(e.id_manager.free_betas.names)
            return fn(np.array(x)), listed
        cf = self.guarded('create-function', case, through_function)
        if cf is not None:
            outf, listed = cf
            self.cases += 1
            if listed != names:
                self.fail('sorted-names', case, names, listed, {'through': 'create_function id_manager'})
            try:
                self.compare('create-function', case, outf.function, np.sum(f))
                self.compare('create-function', case, [outf.gradient[nm] for nm in names], np.sum(G, axis=0))
                self.compare('create-function', case, [[outf.hessian[a][b_] for b_ in names] for a in names],
                             np.sum(H, axis=0))
                self.compare('create-function', case, [[outf.bhhh[a][b_] for b_ in names] for a in names],
                             np.sum(BH, axis=0))
            except Exception as exn:  # noqa
                self.fail('create-function', case, 'named output', 'raised %s: %s' % (type(exn).__name__, exn))
        e.set_id_manager(None)
        if nodb:
            return
        # ---- BIOGEME
        self.check_biogeme(idx, case, names, x, f, G, H, BH, rng)
        # ---- finite differences on the engine value
        if with_fd:
            self.check_fd(case, e, db, names, r if r is not None else None)

    def check_biogeme(self, idx, case, names, x, f, G, H, BH, rng):
        from biogeme.biogeme import BIOGEME
        from biogeme.parameters import Parameters
        import pandas as pd
        import biogeme.database as bdb
        import biogeme.expressions as ex
        nobs = len(f)
        betas = {nm: ex.Beta(nm, 0.05 * (i + 1), None, None, 0) for i, nm in enumerate(case['free'])}
        for nm, v in case['fixed'].items():
            betas[nm] = ex.Beta(nm, v, None, None, 1)
        e = build(case['node'], betas)
        db = bdb.Database('c02b', pd.DataFrame(case['data']))
        par = Parameters()
        threads = 1 + idx % 3
        par.set_value('number_of_threads', threads, section='MultiThreading')
        par.set_value('save_iterations', idx % 2 == 0, section='Estimation')
        extra = {'through': 'BIOGEME', 'threads': threads}
        bg = self.guarded('biogeme', case, lambda: BIOGEME(db, e, parameters=par), extra)
        if bg is None:
            return
        self.cases += 1
        if list(bg.free_beta_names) != names or list(bg.id_manager.free_betas.names) != names:
            self.fail('sorted-names', case, names, [list(bg.free_beta_names), list(bg.id_manager.free_betas.names)], extra)
        for scaled in (False, True):
            d = float(nobs) if scaled else 1.0
            for hess, bh in ((True, True), (False, False), (True, False), (False, True)):
                ex2 = dict(extra, scaled=scaled, hessian=hess, bhhh=bh)
                out = self.guarded('biogeme', case, lambda: bg.calculate_likelihood_and_derivatives(
                    x, scaled=scaled, hessian=hess, bhhh=bh), ex2)
                if out is None:
                    continue
                self.compare('biogeme', case, out.function, np.sum(f) / d, extra=dict(ex2, what='value'))
                self.compare('biogeme', case, out.gradient, np.sum(G, axis=0) / d, extra=dict(ex2, what='gradient'))
                if hess:
                    self.compare('biogeme', case, out.hessian, np.sum(H, axis=0) / d, extra=dict(ex2, what='hessian'))
                if bh:
                    self.compare('biogeme', case, out.bhhh, np.sum(BH, axis=0) / d, extra=dict(ex2, what='bhhh'))
            lk = self.guarded('biogeme', case, lambda: bg.calculate_likelihood(x, scaled=scaled), dict(extra, scaled=scaled))
            if lk is not None:
                self.compare('biogeme', case, lk, np.sum(f) / d, extra=dict(extra, scaled=scaled, what='calculate_likelihood'))

    def check_fd(self, case, e, db, names, r):
        if r is None:
            return
        n = len(names)
        theta0 = np.array([case['theta'][nm] for nm in names])

        def F(t):
            return np.asarray(e.get_value_c(database=db, betas={nm: float(t[i]) for i, nm in enumerate(names)},
                                            prepare_ids=True), dtype=float)

        def run(factor=1.0):
            hs = [factor * 2e-3 * max(1.0, abs(t)) for t in theta0]
            f0 = F(theta0)
            g = np.zeros((len(f0), n))
            hd = np.zeros((len(f0), n, n))
            for i in range(n):
                ei = np.zeros(n)
                ei[i] = hs[i]
                fp1, fm1, fp2, fm2 = F(theta0 + ei), F(theta0 - ei), F(theta0 + 2 * ei), F(theta0 - 2 * ei)
                g[:, i] = (8 * (fp1 - fm1) - (fp2 - fm2)) / (12 * hs[i])
            hh = [factor * 2e-2 * max(1.0, abs(t)) for t in theta0]
            for i in range(n):
                ei = np.zeros(n)
                ei[i] = hh[i]
                fp1, fm1, fp2, fm2 = F(theta0 + ei), F(theta0 - ei), F(theta0 + 2 * ei), F(theta0 - 2 * ei)
                hd[:, i, i] = (-fp2 + 16 * fp1 - 30 * f0 + 16 * fm1 - fm2) / (12 * hh[i] ** 2)
                for j in range(i + 1, n):
                    ej = np.zeros(n)
                    ej[j] = hh[j]

                    def cross(s):
                        return (F(theta0 + s * ei + s * ej) - F(theta0 + s * ei - s * ej)
                                - F(theta0 - s * ei + s * ej) + F(theta0 - s * ei - s * ej)) / (4 * s * s * hh[i] * hh[j])
                    hd[:, i, j] = hd[:, j, i] = (4 * cross(0.5) - cross(1.0)) / 3.0
            return g, hd

        def both():
            # two step sizes: the finer result is the estimate, four times their difference its error bar
            g1, h1 = run(1.0)
            g2, h2 = run(0.5)
            return g2, h2, 4 * np.abs(g1 - g2), 4 * np.abs(h1 - h2)
        res = self.guarded('finite-differences', case, both)
        if res is None:
            return
        g, hd, gbar, hbar = res
        # rows where a min/max is within reach of the difference steps of its kink are not comparable
        keep = [i for i, mg in enumerate(self.margin) if mg > 0.5]
        if not keep:
            return
        for got, est, bar, tol, what in ((np.asarray(r.gradients, dtype=float), g, gbar, FDTOL, 'gradient per row'),
                                         (np.asarray(r.hessians, dtype=float), hd, hbar, 50 * FDTOL, 'hessian per row')):
            self.cases += 1
            if got.shape != est.shape:
                self.fail('finite-differences', case, {'shape': list(est.shape)}, {'shape': list(got.shape)}, {'what': what})
                continue
            scale = max(1.0, float(np.max(np.abs(est[keep]))))
            if np.any(np.abs(got[keep] - est[keep]) > tol * scale + bar[keep]):
                self.fail('finite-differences', case, est[keep], got[keep],
                          {'what': what, 'rows': keep, 'error_bar_of_the_differences': float(np.max(bar[keep]))})


def case_list(tier, seed):
    rng = random.Random(seed)
    q = tier == 'quick'
    nrows = 5 if q else 9
    cases = []
    cases += family_binary_logit(rng, 12 if q else 90, nrows + 3)
    cases += family_mnl3(rng, 8 if q else 60, nrows + 3)
    cases += family_closed_forms(rng, 28 if q else 140, nrows)
    cases += family_operators(rng, 3 if q else 16, nrows)
    cases += family_no_database(rng, 8 if q else 48)
    return cases


def supervise(tier, seed, nparts, deadline, prefix, died_clause):
    """run the worker processes; returns (list of the workers' result dicts, number of respawns).  Everything the
    workers write lives under one temporary directory that is removed here, whatever happens."""
    root = tempfile.mkdtemp(prefix=prefix)
    results, respawns, procs = [], 0, {}

    def spawn(part, start):
        spec = {'tier': tier, 'seed': seed, 'part': part, 'nparts': nparts, 'start': start, 'deadline': deadline,
                'root': root}
        return subprocess.Popen([sys.executable, os.path.abspath(__file__), '--worker', json.dumps(spec)],
                                stdout=subprocess.PIPE, stderr=subprocess.PIPE, text=True)
    try:
        for part in range(nparts):
            procs[part] = spawn(part, 0)
        while procs:
            for part in list(procs):
                out, err = procs[part].communicate()
                code = procs[part].returncode
                del procs[part]
                line = out.strip().splitlines()[-1] if out.strip() else ''
                try:
                    res = json.loads(line)
                    if not isinstance(res, dict) or 'nfail' not in res:
                        raise ValueError
                except ValueError:
                    # the worker died (e.g. a crash inside the engine): take what it had finished, record the item it
                    # was working on and resume behind it
                    try:
                        with open(os.path.join(root, 'state_%d.json' % part)) as fh:
                            state = json.load(fh)
                        os.remove(os.path.join(root, 'state_%d.json' % part))
                        res = state['result']
                        res['nfail'] += 1
                        res['failures'].append({'clause': died_clause, 'case': {'item': state['what']},
                                                'expected': 'a result', 'got': 'the process died (exit code %s): %s'
                                                % (code, (err or '')[-300:])})
                        key = died_clause + ' | process died'
                        res['hist'][key] = res['hist'].get(key, 0) + 1
                        res['resume'] = state['current'] + 1
                    except (OSError, ValueError, KeyError):
                        res = {'cases': 0, 'nfail': 1, 'hist': {'harness | no result line': 1}, 'resume': None,
                               'timed_out': False,
                               'failures': [{'clause': 'harness', 'case': {'worker': part}, 'expected': 'a result line',
                                             'got': (err or out)[-600:]}]}
                results.append(res)
                if res.get('resume') is not None and respawns < 40:
                    respawns += 1
                    procs[part] = spawn(part, res['resume'])
    finally:
        for pr in procs.values():
            try:
                pr.kill()
            except OSError:
                pass
        shutil.rmtree(root, ignore_errors=True)
    return results, respawns


def save_state(root, part, state):
    tmp = os.path.join(root, 'state_%d.tmp' % part)
    with open(tmp, 'w') as fh:
        json.dump(state, fh)
    os.replace(tmp, os.path.join(root, 'state_%d.json' % part))


def worker_main(spec):
    tier, seed, part, nparts, start = spec['tier'], spec['seed'], spec['part'], spec['nparts'], spec['start']
    root = spec['root']
    os.chdir(tempfile.mkdtemp(prefix='w%d_' % part, dir=root))
    ck = Checker(tier, seed)
    cases = case_list(tier, seed)
    resume, timed_out = None, False

    def result():
        return {'cases': ck.cases, 'failures': [x for x in ck.failures if x is not None], 'nfail': len(ck.failures),
                'resume': resume, 'hist': ck.hist, 'ncases': len(cases), 'timed_out': timed_out}
    for pos in range(start, len(cases)):
        if pos % nparts != part:
            continue
        if time.time() > spec['deadline']:
            timed_out = True
            break
        save_state(root, part, {'current': pos, 'what': (cases[pos]['tag'] + ' ' + show(cases[pos]['node']))[:600],
                                'result': result()})
        try:
            ck.run(pos, cases[pos], with_fd=True)
        except Poisoned:
            resume = pos + 1
            break
    print(json.dumps(result()))



def _diverse(failures, cap=60):
    """records of different kinds first (two per kind): a flood of one kind of failure must not hide another kind"""
    seen, first, rest = {}, [], []
    for f in failures:
        if not f:
            continue
        c = f.get('case') if isinstance(f.get('case'), dict) else {}
        k = (f.get('clause'), str(c.get('tag', c.get('part', c.get('formula', ''))))[:60])
        seen[k] = seen.get(k, 0) + 1
        (first if seen[k] <= 2 else rest).append(f)
    return (first + rest)[:cap]


def main():
    if len(sys.argv) >= 3 and sys.argv[1] == '--worker':
        worker_main(json.loads(sys.argv[2]))
        return 0
    tier = sys.argv[1] if len(sys.argv) > 1 else 'quick'
    seed = int(sys.argv[2]) if len(sys.argv) > 2 else 0
    t0 = time.time()
    deadline = t0 + (50 if tier == 'quick' else 560)
    results, respawns = supervise(tier, seed, 6 if tier == 'quick' else 8, deadline, 'c02_', 'value')
    cases, failures, nfail, hist, ncases, timed_out = 0, [], 0, {}, 0, False
    for res in results:
        cases += res['cases']
        nfail += res['nfail']
        failures += res['failures']
        ncases = res.get('ncases', ncases)
        timed_out = timed_out or res['timed_out']
        for k, v in res['hist'].items():
            hist[k] = hist.get(k, 0) + v
    for k in sorted(hist):
        print('FAIL', hist[k], k)
    print('elapsed %.1f s, respawns %d, failures in total %d' % (time.time() - t0, respawns, nfail))
    q = tier == 'quick'
    bound = ('%d formulas with 1-4 free parameters whose sorted names differ from their order of appearance (fixed '
             'parameters interleaved): binary logit (2-4 parameters) and 3-alternative logit with availabilities against '
             'hand-derived gradients/Hessians, 7 hand-derived closed forms, %d operator kinds over two sub-formulas with '
             'non-zero Hessians against second-order jets, formulas without database; %d-%d data rows; every formula: '
             'per-row and aggregated value/gradient/Hessian/BHHH (tolerance 1e-9 of the largest entry), named results, '
             'all option combinations, refusal of hessian/bhhh without gradient, create_function, BIOGEME.'
             'calculate_likelihood(_and_derivatives) scaled/unscaled with 1-3 threads; Richardson finite differences of '
             'the engine value (gradient 2e-6, Hessian 1e-4 relative) on %s; parameters given partly by initial value '
             'and partly by a betas dict; seed %d%s'
             % (ncases, len(OPERATORS), 5 if q else 9, 8 if q else 12, 'every formula', seed, '; TIME BUDGET HIT' if timed_out else ''))
    print(json.dumps({'cases': cases, 'bound': bound, 'failures': _diverse(failures)}))
    return 0 if nfail == 0 else 1


if __name__ == '__main__':
    sys.exit(main())
