"""C02 / C04 / C15 (round 3, tag m1): every flag combination of the two likelihood entry points of BIOGEME returns or raises
what its contract says, on the real code.

Bounded stand-in for what the deductive model abstracts away in BIOGEME.calculate_likelihood and
calculate_likelihood_and_derivatives: locals that are bound on some paths only (the executor gives them an arbitrary value
after a join) and the arguments of dropped logger calls.  A change that removes the default binding of `hmsg` / `bhhhmsg`
or the `error_msg` in front of `raise ValueError(error_msg)` ends in UnboundLocalError here.

Bound: 1 cross-sectional model (2 free parameters, 4 rows) + 1 panel model (2 individuals, 4 rows; one row is given a new
individual id after the BIOGEME object was built and the map is truncated, so that a stale individual map is visible); scaled x hessian x bhhh (8) x save_iterations (2);
wrong vector lengths (0, 1, 3) -> ValueError; batch given -> BiogemeError.  Prints one JSON line.
"""
import itertools
import json
import os
import shutil
import sys
import tempfile
import warnings

warnings.simplefilter('ignore')


def main():
    import logging
    import numpy as np
    import pandas as pd
    from biogeme.biogeme import BIOGEME
    from biogeme.database import Database
    from biogeme.exceptions import BiogemeError
    from biogeme.expressions import Beta, Variable, PanelLikelihoodTrajectory, exp, log
    from biogeme.parameters import Parameters
    # DEBUG so that every logging statement of the two functions is evaluated (their f-strings are evaluated eagerly anyway)
    logging.getLogger('biogeme').setLevel(logging.DEBUG)
    work = tempfile.mkdtemp(prefix='m1entry-')
    cwd = os.getcwd()
    os.chdir(work)
    fails, cases = [], 0

    def bad(check, case, expected, got):
        fails.append({'check': check, 'case': case, 'expected': expected, 'got': got})

    try:
        rows = [(1.0, 0.5), (2.0, 0.1), (4.0, 0.2), (0.5, 0.3)]
        b1, b2 = Beta('b1', 0.3, None, None, 0), Beta('b2', -0.2, None, None, 0)
        formula = -(b1 * Variable('x') - Variable('y')) ** 2 - (b2 - Variable('y')) ** 2

        def value(v1, v2):
            return -sum((v1 * x - y) ** 2 + (v2 - y) ** 2 for x, y in rows)

        for save in (False, True):
            params = Parameters()
            params.set_value('save_iterations', save, section='Estimation')
            db = Database('d', pd.DataFrame({'x': [r[0] for r in rows], 'y': [r[1] for r in rows]}))
            bio = BIOGEME(db, formula, parameters=params)
            bio.modelName = f'm1entry{int(save)}'
            pt = [0.4, 0.1]
            for scaled in (False, True):
                cases += 1
                try:
                    got = bio.calculate_likelihood(pt, scaled=scaled)
                    want = value(*pt) / (len(rows) if scaled else 1)
                    if not abs(got - want) <= 1e-9 * max(1.0, abs(want)):
                        bad('calculate_likelihood: value', {'scaled': scaled}, want, got)
                except Exception as e:    # noqa: BLE001
                    bad('calculate_likelihood: returns', {'scaled': scaled}, 'a value', repr(e))
            for scaled, hessian, bhhh in itertools.product((False, True), repeat=3):
                cases += 1
                case = {'scaled': scaled, 'hessian': hessian, 'bhhh': bhhh, 'save_iterations': save}
                try:
                    out = bio.calculate_likelihood_and_derivatives(pt, scaled=scaled, hessian=hessian, bhhh=bhhh)
                    want = value(*pt) / (len(rows) if scaled else 1)
                    if not abs(out.function - want) <= 1e-9 * max(1.0, abs(want)):
                        bad('calculate_likelihood_and_derivatives: value', case, want, out.function)
                    if np.asarray(out.gradient).shape != (2,):
                        bad('calculate_likelihood_and_derivatives: gradient shape', case, [2], list(np.asarray(out.gradient).shape))
                except Exception as e:    # noqa: BLE001
                    bad('calculate_likelihood_and_derivatives: returns', case, 'an output object', repr(e))
            for n in (0, 1, 3):
                for fn, kw in ((bio.calculate_likelihood, {'scaled': False}),
                               (bio.calculate_likelihood_and_derivatives, {'scaled': False, 'hessian': True, 'bhhh': True})):
                    cases += 1
                    try:
                        fn([0.1] * n, **kw)
                        bad(f'{fn.__name__}: wrong length refused', {'length': n}, 'ValueError', 'returned')
                    except ValueError:
                        pass
                    except Exception as e:    # noqa: BLE001
                        bad(f'{fn.__name__}: wrong length refused', {'length': n}, 'ValueError', repr(e))
            for fn, kw in ((bio.calculate_likelihood, {'scaled': False}),
                           (bio.calculate_likelihood_and_derivatives, {'scaled': False})):
                cases += 1
                try:
                    fn(pt, batch=0.5, **kw)
                    bad(f'{fn.__name__}: batch refused', {}, 'BiogemeError', 'returned')
                except BiogemeError:
                    pass
                except Exception as e:    # noqa: BLE001
                    bad(f'{fn.__name__}: batch refused', {}, 'BiogemeError', repr(e))

        # panel data: the scaled value divides by the number of individuals; then one row gets a new individual id AFTER the object
        # was built: the map individual -> rows is rebuilt by every evaluation, so the sample size follows the data held NOW
        frame = pd.DataFrame({'id': [1, 1, 2, 2, 3, 3], 'x': [1.0, 2.0, 0.5, 1.5, 2.5, 0.2], 'y': [0.5, 0.1, 0.2, 0.4, 0.3, 0.6]})
        pdb = Database('p', frame.iloc[:4].copy())
        pdb.panel('id')
        bp = Beta('bp', 0.2, None, None, 0)
        obs = exp(-(bp * Variable('x') - Variable('y')) ** 2)
        pform = log(PanelLikelihoodTrajectory(obs))
        pbio = BIOGEME(pdb, pform, parameters=Parameters())
        pbio.modelName = 'm1panel'
        for scaled in (False, True):
            cases += 1
            try:
                u = pbio.calculate_likelihood([0.2], scaled=False)
                s = pbio.calculate_likelihood([0.2], scaled=scaled)
                n_ind = pdb.get_sample_size()
                if n_ind != 2 or not abs(s - (u / 2 if scaled else u)) <= 1e-9:
                    bad('panel: scaled value = value / number of individuals', {'scaled': scaled}, [2, u / 2 if scaled else u], [n_ind, s])
            except Exception as e:    # noqa: BLE001
                bad('panel: returns', {'scaled': scaled}, 'a value', repr(e))
        # a different panel column content: one individual split in two (same rows, same engine data): the map must follow
        for name, call in (('calculate_likelihood', lambda: pbio.calculate_likelihood([0.2], scaled=True)),
                           ('calculate_likelihood_and_derivatives',
                            lambda: pbio.calculate_likelihood_and_derivatives([0.2], scaled=True, hessian=False, bhhh=False).function)):
            cases += 1
            pdb.data.loc[1, 'id'] = 7
            pdb.individualMap = pdb.individualMap.iloc[:2]        # what a stale map would look like
            try:
                call()
                n_now = pdb.get_sample_size()
                if n_now != 3:
                    bad(f'panel: {name} rebuilds the individual map from the current data', {'ids': pdb.data['id'].tolist()}, 3, n_now)
            except Exception as e:    # noqa: BLE001
                bad(f'panel: {name} returns', {}, 'a value', repr(e))
    except Exception as e:    # noqa: BLE001
        bad('harness', {}, 'runs', repr(e))
    finally:
        os.chdir(cwd)
        shutil.rmtree(work, ignore_errors=True)
    print(json.dumps({'cases': cases, 'failures': fails}, default=str))
    return 1 if fails else 0


if __name__ == '__main__':
    sys.exit(main())
