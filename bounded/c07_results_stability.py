"""C07 bounded stand-in: the matrices stored in estimation results are those of the estimation data at the estimates, and stay so.

A. estimate(run_bootstrap=True) with an algorithm that uses the analytical Hessian: results.data.H / bhhh equal the matrices
   recomputed by a FRESH BIOGEME object at the estimates (not those of a bootstrap sample or of the last iterate).
B. estimate(), then further evaluations on the same object at other points (as a user comparing points does): the results object
   returned earlier still holds the same matrices.
Prints one JSON line {"cases": n, "failures": [...]}; exit 0/1.   Bound: 2 models x 2 algorithms, 150 observations.
"""
import json
import logging
import os
import sys
import tempfile
import warnings

import numpy as np
import pandas as pd


def main():
    warnings.simplefilter('ignore')
    scratch = tempfile.mkdtemp(prefix='c07_stab_')
    os.chdir(scratch)
    import atexit
    import shutil
    atexit.register(lambda: (os.chdir('/'), shutil.rmtree(scratch, ignore_errors=True)))
    logging.getLogger('biogeme').setLevel(logging.ERROR)
    import biogeme.database as db
    from biogeme import models
    from biogeme.biogeme import BIOGEME
    from biogeme.expressions import Beta, Variable
    from biogeme.parameters import Parameters
    rng = np.random.default_rng(20240)
    n_obs = 150
    df = pd.DataFrame({'x1': rng.normal(size=n_obs), 'x2': rng.normal(size=n_obs)})
    u = np.c_[0.9 * df.x1 + rng.gumbel(size=n_obs), -0.6 * df.x2 + rng.gumbel(size=n_obs), rng.gumbel(size=n_obs)]
    df['ch'] = np.argmax(u, axis=1) + 1
    fails, n = [], 0

    def build(algo, boot=0):
        d = db.Database('c07stab', df.copy())
        b1, b2 = Beta('b1', 0, None, None, 0), Beta('b2', 0, None, None, 0)
        v = {1: b1 * Variable('x1'), 2: b2 * Variable('x2'), 3: 0}
        p = Parameters()
        p.set_value('optimization_algorithm', algo, section='Estimation')
        p.set_value('save_iterations', False, section='Estimation')
        if boot:
            p.set_value('bootstrap_samples', boot, section='Estimation')
        bg = BIOGEME(d, models.loglogit(v, None, Variable('ch')), parameters=p)
        bg.modelName = 'c07stab'
        bg.generate_html = bg.generate_pickle = False
        return bg

    def fresh_matrices(algo, x):
        out = build(algo).calculate_likelihood_and_derivatives(list(x), scaled=False, hessian=True, bhhh=True)
        return np.array(out.hessian, dtype=float), np.array(out.bhhh, dtype=float)

    def close(a, b):
        return a is not None and np.allclose(np.asarray(a, dtype=float), b, rtol=1e-6, atol=1e-7)

    for algo in ('simple_bounds', 'TR-newton'):
        # A: bootstrap between the final evaluation and the packaging
        n += 1
        try:
            bg = build(algo, boot=5)
            res = bg.estimate(run_bootstrap=True)
            xs = [float(v) for v in res.data.betaValues]
            h, bh = fresh_matrices(algo, xs)
            if not close(res.data.H, h) or not close(res.data.bhhh, bh):
                fails.append({'check': 'after bootstrap: stored Hessian / BHHH are those of the estimation data at the estimates', 'algorithm': algo,
                              'expected_H_diag': np.diag(h).tolist(), 'got_H_diag': None if res.data.H is None else np.diag(res.data.H).tolist()})
        except Exception as e:
            fails.append({'check': 'after bootstrap: stored Hessian / BHHH are those of the estimation data at the estimates', 'algorithm': algo,
                          'got': f'{type(e).__name__}: {str(e)[:200]}'})
        # B: later evaluations on the same object
        n += 1
        try:
            bg = build(algo)
            res = bg.estimate()
            h0 = None if res.data.H is None else np.array(res.data.H, dtype=float).copy()
            b0 = None if res.data.bhhh is None else np.array(res.data.bhhh, dtype=float).copy()
            bg.calculate_likelihood_and_derivatives([0.3, -0.2], scaled=False, hessian=True, bhhh=True)
            bg.calculate_likelihood_and_derivatives([-1.0, 1.5], scaled=True, hessian=True, bhhh=True)
            same = (h0 is None or np.array_equal(np.asarray(res.data.H, dtype=float), h0)) and \
                   (b0 is None or np.array_equal(np.asarray(res.data.bhhh, dtype=float), b0))
            if not same:
                fails.append({'check': 'a results object is not changed by later evaluations of the same BIOGEME object', 'algorithm': algo,
                              'H_before': None if h0 is None else np.diag(h0).tolist(), 'H_after': np.diag(res.data.H).tolist()})
        except Exception as e:
            fails.append({'check': 'a results object is not changed by later evaluations of the same BIOGEME object', 'algorithm': algo,
                          'got': f'{type(e).__name__}: {str(e)[:200]}'})
    # C: the outcome of the optimisation REPORTED with the estimates (convergence flag, termination message) is the one of the run on
    #    the estimation data, whatever the bootstrap re-estimations did afterwards: a run stopped by its iteration limit far from the
    #    optimum reports no convergence with or without bootstrapping
    for algo in ('simple_bounds',):
        n += 1
        try:
            def run(boot, start, limit):
                np.random.seed(1)
                d = db.Database('c07stab', df.copy())
                b1, b2 = Beta('b1', start[0], None, None, 0), Beta('b2', start[1], None, None, 0)       # far starting point
                v = {1: b1 * Variable('x1'), 2: b2 * Variable('x2'), 3: 0}
                p = Parameters()
                p.set_value('optimization_algorithm', algo, section='Estimation')
                p.set_value('save_iterations', False, section='Estimation')
                p.set_value('max_iterations', limit, section='SimpleBounds')
                if boot:
                    p.set_value('bootstrap_samples', boot, section='Estimation')
                bg = BIOGEME(d, models.loglogit(v, None, Variable('ch')), parameters=p)
                bg.modelName = 'c07stab'
                bg.generate_html = bg.generate_pickle = False
                res = bg.estimate(run_bootstrap=bool(boot))
                g = np.array(bg.calculate_likelihood_and_derivatives([float(x) for x in res.data.betaValues], scaled=False).gradient, dtype=float)
                return bool(res.data.convergence), float(np.max(np.abs(g)))
            # iteration limits around the number of iterations the run needs: the run on the estimation data stops early while
            # re-estimations started from its last iterate may converge
            for start, limit in (((8.0, -9.0), 5), ((4.0, -4.0), 3), ((4.0, -4.0), 4), ((8.0, -9.0), 6)):
                plain, with_boot = run(0, start, limit), run(5, start, limit)
                if plain[0] != with_boot[0] or (with_boot[0] and with_boot[1] > 1.0):
                    fails.append({'check': 'reported convergence is that of the run on the estimation data (bootstrap re-estimations do not overwrite it)',
                                  'algorithm': algo, 'start': list(start), 'max_iterations': limit,
                                  'without_bootstrap': {'convergence': plain[0], 'max_abs_gradient': plain[1]},
                                  'with_bootstrap': {'convergence': with_boot[0], 'max_abs_gradient': with_boot[1]}})
        except Exception as e:
            fails.append({'check': 'reported convergence is that of the run on the estimation data (bootstrap re-estimations do not overwrite it)',
                          'algorithm': algo, 'got': f'{type(e).__name__}: {str(e)[:200]}'})
    print(json.dumps({'cases': n, 'failures': fails}))
    return 1 if fails else 0


if __name__ == '__main__':
    sys.exit(main())
