"""C18 bounded stand-ins: construction of MDCEV models (real code, /venv python) for every
variant x configuration x labelling, and reference formulas in plain Python (math module).

Configuration = (outside good yes/no, prices yes/no [gamma_profile, generalized only], scale yes/no).
Labellings: {1..n}, {3,7,10}, {5,0,2} (n = 3); the outside good, when there is one, is the SECOND
label of the listing (2, 7, 0), so that its label differs from its position in index_to_key.
"""
import ast
import itertools
import math
import os
import sys

import numpy as np
import pandas as pd

sys.path.insert(0, os.path.dirname(os.path.dirname(os.path.abspath(__file__))))
from specs import c18_diff as D          # pure-python: reference utilities and the differentiator

VARIANTS = ['gamma_profile', 'translated', 'generalized', 'non_monotonic']
HAS_PRICES = {'gamma_profile': True, 'translated': False, 'generalized': True, 'non_monotonic': False}
LABELLINGS = [[1, 2, 3], [3, 7, 10], [5, 0, 2]]
ROW = {'z': 0.7, 'w': -1.2}


def one_row():
    from biogeme.database import Database
    return Database('c18_row', pd.DataFrame([ROW]))


class Spec:
    """Numeric description of one model (position-wise, independent of the labels)."""

    def __init__(self, variant, labels, outside, prices, scale, rng=None):
        self.variant, self.labels, self.outside, self.prices, self.scale = variant, list(labels), outside, prices, scale
        n = len(labels)
        rng = rng or np.random.default_rng(7)
        self.V = [float(v) for v in rng.uniform(-0.8, 0.8, size=n)]
        self.gamma = [float(v) for v in rng.uniform(0.5, 3.0, size=n)]
        self.alpha = [float(v) for v in rng.uniform(0.25, 0.75, size=n)]
        self.mu = [float(v) for v in rng.uniform(-0.6, -0.1, size=n)]
        self.price = [float(v) for v in rng.uniform(0.6, 2.0, size=n)] if prices else [1.0] * n
        self.s = float(rng.uniform(0.7, 2.5)) if scale else None
        self.outside_pos = 1 if outside else None

    @property
    def outside_label(self):
        return None if self.outside_pos is None else self.labels[self.outside_pos]

    def describe(self):
        return {'variant': self.variant, 'labels': self.labels, 'outside_good': self.outside_label,
                'prices': self.prices, 'scale': self.scale}

    def relabel(self, labels):
        """same economic model under other labels (position-wise identical parameters)."""
        other = Spec(self.variant, labels, self.outside, self.prices, self.scale)
        for f in ('V', 'gamma', 'alpha', 'mu', 'price', 's', 'outside_pos'):
            setattr(other, f, getattr(self, f))
        return other

    # -- the real model ---------------------------------------------------------------------
    def build(self):
        from biogeme.expressions import Beta, Numeric, Variable
        from biogeme.mdcev import GammaProfile, Generalized, NonMonotonic, Translated
        n = len(self.labels)
        base, gam, alp, pri, mus = {}, {}, {}, {}, {}
        for i, lab in enumerate(self.labels):
            # V_i = c_i + b_i * z with b_i * z + c_i == self.V[i] on the row (exercises the engine evaluation)
            b = 0.3 * (i + 1)
            base[lab] = Beta(f'c_{i}', self.V[i] - b * ROW['z'], None, None, 0) + Numeric(b) * Variable('z')
            gam[lab] = None if i == self.outside_pos else Beta(f'gamma_{i}', self.gamma[i], 0.001, None, 0)
            alp[lab] = Beta(f'alpha_{i}', self.alpha[i], 0, 1, 0)
            pri[lab] = Numeric(self.price[i])
            mus[lab] = Beta(f'm_{i}', self.mu[i] - 0.1 * ROW['w'], None, None, 0) + Numeric(0.1) * Variable('w')
        scale = None if self.s is None else Beta('scale', self.s, 0.0001, None, 0)
        kw = dict(model_name=f'c18_{self.variant}', baseline_utilities=base, gamma_parameters=gam, scale_parameter=scale)
        if self.variant == 'gamma_profile':
            return GammaProfile(prices=pri if self.prices else None, **kw)
        if self.variant == 'translated':
            return Translated(alpha_parameters=alp, **kw)
        if self.variant == 'generalized':
            return Generalized(alpha_parameters=alp, prices=pri if self.prices else None, **kw)
        return NonMonotonic(alpha_parameters=alp, mu_utilities=mus, **kw)

    # -- reference formulas (specs/c18_diff.UTILITIES evaluated with the math module) ------------
    def env(self, pos, x, eps):
        return {'x': x, 'V': self.V[pos], 'e': eps if self.s is None else eps / self.s, 'p': self.price[pos],
                'g': self.gamma[pos], 'a': self.alpha[pos], 'mu': self.mu[pos], 'exp': math.exp, 'log': math.log}

    def _formula(self, pos, derivative=False):
        u_out, u_in = D.UTILITIES[self.variant]
        src = u_out if pos == self.outside_pos else u_in
        return D.d(src) if derivative else src

    def ref_utility(self, pos, x, eps):
        return eval(self._formula(pos), {'__builtins__': {}}, self.env(pos, x, eps))

    def ref_derivative(self, pos, x, eps):
        return eval(self._formula(pos, True), {'__builtins__': {}}, self.env(pos, x, eps))


def configurations(variant):
    for outside, prices, scale in itertools.product([False, True], [False, True] if HAS_PRICES[variant] else [False], [False, True]):
        yield outside, prices, scale


def all_specs(variants=None, labellings=None, seed=0):
    rng = np.random.default_rng(1000 + seed)
    for variant in (variants or VARIANTS):
        for outside, prices, scale in configurations(variant):
            base = Spec(variant, LABELLINGS[0], outside, prices, scale, rng)
            for labels in (labellings or LABELLINGS):
                yield base.relabel(labels)


def close(a, b, rtol=1e-9, atol=1e-12):
    a, b = float(a), float(b)
    if a == b:
        return True
    if not (math.isfinite(a) and math.isfinite(b)):
        return False
    return abs(a - b) <= atol + rtol * max(abs(a), abs(b))
