"""C15 bounded stand-in: the saved-iteration file `__<modelName>.iter` of BIOGEME as a restart point.

Property C15: while iterations are being saved, the iteration file, whenever it exists, holds one complete
line per free parameter with exactly (bit-for-bit after re-reading) the values of a point at which the
likelihood was evaluated, and that point is the best one evaluated so far on the estimation data among those
with finite derivatives, so a restart never begins below the original start.  A later estimation of the same
model starts from the saved values.  A process stopped at any moment, including in the middle of saving,
leaves either no file or such a complete file, from which the restart succeeds.

Parts
  A  histories : the real calculate_likelihood_and_derivatives(x, scaled=False) is driven with chosen sequences of
                 points (all orderings of 3 and 4 points with distinct likelihood values, sequences with repeated
                 and with non-finite points; thorough: longer random sequences); after EVERY call the file is
                 parsed by this script (own parser) and compared with the history; then a fresh BIOGEME of the
                 same model name in the same directory must load / start its estimation from the saved values.
  A' optimiser : estimate() with several algorithms; the file is checked after every evaluation the optimiser
                 issues (the evaluations are observed through a wrapper around the bound method).
  C  bootstrap : estimate(run_bootstrap=True): evaluations on resampled data must not replace the best point
                 on the estimation data.
  D  names     : parameter names containing '=' or surrounding/inner blanks must read back (fresh process each).
  B  crashes   : a child process is killed (os._exit) at the k-th write event while the file is being rewritten
                 with a better point, for every k (after open/truncate; before each write with the buffer lost;
                 in the middle of each write with what was written so far on disk; before/after os.replace or
                 os.rename if the code uses one).  The parent checks: no file, or a complete file holding one of
                 the evaluated points, and `_load_saved_iteration()` + `estimate()` of a fresh BIOGEME succeed.

Oracle: binary logit LL(b) = sum_n [V_n,c - log(exp V_n1 + exp V_n2)] in numpy for the ordering of the points;
bit patterns compared with struct.pack('<d').  The file name is computed here as '__' + model name + '.iter'.

usage: c15_iterations.py <quick|thorough> <seed>
       c15_iterations.py --child '<json>'     (internal: crash child / names child)
"""
import itertools
import json
import logging
import math
import os
import re
import shutil
import struct
import subprocess
import sys
import tempfile
import time
import warnings

for _v in ('OMP_NUM_THREADS', 'OPENBLAS_NUM_THREADS', 'MKL_NUM_THREADS'):
    os.environ.setdefault(_v, '1')

import numpy as np
import pandas as pd

warnings.simplefilter('ignore')
MAX_FAIL = int(os.environ.get('C15_MAX_FAIL', '10'))      # witnesses printed (debugging: raise it)
PER_CLAUSE = 2 if MAX_FAIL <= 10 else MAX_FAIL
FIXED_VALUE = 0.5


def bits(v):
    return struct.pack('<d', float(v))


def same_point(a, b):
    return len(a) == len(b) and all(bits(x) == bits(y) for x, y in zip(a, b))


# ------------------------------------------------------------------------------------------------
# model + oracle
# ------------------------------------------------------------------------------------------------
def make_data(seed, K):
    rng = np.random.default_rng([seed, 1515, K])
    n = int(rng.integers(10, 21))
    cols = {'choice': rng.integers(1, 3, size=n)}
    for k in range(1, K):
        cols[f'x{k}_1'] = np.round(rng.normal(size=n), 3)
        cols[f'x{k}_2'] = np.round(rng.normal(size=n), 3)
    cols['z'] = np.round(rng.normal(size=n), 3)
    cols['choice'][0], cols['choice'][1] = 1, 2
    return cols


def oracle_ll(cols, K, x):
    """x in the order [asc, b1, (b2)]"""
    if callable(cols):
        return cols(x)
    x = [float(v) for v in x]
    if not all(math.isfinite(v) for v in x):
        return float('nan')
    if any(abs(v) >= 1e150 for v in x):
        return float('-inf')          # exp overflows in any evaluator: never better than a regular point
    v1 = x[0] + FIXED_VALUE * cols['z']
    v2 = np.zeros(len(cols['z']))
    for k in range(1, K):
        v1 = v1 + x[k] * cols[f'x{k}_1']
        v2 = v2 + x[k] * cols[f'x{k}_2']
    m = np.maximum(v1, v2)
    lse = m + np.log(np.exp(v1 - m) + np.exp(v2 - m))
    chosen = np.where(cols['choice'] == 1, v1, v2)
    return float(math.fsum(chosen - lse))


def build(cols, K, names, model_name, init=None, algo=None, bootstrap=None):
    """a fresh BIOGEME with save_iterations on.  names[i] is the name of oracle parameter i."""
    import biogeme.biogeme as bio
    import biogeme.database as db
    from biogeme import models
    from biogeme.expressions import Beta, Variable
    from biogeme.parameters import Parameters

    init = [0.0] * K if init is None else init
    betas = [Beta(names[i], float(init[i]), None, None, 0) for i in range(K)]
    fixed = Beta('b_fixed', FIXED_VALUE, None, None, 1)
    v1 = betas[0] + fixed * Variable('z')
    v2 = None
    for k in range(1, K):
        v1 = v1 + betas[k] * Variable(f'x{k}_1')
        t = betas[k] * Variable(f'x{k}_2')
        v2 = t if v2 is None else v2 + t
    if v2 is None:
        from biogeme.expressions import Numeric
        v2 = Numeric(0)
    ll = models.loglogit({1: v1, 2: v2}, None, Variable('choice'))
    p = Parameters()
    p.set_value('save_iterations', True, section='Estimation')
    p.set_value('generate_html', False, section='Output')
    p.set_value('generate_pickle', False, section='Output')
    p.set_value('number_of_threads', 1, section='MultiThreading')
    if algo is not None:
        p.set_value('optimization_algorithm', algo, section='Estimation')
    if bootstrap is not None:
        p.set_value('bootstrap_samples', int(bootstrap), section='Estimation')
    b = bio.BIOGEME(db.Database('c15', pd.DataFrame(cols)), ll, parameters=p)
    b.modelName = model_name
    return b, betas


def iter_file(model_name):
    return '__' + model_name + '.iter'


def to_oracle_order(b, names, x_biogeme):
    order = list(b.free_beta_names)
    out = [None] * len(names)
    for pos, nm in enumerate(order):
        out[names.index(nm)] = x_biogeme[pos]
    return out


def to_biogeme_order(b, names, x_oracle):
    return [x_oracle[names.index(nm)] for nm in b.free_beta_names]


# ------------------------------------------------------------------------------------------------
# own parser of the iteration file
# ------------------------------------------------------------------------------------------------
def parse_file(path, names):
    """-> ('absent', None) | ('bad', reason) | ('ok', values in the order of `names`)"""
    if not os.path.exists(path):
        return 'absent', None
    with open(path, encoding='utf-8', newline='') as fp:
        text = fp.read()
    if text == '':
        return 'bad', 'file exists but is empty'
    if not text.endswith('\n'):
        return 'bad', f'last line not terminated: {text[-40:]!r}'
    lines = text[:-1].split('\n')
    if len(lines) != len(names):
        return 'bad', f'{len(lines)} line(s) for {len(names)} free parameters: {text[:80]!r}'
    got = {}
    for line in lines:
        cand = [nm for nm in names if line.startswith(nm)]
        found = None
        for nm in sorted(cand, key=len, reverse=True):
            m = re.fullmatch(r'\s*=\s*(\S+)\s*', line[len(nm):])
            if m:
                found = (nm, m.group(1))
                break
        if found is None:
            return 'bad', f'line is not "<free parameter name> = <value>": {line!r}'
        if found[0] in got:
            return 'bad', f'parameter {found[0]!r} appears twice'
        try:
            got[found[0]] = float(found[1])
        except ValueError:
            return 'bad', f'value not a float: {line!r}'
    return 'ok', [got[nm] for nm in names]


# ------------------------------------------------------------------------------------------------
# bookkeeping
# ------------------------------------------------------------------------------------------------
def sanitize(o):
    """strict JSON: non-finite floats become strings"""
    if isinstance(o, float) and not math.isfinite(o):
        return repr(o)
    if isinstance(o, (np.floating, np.integer)):
        return sanitize(o.item())
    if isinstance(o, dict):
        return {str(k): sanitize(v) for k, v in o.items()}
    if isinstance(o, (list, tuple)):
        return [sanitize(v) for v in o]
    return o


class Recorder:
    def __init__(self):
        self.failures, self.nfail, self.cases = [], 0, 0
        self.by_clause = {}

    def fail(self, clause, case, expected, got):
        self.nfail += 1
        self.by_clause[clause] = self.by_clause.get(clause, 0) + 1
        # keep at most 2 witnesses per clause so that every failing clause is visible in the 10 reported
        if len(self.failures) < MAX_FAIL and sum(1 for f in self.failures if f['clause'] == clause) < PER_CLAUSE:
            self.failures.append({'clause': clause, 'case': case, 'expected': expected, 'got': got})


def check_file_against_history(rec, case, path, names, history, cols, K, step):
    """history: list of (x in oracle order, finite_gradient: bool).  Returns the parsed values or None."""
    cands = [x for x, fin in history if fin]
    status, val = parse_file(path, names)
    c = dict(case, step=step)
    if not cands:
        if status != 'absent':
            rec.fail('A.no-finite-evaluation=>no-file', c, 'absent', [status, val])
        return None
    if status == 'absent':
        # a point of value -inf (exp overflow) with a finite derivative need not be kept as a restart point
        if any(math.isfinite(oracle_ll(cols, K, x)) for x in cands):
            rec.fail('A.file-exists-after-finite-evaluation', c, 'a file', 'absent')
        return None
    if status == 'bad':
        rec.fail('A.one-complete-line-per-free-parameter', c, f'{K} lines "name = value"', val)
        return None
    if not any(same_point(val, x) for x in cands):
        rec.fail('A.values-bit-identical-to-an-evaluated-point', c, [list(map(float, x)) for x in cands][-4:], val)
        return val
    lls = [oracle_ll(cols, K, x) for x in cands]
    best = max(lls)
    got = oracle_ll(cols, K, val)
    if not (got >= best - 1e-9 * max(1.0, abs(best))):
        bx = cands[lls.index(best)]
        rec.fail('A.file-point-is-best-evaluated-so-far', c,
                 {'point': [float(v) for v in bx], 'loglike': best}, {'point': val, 'loglike': got})
    return val


# ------------------------------------------------------------------------------------------------
# part A: histories
# ------------------------------------------------------------------------------------------------
def ugly_points(rng, cols, K, npts):
    """points with pairwise clearly distinct likelihood values and awkward binary expansions"""
    specials = [0.1 + 0.2, -0.0, 1e-310, 1.0 / 3.0, -2.0 / 7.0, 123456.789e-5, 5e-324, 0.30000000000000004]
    pts, lls = [], []
    while len(pts) < npts:
        x = [float(v) for v in rng.normal(size=K) * rng.choice([0.3, 1.0, 2.5])]
        if rng.random() < 0.5:
            x[int(rng.integers(0, K))] = float(rng.choice(specials))
        ll = oracle_ll(cols, K, x)
        if all(abs(ll - o) > 0.05 for o in lls):
            pts.append(x)
            lls.append(ll)
    return pts


NONFINITE = [[float('nan'), 0.0, 0.0], [float('inf'), 0.25, 0.0], [1e308, 1e308, 1e308]]


def run_history(rec, workdir, cols, K, names, model_name, seq, tag, restart_algo='simple_bounds'):
    for f in os.listdir(workdir):
        os.remove(os.path.join(workdir, f))
    path = os.path.join(workdir, iter_file(model_name))
    case = {'part': 'A', 'tag': tag, 'K': K, 'names': names, 'model': model_name,
            'sequence': [[float(v) for v in x] for x in seq],
            'loglikes': [oracle_ll(cols, K, x) for x in seq]}
    rec.cases += 1
    b, _ = build(cols, K, names, model_name)
    history = []
    if os.path.exists(path):
        rec.fail('A.no-file-before-first-evaluation', case, 'absent', 'present')
    for step, x in enumerate(seq):
        xb = np.array(to_biogeme_order(b, names, x), dtype=float)
        try:
            out = b.calculate_likelihood_and_derivatives(xb, scaled=False, hessian=False, bhhh=False)
        except Exception as e:  # noqa: BLE001
            rec.fail('harness.exception', dict(case, step=step), 'no exception', f'{type(e).__name__}: {e}')
            return
        fin = bool(np.isfinite(np.linalg.norm(out.gradient)))
        if fin and math.isfinite(oracle_ll(cols, K, x)) and \
                not abs(out.function - oracle_ll(cols, K, x)) <= 1e-8 * max(1.0, abs(out.function)):
            rec.fail('harness.oracle-likelihood', dict(case, step=step), oracle_ll(cols, K, x), out.function)
        history.append((list(x), fin))
        check_file_against_history(rec, case, path, names, history, cols, K, step)
    # restart
    status, val = parse_file(path, names)
    if status != 'ok':
        return
    first_finite = next((x for x, fin in history if fin), None)
    b2, betas2 = build(cols, K, names, model_name, init=[0.77] * K)
    try:
        b2._load_saved_iteration()
    except Exception as e:  # noqa: BLE001
        rec.fail('A.restart-loads-saved-values', case, val, f'{type(e).__name__}: {e}')
        return
    loaded = to_oracle_order(b2, names, list(b2.id_manager.free_betas_values))
    if not same_point(loaded, val):
        rec.fail('A.restart-loads-saved-values', case, val, [float(v) for v in loaded])
    if not same_point([o.initValue for o in betas2], val):
        rec.fail('A.restart-loads-saved-values(formulas)', case, val, [float(o.initValue) for o in betas2])
    # a later estimation of the same model starts from the saved values
    b3, _ = build(cols, K, names, model_name, init=[0.77] * K, algo=restart_algo)
    seen = observe(b3)
    try:
        r = b3.estimate()
    except Exception as e:  # noqa: BLE001
        rec.fail('A.estimate-starts-from-saved-values', case, 'estimation from ' + str(val), f'{type(e).__name__}: {e}')
        return
    start = to_oracle_order(b3, names, list(seen[0])) if seen else None
    if start is None or not same_point(start, val):
        rec.fail('A.estimate-starts-from-saved-values', case, val, None if start is None else [float(v) for v in start])
    want = oracle_ll(cols, K, val)
    if not abs(r.data.initLogLike - want) <= 1e-8 * max(1.0, abs(want)):
        rec.fail('A.estimate-initial-loglike-is-that-of-saved-values', case, want, r.data.initLogLike)
    if first_finite is not None and not r.data.initLogLike >= oracle_ll(cols, K, first_finite) - 1e-8:
        rec.fail('A.restart-not-below-original-start', case, f'>= {oracle_ll(cols, K, first_finite)}', r.data.initLogLike)


def observe(b, after=None):
    """record every point given to calculate_likelihood_and_derivatives of this object"""
    seen = []
    orig = b.calculate_likelihood_and_derivatives

    def wrapper(x, *args, **kwargs):
        out = orig(x, *args, **kwargs)
        seen.append([float(v) for v in x])
        if after is not None:
            after(seen, out)
        return out

    b.calculate_likelihood_and_derivatives = wrapper
    return seen


def part_a(rec, tier, seed, workdir):
    rng = np.random.default_rng([seed, 15])
    settings = [(2, ['asc', 'b1'], 'c15m')] if tier == 'quick' else \
        [(2, ['asc', 'b1'], 'c15m'), (3, ['asc', 'b1', 'b2'], 'c15 model.v2'), (2, ['B_TIME', 'ASC_CAR'], 'm'),
         (3, ['c', 'a', 'b'], 'c15m'), (1, ['only'], 'c15_one')]
    nseq = 0
    for si, (K, names, model_name) in enumerate(settings):
        cols = make_data(seed + si, K)
        pts = ugly_points(rng, cols, K, 4)
        seqs = []
        for r in (3, 4):
            for sub in itertools.combinations(range(4), r):
                for perm in itertools.permutations(sub):
                    seqs.append(('perm', [pts[i] for i in perm]))
        order = sorted(range(4), key=lambda i: oracle_ll(cols, K, pts[i]))
        lo, mid, hi, top = [pts[i] for i in order]
        nf = [p[:K] for p in NONFINITE]
        seqs += [('repeat', [mid, hi, mid, hi, lo, hi]), ('repeat', [hi, hi, lo]), ('single', [mid]),
                 ('nonfinite-first', [nf[0], lo, hi, mid]), ('nonfinite-middle', [lo, hi, nf[1], mid]),
                 ('nonfinite-last', [lo, top, nf[2 if K > 0 else 0]]), ('nonfinite-only', [nf[0], nf[1]]),
                 ('nonfinite-between-improvements', [lo, nf[0], mid, nf[1], hi, nf[2], top])]
        if tier == 'thorough':
            pool = ugly_points(rng, cols, K, 8) + nf
            for _ in range(40):
                ln = int(rng.integers(5, 13))
                seqs.append(('random', [pool[int(i)] for i in rng.integers(0, len(pool), size=ln)]))
        algos = ['simple_bounds', 'scipy', 'TR-BFGS', 'LS-newton']
        for qi, (tag, seq) in enumerate(seqs):
            run_history(rec, workdir, cols, K, names, model_name, seq, tag, restart_algo=algos[qi % len(algos)])
            nseq += 1
    return nseq


# ------------------------------------------------------------------------------------------------
# part A": a point with a finite value (the best one) but a non-finite derivative
# ------------------------------------------------------------------------------------------------
def part_infinite_gradient(rec, workdir):
    """log likelihood -(b**0.5) - (c-1)**2 per row, 3 rows: at b = 0 the value is finite (and maximal) and
    d/db = -inf.  Oracle: f = -3 (sqrt(b) + (c-1)^2); derivative finite iff b > 0."""
    import biogeme.biogeme as bio
    import biogeme.database as db
    from biogeme.expressions import Beta, Variable
    from biogeme.parameters import Parameters

    names = ['b', 'c']
    oracle = lambda x: -3.0 * (math.sqrt(float(x[0])) + (float(x[1]) - 1.0) ** 2)  # noqa: E731
    seqs = [[[1.0, 1.0], [0.0, 1.0], [0.25, 1.0]], [[0.0, 1.0], [4.0, 1.0], [1.0, 0.5]], [[0.25, 1.0], [0.0, 1.0]],
            [[2.0, 1.0], [0.0, 0.75], [3.0, 1.0], [0.0, 1.0], [1.0, 1.0]]]
    path = os.path.join(workdir, iter_file('c15inf'))
    for seq in seqs:
        for f in os.listdir(workdir):
            os.remove(os.path.join(workdir, f))
        rec.cases += 1
        case = {'part': 'A"', 'model': '-(b**0.5) - (c-1)**2, 3 rows', 'names': names, 'sequence': seq,
                'loglikes': [oracle(x) for x in seq]}
        b_, c_ = Beta('b', 1.0, None, None, 0), Beta('c', 1.0, None, None, 0)
        p = Parameters()
        p.set_value('save_iterations', True, section='Estimation')
        p.set_value('number_of_threads', 1, section='MultiThreading')
        b = bio.BIOGEME(db.Database('c15inf', pd.DataFrame({'x': [1.0, 2.0, 3.0]})),
                        -(b_ ** 0.5) - (c_ - 1) * (c_ - 1) + 0 * Variable('x'), parameters=p)
        b.modelName = 'c15inf'
        history = []
        for step, x in enumerate(seq):
            try:
                out = b.calculate_likelihood_and_derivatives(np.array(to_biogeme_order(b, names, x)), scaled=False,
                                                             hessian=False, bhhh=False)
            except Exception as e:  # noqa: BLE001
                rec.fail('harness.exception', dict(case, step=step), 'no exception', f'{type(e).__name__}: {e}')
                break
            fin = x[0] > 0
            if bool(np.all(np.isfinite(out.gradient))) != fin or not abs(out.function - oracle(x)) <= 1e-9:
                rec.fail('harness.oracle-likelihood', dict(case, step=step), [oracle(x), fin],
                         [out.function, np.asarray(out.gradient).tolist()])
            history.append((list(x), fin))
            check_file_against_history(rec, case, path, names, history, oracle, 2, step)
    return len(seqs)


# ------------------------------------------------------------------------------------------------
# part A': the optimiser's own history ; part C: bootstrap
# ------------------------------------------------------------------------------------------------
def part_optimiser(rec, tier, seed, workdir):
    import biogeme.optimization as opt
    algos = list(opt.algorithms.keys())
    rng = np.random.default_rng([seed, 151])
    n = 0
    for rep in range(1 if tier == 'quick' else 4):
        K = 2 + rep % 2
        names = ['asc', 'b1', 'b2'][:K]
        cols = make_data(seed + 100 + rep, K)
        for algo in algos:
            for f in os.listdir(workdir):
                os.remove(os.path.join(workdir, f))
            init = [float(v) for v in np.round(rng.uniform(-3, 3, size=K), 2)]
            case = {'part': "A'", 'algo': algo, 'K': K, 'init': init, 'data_seed': seed + 100 + rep}
            rec.cases += 1
            n += 1
            b, _ = build(cols, K, names, 'c15opt', init=init, algo=algo)
            path = os.path.join(workdir, iter_file('c15opt'))
            state = {'reported': False, 'evals': 0}

            def after(seen, out, b=b, case=case, state=state):
                state['evals'] += 1
                if state['reported']:
                    return
                hist = [(to_oracle_order(b, names, x), True) for x in seen]
                before = rec.nfail
                check_file_against_history(rec, case, path, names, hist, cols, K, len(seen) - 1)
                state['reported'] = rec.nfail > before          # first violation of a run only

            observe(b, after)
            try:
                b.estimate()
            except Exception as e:  # noqa: BLE001
                rec.fail('harness.exception', case, 'no exception', f'{type(e).__name__}: {e}')
    return n


def part_bootstrap(rec, tier, seed, workdir):
    n = 0
    for rep in range(1 if tier == 'quick' else 3):
        K = 2
        names = ['asc', 'b1']
        cols = make_data(seed + 200 + rep, K)
        for f in os.listdir(workdir):
            os.remove(os.path.join(workdir, f))
        case = {'part': 'C', 'data_seed': seed + 200 + rep, 'bootstrap_samples': 4}
        rec.cases += 1
        n += 1
        b, _ = build(cols, K, names, 'c15boot', init=[0.0, 0.0], algo='simple_bounds', bootstrap=4)
        path = os.path.join(workdir, iter_file('c15boot'))
        phase = {'boot': False}
        orig_sample = b.database.sample_with_replacement

        def sample(*a, **k):
            phase['boot'] = True
            return orig_sample(*a, **k)

        b.database.sample_with_replacement = sample
        est_points = []

        def after(seen, out):
            if not phase['boot']:
                est_points.append(list(seen[-1]))

        observe(b, after)
        np.random.seed(seed + rep)
        try:
            b.estimate(run_bootstrap=True)
        except Exception as e:  # noqa: BLE001
            rec.fail('harness.exception', case, 'no exception', f'{type(e).__name__}: {e}')
            continue
        if not phase['boot']:
            rec.fail('harness.bootstrap-not-observed', case, 'sample_with_replacement called', 'never')
        hist = [(to_oracle_order(b, names, x), True) for x in est_points]
        status, val = parse_file(path, names)
        if status != 'ok':
            rec.fail('C.file-complete-after-bootstrap', case, 'complete file', [status, val])
            continue
        lls = [oracle_ll(cols, K, x) for x, _ in hist]
        got = oracle_ll(cols, K, val)
        if not any(same_point(val, x) for x, _ in hist) or not got >= max(lls) - 1e-9 * max(1.0, abs(max(lls))):
            rec.fail('C.bootstrap-evaluations-do-not-replace-best-point-on-estimation-data', case,
                     {'point': hist[lls.index(max(lls))][0], 'loglike_on_estimation_data': max(lls)},
                     {'point': val, 'loglike_on_estimation_data': got})
            continue
        # history: after the bootstrap run, a later evaluation on the estimation data at a worse point (what
        # check_derivatives or a finite-difference Hessian does) must leave the saved point in place
        worse = [0.0, 0.0]
        if oracle_ll(cols, K, to_oracle_order(b, names, worse)) < max(lls) - 1e-6:
            try:
                b.calculate_likelihood_and_derivatives(worse, scaled=False, hessian=False, bhhh=False)
            except Exception as e:  # noqa: BLE001
                rec.fail('harness.exception', dict(case, step='later-worse-evaluation'), 'no exception', f'{type(e).__name__}: {e}')
                continue
            status2, val2 = parse_file(path, names)
            if status2 != 'ok' or not same_point(val2, val):
                rec.fail('C.worse-evaluation-after-bootstrap-does-not-replace-best-point', case,
                         {'point': val, 'loglike_on_estimation_data': got},
                         {'status': status2, 'point': val2,
                          'loglike_on_estimation_data': oracle_ll(cols, K, val2) if status2 == 'ok' else None})
    return n


# ------------------------------------------------------------------------------------------------
# children: names, crashes
# ------------------------------------------------------------------------------------------------
def child_names(spec):
    """evaluate one point, then reload in a fresh object; prints one JSON line"""
    logging.disable(logging.CRITICAL)
    os.chdir(spec['dir'])
    K, names = spec['K'], spec['names']
    cols = make_data(spec['seed'], K)
    out = {}
    b, _ = build(cols, K, names, 'c15names')
    x = spec['point']
    b.calculate_likelihood_and_derivatives(np.array(to_biogeme_order(b, names, x)), scaled=False, hessian=False, bhhh=False)
    out['file'] = open(iter_file('c15names'), encoding='utf-8', newline='').read()
    b2, betas2 = build(cols, K, names, 'c15names', init=[0.77] * K)
    try:
        b2._load_saved_iteration()
        out['loaded'] = to_oracle_order(b2, names, [float(v) for v in b2.id_manager.free_betas_values])
        out['formulas'] = [float(o.initValue) for o in betas2]
    except Exception as e:  # noqa: BLE001
        out['exception'] = f'{type(e).__name__}: {e}'
    print('RESULT ' + json.dumps(out))


def child_crash(spec):
    """evaluate A (saved completely), then B (better) with the process killed at write event `kill_at`"""
    import builtins
    import io
    logging.disable(logging.CRITICAL)
    os.chdir(spec['dir'])
    K, names = spec['K'], spec['names']
    cols = make_data(spec['seed'], K)
    b, _ = build(cols, K, names, spec['model'])
    ev = lambda x: b.calculate_likelihood_and_derivatives(  # noqa: E731
        np.array(to_biogeme_order(b, names, x)), scaled=False, hessian=False, bhhh=False)
    ev(spec['A'])
    counter = {'n': 0}
    kill_at, mode = spec['kill_at'], spec['mode']
    real_open = builtins.open

    def event(before_exit=None):
        if counter['n'] == kill_at:
            if before_exit is not None:
                before_exit()
            os._exit(9)
        counter['n'] += 1

    class Proxy:
        def __init__(self, fobj):
            self._f = fobj

        def write(self, s):
            if mode == 'lost':
                event()                                   # killed before this write, buffered data never flushed
            else:
                def partial():
                    self._f.write(s[: len(s) // 2])
                    self._f.flush()
                    os.fsync(self._f.fileno())
                event(partial)                            # killed in the middle of this write, the rest on disk
            return self._f.write(s)

        def __enter__(self):
            self._f.__enter__()
            return self

        def __exit__(self, *a):
            return self._f.__exit__(*a)

        def __getattr__(self, name):
            return getattr(self._f, name)

    def patched_open(file, mode_='r', *a, **k):
        f = real_open(file, mode_, *a, **k)
        if isinstance(mode_, str) and any(c in mode_ for c in 'wax+') and 'b' not in mode_ and isinstance(file, (str, os.PathLike)):
            event()                                       # killed just after open (and truncation)
            return Proxy(f)
        return f

    def patch_os(name):
        real = getattr(os, name)

        def fn(*a, **k):
            event()                                       # killed just before the rename
            r = real(*a, **k)
            event()                                       # killed just after the rename
            return r
        setattr(os, name, fn)

    builtins.open = patched_open
    io.open = patched_open
    for nm in ('replace', 'rename'):
        patch_os(nm)
    ev(spec['B'])
    builtins.open = real_open
    print('RESULT ' + json.dumps({'events': counter['n']}))
    sys.exit(0)


def run_children(specs, kind, parallel=4):
    """run children, `parallel` at a time; returns list of (returncode, result dict or None)"""
    out = [None] * len(specs)
    i = 0
    while i < len(specs):
        procs = []
        for j in range(i, min(i + parallel, len(specs))):
            procs.append((j, subprocess.Popen([sys.executable, os.path.abspath(__file__), '--child',
                                               json.dumps(dict(specs[j], kind=kind))],
                                              stdout=subprocess.PIPE, stderr=subprocess.DEVNULL, text=True)))
        for j, p in procs:
            so, _ = p.communicate(timeout=120)
            res = None
            for line in so.splitlines():
                if line.startswith('RESULT '):
                    res = json.loads(line[7:])
            out[j] = (p.returncode, res)
        i += parallel
    return out


def part_names(rec, tier, seed, workroot):
    weird = ['x=y', 'q=1', ' lead', 'trail ', 'mid dle', 'a = b']
    if tier == 'thorough':
        weird += ['tab\tname', '=', 'b1=', 'asc  ', 'b1 = 2.5']
    specs = []
    for i, nm in enumerate(weird):
        d = os.path.join(workroot, f'names{i}')
        os.makedirs(d)
        specs.append({'dir': d, 'K': 2, 'names': [nm, 'b1'], 'seed': seed, 'point': [0.3, 1.0 / 3.0]})
    results = run_children(specs, 'names')
    for spec, (rc, res) in zip(specs, results):
        rec.cases += 1
        case = {'part': 'D', 'names': spec['names'], 'point': spec['point']}
        if res is None:
            rec.fail('D.child-finished', case, 'result', f'exit code {rc}')
            continue
        path = os.path.join(spec['dir'], iter_file('c15names'))
        status, val = parse_file(path, spec['names'])
        if status != 'ok' or not same_point(val, spec['point']):
            rec.fail('D.file-holds-the-point(names with = or blanks)', case, spec['point'], [status, val, res['file']])
        if 'exception' in res:
            rec.fail('D.saved-values-read-back(names with = or blanks)', case, spec['point'],
                     {'file': res['file'], 'exception': res['exception']})
        elif not same_point(res['loaded'], spec['point']) or not same_point(res['formulas'], spec['point']):
            rec.fail('D.saved-values-read-back(names with = or blanks)', case, spec['point'],
                     {'file': res['file'], 'free_betas_values': res['loaded'], 'formulas': res['formulas']})
    return len(specs)


def part_crash(rec, tier, seed, workroot):
    rng = np.random.default_rng([seed, 1599])
    settings = [(2, ['asc', 'b1'], 'c15crash')] if tier == 'quick' else \
        [(2, ['asc', 'b1'], 'c15crash'), (3, ['asc', 'b1', 'b2'], 'c15 crash.3'), (1, ['only'], 'c1')]
    total = 0
    for si, (K, names, model) in enumerate(settings):
        cols = make_data(seed + 300 + si, K)
        p, q = ugly_points(rng, cols, K, 2)
        A, B = (p, q) if oracle_ll(cols, K, p) < oracle_ll(cols, K, q) else (q, p)
        for mode in ('lost', 'partial'):
            k = 0
            done = False
            while not done and k < 40:
                batch = []
                for kk in range(k, k + 4):
                    d = os.path.join(workroot, f'crash{si}_{mode}_{kk}')
                    os.makedirs(d)
                    batch.append({'dir': d, 'K': K, 'names': names, 'seed': seed + 300 + si, 'model': model,
                                  'A': A, 'B': B, 'kill_at': kk, 'mode': mode})
                results = run_children(batch, 'crash')
                for spec, (rc, res) in zip(batch, results):
                    case = {'part': 'B', 'K': K, 'names': names, 'model': model, 'A': A, 'B': B,
                            'kill_at_event': spec['kill_at'], 'mode': mode}
                    if rc == 0 and res is not None:
                        if res['events'] == 0:
                            rec.fail('harness.crash-events-observed', case, '>= 1 write event', 0)
                        done = True                      # fewer events than kill_at: all kill points explored
                        break
                    rec.cases += 1
                    total += 1
                    if rc != 9:
                        rec.fail('harness.crash-child', case, 'exit code 9', rc)
                        done = True                      # the child itself is broken: no point in going on
                        break
                    check_after_crash(rec, case, spec, cols)
                k += 4
    return total


def check_after_crash(rec, case, spec, cols):
    K, names, model = spec['K'], spec['names'], spec['model']
    path = os.path.join(spec['dir'], iter_file(model))
    status, val = parse_file(path, names)
    if status == 'bad':
        rec.fail('B.crash-leaves-no-file-or-a-complete-file', case, 'absent, or one complete line per free parameter', val)
    elif status == 'ok' and not (same_point(val, spec['A']) or same_point(val, spec['B'])):
        rec.fail('B.file-after-crash-holds-an-evaluated-point', case, [spec['A'], spec['B']], val)
    # the restart, whatever the state of the file
    cwd = os.getcwd()
    os.chdir(spec['dir'])
    try:
        b2, _ = build(cols, K, names, model, init=[0.0] * K)
        try:
            b2._load_saved_iteration()
        except Exception as e:  # noqa: BLE001
            content = open(path, encoding='utf-8', newline='').read() if os.path.exists(path) else None
            rec.fail('B.restart-after-crash-succeeds', case, 'values loaded', {'file': content, 'exception': f'{type(e).__name__}: {e}'})
            return
        loaded = to_oracle_order(b2, names, [float(v) for v in b2.id_manager.free_betas_values])
        if status != 'absent' and not (same_point(loaded, spec['A']) or same_point(loaded, spec['B'])):
            content = open(path, encoding='utf-8', newline='').read()
            rec.fail('B.restart-after-crash-starts-from-an-evaluated-point', case, [spec['A'], spec['B']],
                     {'file': content, 'start': loaded})
        b3, _ = build(cols, K, names, model, init=[0.0] * K, algo='simple_bounds')
        try:
            b3.estimate()
        except Exception as e:  # noqa: BLE001
            rec.fail('B.restart-after-crash-succeeds', case, 'estimation runs', f'{type(e).__name__}: {e}')
    finally:
        os.chdir(cwd)


# ------------------------------------------------------------------------------------------------
def main():
    logging.disable(logging.CRITICAL)
    if sys.argv[1] == '--child':
        spec = json.loads(sys.argv[2])
        (child_names if spec['kind'] == 'names' else child_crash)(spec)
        return
    tier, seed = sys.argv[1], int(sys.argv[2])
    t0 = time.time()
    rec = Recorder()
    cwd = os.getcwd()
    root = tempfile.mkdtemp(prefix='c15_')
    counts = {}
    try:
        # crash and names children first (they only need the directory tree)
        counts['crash points'] = part_crash(rec, tier, seed, root)
        counts['names'] = part_names(rec, tier, seed, root)
        work = os.path.join(root, 'work')
        os.makedirs(work)
        os.chdir(work)
        counts['histories'] = part_a(rec, tier, seed, work)
        counts['histories with a finite-valued point of infinite derivative'] = part_infinite_gradient(rec, work)
        counts['optimiser runs'] = part_optimiser(rec, tier, seed, work)
        counts['bootstrap runs'] = part_bootstrap(rec, tier, seed, work)
    finally:
        os.chdir(cwd)
        shutil.rmtree(root, ignore_errors=True)
    bound = ('binary logit, 1..3 free + 1 fixed parameter, 10..20 rows; ' + ', '.join(f'{v} {k}' for k, v in counts.items())
             + '; histories = all orderings of 3 and of 4 points with distinct likelihoods + repeated / non-finite (nan, inf, 1e308) '
             'points' + (' + 40 random sequences of length 5..12 per setting (5 settings)' if tier == 'thorough' else '')
             + ', file checked after every evaluation, then reload and estimate() in a fresh object; optimiser runs = every '
             'algorithm, file checked after every evaluation; crash points = kill after open, before each write (buffer lost), '
             'in the middle of each write (flushed), around os.replace/rename; failing checks per clause: '
             + json.dumps(rec.by_clause, sort_keys=True) + f'; {time.time() - t0:.1f}s')
    print(json.dumps(sanitize({'cases': rec.cases, 'bound': bound, 'failures': rec.failures[:MAX_FAIL]}), default=str))
    sys.exit(1 if rec.nfail else 0)


if __name__ == '__main__':
    main()
