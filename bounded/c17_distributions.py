"""C17 bounded stand-in: distributions.py and loglikelihood.loglikelihoodregression on the real code.

Bound: parameter sets listed in PARAMS below (3-4 per helper, 6-8 thorough), arguments on a grid of 41 (quick) / 201
(thorough) points spanning the support and both tails, plus the break points (a, b, c, 0).  The real Expression trees
are evaluated by the compiled engine on a tiny Database whose rows are the grid (the argument is a Variable, the
parameters are numbers) and, on a sub-grid, by Expression.get_value() with Numeric leaves.
Oracles: scipy.stats (norm, lognorm, uniform, triang, logistic) for the values (relative tolerance 1e-9: the coded
sqrt(2 pi) = 2.506628275 is 1.5e-10 away); scipy.integrate.quad of the ENGINE-evaluated real tree for "integrates to
one" (|I - 1| <= 1e-7); the logistic cdf has limits 0/1, is non-decreasing and its numerical derivative matches the
logistic density.
"""
import math
import sys

import numpy as np

from c17_common import Recorder, close, database, engine_values, tier_seed

CLAUSES = [
    'normalpdf:matches-textbook', 'normalpdf:integrates-to-one', 'normalpdf:bad-scale-refused',
    'lognormalpdf:matches-textbook', 'lognormalpdf:integrates-to-one', 'lognormalpdf:bad-arguments-refused',
    'uniformpdf:matches-textbook', 'uniformpdf:integrates-to-one', 'uniformpdf:bad-bounds-refused',
    'triangularpdf:matches-textbook', 'triangularpdf:integrates-to-one', 'triangularpdf:bad-mode-refused',
    'logisticcdf:matches-textbook', 'logisticcdf:is-a-distribution-function', 'logisticcdf:bad-scale-refused',
    'loglikelihoodregression:is-normal-log-density',
]


def main():
    from scipy import integrate, stats
    from biogeme import distributions as D
    from biogeme.expressions import Numeric, Variable, log
    from biogeme.loglikelihood import loglikelihoodregression
    tier, _ = tier_seed()
    quick = tier == 'quick'
    npts = 41 if quick else 201
    R = Recorder(CLAUSES)
    X = Variable('x')

    def values(build, xs):
        """engine values of the real tree on the grid; python get_value() on every 5th point"""
        xs = [float(v) for v in xs]
        en = engine_values(build(X), database({'x': xs}))
        py = {}
        for i in range(0, len(xs), 5):
            try:
                py[i] = float(build(Numeric(xs[i])).get_value())
            except ValueError:          # lognormalpdf refuses a numeric argument <= 0 (documented)
                pass
        return xs, en, py

    def compare(clause, case, build, oracle, xs, rtol=1e-9, atol=1e-13):
        if not R.wanted(clause):
            return
        try:
            xs, en, py = values(build, xs)
        except Exception as e:      # noqa
            R.case(clause)
            R.fail(clause, case, error=f'{type(e).__name__}: {e}'[:300])
            return
        for i, (x, g) in enumerate(zip(xs, en)):
            R.case(clause)
            want = float(oracle(x))
            if not close(g, want, rtol, atol):
                R.fail(clause, dict(case, x=x), textbook=want, engine=g)
            elif i in py and not close(py[i], want, rtol, atol):
                R.fail(clause, dict(case, x=x), textbook=want, get_value=py[i])

    def integral(clause, case, build, lo, hi, points):
        """quadrature of the engine-evaluated real tree (vectorised through a one-column Database)"""
        if not R.wanted(clause):
            return
        R.case(clause)
        tree = build(X)

        def f(x):
            return engine_values(tree, database({'x': [float(x)]}))[0]
        try:
            pieces = sorted({lo, hi, *[p for p in points if lo < p < hi]})
            total = 0.0
            for a, b in zip(pieces, pieces[1:]):
                v, _ = integrate.quad(f, a, b, epsabs=1e-11, epsrel=1e-11, limit=200)
                total += v
        except Exception as e:      # noqa
            R.fail(clause, case, error=f'{type(e).__name__}: {e}'[:300])
            return
        if not abs(total - 1.0) <= 1e-7:
            R.fail(clause, case, integral=total, expected=1.0)

    def refused(clause, case, thunk, exc=ValueError):
        if not R.wanted(clause):
            return
        R.case(clause)
        try:
            thunk()
            R.fail(clause, case, expected=exc.__name__, got='accepted')
        except exc:
            pass
        except Exception as e:      # noqa
            R.fail(clause, case, expected=exc.__name__, got=f'{type(e).__name__}: {e}'[:200])

    # ---- normal
    P = [(0.0, 1.0), (1.5, 0.3), (-2.0, 4.0)] + ([] if quick else [(10.0, 0.01), (0.25, 25.0), (-7.5, 1.0)])
    for mu, s in P:
        case = {'mu': mu, 's': s}
        xs = np.linspace(mu - 8 * s, mu + 8 * s, npts)
        compare('normalpdf:matches-textbook', case, lambda x: D.normalpdf(x, mu, s), lambda x: stats.norm.pdf(x, mu, s), xs, atol=1e-300)
        integral('normalpdf:integrates-to-one', case, lambda x: D.normalpdf(x, mu, s), mu - 40 * s, mu + 40 * s,
                 [mu - 8 * s, mu - 2 * s, mu, mu + 2 * s, mu + 8 * s])
    if R.wanted('normalpdf:matches-textbook'):      # defaults: standard normal
        compare('normalpdf:matches-textbook', {'mu': 'default', 's': 'default'}, lambda x: D.normalpdf(x), stats.norm.pdf, np.linspace(-6, 6, npts))
    for s in (0.0, -1.0):
        refused('normalpdf:bad-scale-refused', {'s': s}, lambda: D.normalpdf(0.5, 0.0, s))

    # ---- lognormal
    P = [(0.0, 1.0), (0.2, 0.7), (-1.0, 0.25)] + ([] if quick else [(2.0, 0.5), (0.0, 2.0)])
    for mu, s in P:
        case = {'mu': mu, 's': s}
        top = math.exp(mu + 6 * s)
        xs = np.concatenate([np.linspace(-2.0, 0.0, 5), np.exp(np.linspace(mu - 7 * s, mu + 7 * s, npts))])
        compare('lognormalpdf:matches-textbook', case, lambda x: D.lognormalpdf(x, mu, s),
                lambda x: stats.lognorm.pdf(x, s, scale=math.exp(mu)) if x > 0 else 0.0, xs, atol=1e-300)
        integral('lognormalpdf:integrates-to-one', case, lambda x: D.lognormalpdf(x, mu, s), 1e-300, math.exp(mu + 40 * s),
                 [math.exp(mu + q * s) for q in (-12, -6, -2, 0, 2, 6, 12)])
    refused('lognormalpdf:bad-arguments-refused', {'x': 0.0}, lambda: D.lognormalpdf(0.0, 0.0, 1.0))
    refused('lognormalpdf:bad-arguments-refused', {'x': -1.0}, lambda: D.lognormalpdf(-1.0, 0.0, 1.0))
    refused('lognormalpdf:bad-arguments-refused', {'s': 0.0}, lambda: D.lognormalpdf(1.0, 0.0, 0.0))
    refused('lognormalpdf:bad-arguments-refused', {'s': -2.0}, lambda: D.lognormalpdf(1.0, 0.0, -2.0))

    # ---- uniform
    P = [(-1.0, 1.0), (0.0, 0.25), (2.0, 7.5)] + ([] if quick else [(-10.0, -9.0), (-3.0, 100.0)])
    for a, b in P:
        case = {'a': a, 'b': b}
        w = b - a
        xs = np.concatenate([np.linspace(a - w, b + w, npts), [a, b, (a + b) / 2]])
        compare('uniformpdf:matches-textbook', case, lambda x: D.uniformpdf(x, a, b), lambda x: stats.uniform.pdf(x, a, w), xs)
        integral('uniformpdf:integrates-to-one', case, lambda x: D.uniformpdf(x, a, b), a - w, b + w, [a, b])
    if R.wanted('uniformpdf:matches-textbook'):
        compare('uniformpdf:matches-textbook', {'a': 'default', 'b': 'default'}, lambda x: D.uniformpdf(x), lambda x: stats.uniform.pdf(x, -1, 2),
                np.linspace(-2, 2, npts))
    refused('uniformpdf:bad-bounds-refused', {'a': 2.0, 'b': 1.0}, lambda: D.uniformpdf(0.5, 2.0, 1.0))

    # ---- triangular
    P = [(-1.0, 1.0, 0.0), (0.0, 2.0, 0.5), (1.0, 4.0, 3.75)] + ([] if quick else [(-5.0, -1.0, -4.9), (0.0, 100.0, 1.0)])
    for a, b, c in P:
        case = {'a': a, 'b': b, 'c': c}
        w = b - a
        xs = np.concatenate([np.linspace(a - w / 2, b + w / 2, npts), [a, b, c, (a + c) / 2, (c + b) / 2]])
        compare('triangularpdf:matches-textbook', case, lambda x: D.triangularpdf(x, a, b, c),
                lambda x: stats.triang.pdf(x, (c - a) / w, loc=a, scale=w), xs)
        integral('triangularpdf:integrates-to-one', case, lambda x: D.triangularpdf(x, a, b, c), a - w / 2, b + w / 2, [a, c, b])
    if R.wanted('triangularpdf:matches-textbook'):
        compare('triangularpdf:matches-textbook', {'a': 'default', 'b': 'default', 'c': 'default'}, lambda x: D.triangularpdf(x),
                lambda x: stats.triang.pdf(x, 0.5, loc=-1, scale=2), np.linspace(-2, 2, npts))
    for a, b, c in ((0.0, 1.0, 0.0), (0.0, 1.0, 1.0), (0.0, 1.0, 2.0), (0.0, 1.0, -0.5)):
        refused('triangularpdf:bad-mode-refused', {'a': a, 'b': b, 'c': c}, lambda: D.triangularpdf(0.5, a, b, c))

    # ---- logistic cdf
    P = [(0.0, 1.0), (1.5, 0.3), (-2.0, 4.0)] + ([] if quick else [(10.0, 0.05), (0.0, 30.0)])
    for mu, s in P:
        case = {'mu': mu, 's': s}
        xs = np.linspace(mu - 30 * s, mu + 30 * s, npts)
        compare('logisticcdf:matches-textbook', case, lambda x: D.logisticcdf(x, mu, s), lambda x: stats.logistic.cdf(x, mu, s), xs, atol=1e-300)
        c = 'logisticcdf:is-a-distribution-function'
        if R.wanted(c):
            try:
                pts = [float(v) for v in np.linspace(mu - 25 * s, mu + 25 * s, npts)]
                en = engine_values(D.logisticcdf(X, mu, s), database({'x': [mu - 700 * s] + pts + [mu + 700 * s]}))
            except Exception as e:      # noqa
                R.case(c)
                R.fail(c, case, error=f'{type(e).__name__}: {e}'[:300])
                continue
            R.case(c)
            if not (abs(en[0]) <= 1e-12 and abs(en[-1] - 1.0) <= 1e-12):
                R.fail(c, case, limits=[en[0], en[-1]], expected=[0.0, 1.0])
            R.case(c)
            if any(b < a - 1e-15 for a, b in zip(en, en[1:])):
                R.fail(c, case, what='not monotone')
            h = 1e-5 * s
            for x in pts[::4]:
                R.case(c)
                up, dn = engine_values(D.logisticcdf(X, mu, s), database({'x': [x + h, x - h]}))
                dens = stats.logistic.pdf(x, mu, s)
                if not close((up - dn) / (2 * h), dens, 1e-5, 1e-9 / s):
                    R.fail(c, dict(case, x=x), derivative=(up - dn) / (2 * h), logistic_density=dens)
    if R.wanted('logisticcdf:matches-textbook'):
        compare('logisticcdf:matches-textbook', {'mu': 'default', 's': 'default'}, lambda x: D.logisticcdf(x), stats.logistic.cdf, np.linspace(-20, 20, npts))
    for s in (0.0, -1.0):
        refused('logisticcdf:bad-scale-refused', {'s': s}, lambda: D.logisticcdf(0.5, 0.0, s))

    # ---- regression likelihood = normal log density
    c = 'loglikelihoodregression:is-normal-log-density'
    if R.wanted(c):
        P = [(0.0, 1.0), (1.5, 0.3), (-2.0, 4.0), (3.0, 0.01)] + ([] if quick else [(0.0, 50.0), (-100.0, 2.5)])
        for model, sigma in P:
            case = {'model': model, 'sigma': sigma}
            ys = [float(v) for v in np.linspace(model - 8 * sigma, model + 8 * sigma, npts)]
            try:
                tree = loglikelihoodregression(Variable('x'), Numeric(model), Numeric(sigma))
                en = engine_values(tree, database({'x': ys}))
                via_pdf = engine_values(log(D.normalpdf(Variable('x'), model, sigma)), database({'x': ys}))
            except Exception as e:      # noqa
                R.case(c)
                R.fail(c, case, error=f'{type(e).__name__}: {e}'[:300])
                continue
            for i, (y, g, lp) in enumerate(zip(ys, en, via_pdf)):
                R.case(c)
                want = float(stats.norm.logpdf(y, model, sigma))
                if not close(g, want, 1e-9, 1e-9):
                    R.fail(c, dict(case, meas=y), normal_log_density=want, engine=g)
                elif not close(g, lp, 1e-9, 1e-9):
                    R.fail(c, dict(case, meas=y), log_of_normalpdf=lp, engine=g)
                elif i % 10 == 0:
                    py = loglikelihoodregression(Numeric(y), Numeric(model), Numeric(sigma)).get_value()
                    if not close(py, want, 1e-9, 1e-9):
                        R.fail(c, dict(case, meas=y), normal_log_density=want, get_value=py)
    return R.finish()


if __name__ == '__main__':
    sys.exit(main())
