"""C18 bounded stand-in / replay: the model pieces agree, natively on the real code (/venv python).

For every variant x configuration x labelling (see c18_models) and `cases` random (x, epsilon) points
per alternative:
  utility    numeric utility_one_alternative == value of the symbolic utility_expression_one_alternative
             (engine evaluation) == reference formula (specs/c18_diff.UTILITIES, math module)
  derivative derivative_utility_one_alternative == d/dx of the reference (symbolic differentiator) == engine
             gradient of the symbolic utility == central finite difference of utility_one_alternative;
             at x = 0 every regular good has the finite marginal utility D(0)  [F-26]
  inverse    derivative_utility_one_alternative(optimal_consumption_one_alternative(lambda)) == lambda
Bound: 3 alternatives, parameters in the ranges of c18_models.Spec, x in (0, 100], |epsilon| <= 2.
Prints one JSON line {"cases": n, "failures": [...]}.
"""
import json
import math
import sys

import numpy as np

import c18_models as M


def check_spec(spec, what, cases, rng, out, limit=12):
    from biogeme.expressions import Beta, Numeric
    row = M.one_row()
    model = spec.build()
    n = 0

    def bad(kind, pos, **kw):
        if len(out) < limit:
            out.append({'check': kind, **spec.describe(), 'alternative': spec.labels[pos], **kw})

    for pos, lab in enumerate(spec.labels):
        is_out = pos == spec.outside_pos
        xs = [0.5, 1.0, 10.0, 100.0] + [float(v) for v in rng.uniform(0.01, 20.0, size=max(0, cases - 4))]
        es = [float(v) for v in rng.uniform(-2.0, 2.0, size=len(xs))]
        if what in ('utility', 'all'):
            for x, eps in zip(xs, es):
                n += 1
                try:
                    num = model.utility_one_alternative(the_id=lab, the_consumption=x, epsilon=eps, one_observation=row)
                    expr = model.utility_expression_one_alternative(the_id=lab, the_consumption=Numeric(x),
                                                                    unscaled_epsilon=Numeric(eps))
                    sym = expr.get_value_c(database=row, prepare_ids=True)[0]
                except Exception as e:       # noqa
                    bad('utility raised', pos, x=x, epsilon=eps, error=f'{type(e).__name__}: {e}'[:200])
                    continue
                ref = spec.ref_utility(pos, x, eps)
                if not (M.close(num, sym, 1e-9) and M.close(num, ref, 1e-9)):
                    bad('utility', pos, x=x, epsilon=eps, numeric=float(num), symbolic=float(sym), reference=ref)
        if what in ('derivative', 'all'):
            pts = list(zip(xs, es))
            if not is_out:
                pts = [(0.0, 0.3), (0.0, -1.1)] + pts          # marginal utility at zero of a regular good is finite
            for x, eps in pts:
                n += 1
                try:
                    der = model.derivative_utility_one_alternative(the_id=lab, the_consumption=x, epsilon=eps,
                                                                   one_observation=row)
                except Exception as e:       # noqa
                    bad('derivative raised', pos, x=x, epsilon=eps, error=f'{type(e).__name__}: {e}'[:200])
                    continue
                ref = spec.ref_derivative(pos, x, eps)
                if not M.close(der, ref, 1e-9):
                    bad('derivative vs d/dx reference', pos, x=x, epsilon=eps, derivative=float(der), reference=ref)
                    continue
                if x > 0:
                    h = 1e-6 * max(1.0, x)
                    up = model.utility_one_alternative(the_id=lab, the_consumption=x + h, epsilon=eps, one_observation=row)
                    dn = model.utility_one_alternative(the_id=lab, the_consumption=x - h, epsilon=eps, one_observation=row)
                    fd = (up - dn) / (2 * h)
                    if not M.close(der, fd, 1e-5, 1e-8):
                        bad('derivative vs finite difference', pos, x=x, epsilon=eps, derivative=float(der), finite_difference=float(fd))
            # engine gradient of the symbolic utility (what Mdcev.validation compares), 3 points
            for x, eps in list(zip(xs, es))[:3]:
                n += 1
                try:
                    expr = model.utility_expression_one_alternative(the_id=lab, the_consumption=Beta('consumption', x, None, None, 0),
                                                                    unscaled_epsilon=Numeric(eps))
                    res = expr.get_value_and_derivatives(database=row, prepare_ids=True, gradient=True, named_results=True)
                    grad = res.gradient['consumption']
                    der = model.derivative_utility_one_alternative(the_id=lab, the_consumption=x, epsilon=eps, one_observation=row)
                except Exception as e:       # noqa
                    bad('engine gradient raised', pos, x=x, epsilon=eps, error=f'{type(e).__name__}: {e}'[:200])
                    continue
                if not M.close(der, grad, 1e-8):
                    bad('derivative vs engine gradient of the symbolic utility', pos, x=x, epsilon=eps, derivative=float(der), gradient=float(grad))
        if what in ('inverse', 'all'):
            for x, eps in zip(xs, es):
                n += 1
                lam = spec.ref_derivative(pos, x, eps)        # a multiplier in the range of the marginal utility
                if not (lam > 0 and math.isfinite(lam)):
                    continue
                try:
                    opt = model.optimal_consumption_one_alternative(the_id=lab, dual_variable=lam, epsilon=eps, one_observation=row)
                    back = model.derivative_utility_one_alternative(the_id=lab, the_consumption=float(opt), epsilon=eps,
                                                                    one_observation=row)
                except Exception as e:       # noqa
                    bad('inverse raised', pos, dual=lam, epsilon=eps, error=f'{type(e).__name__}: {e}'[:200])
                    continue
                if not (M.close(back, lam, 1e-7) and M.close(opt, x, 1e-6, 1e-9)):
                    bad('inverse', pos, dual=lam, epsilon=eps, optimal_consumption=float(opt), expected_consumption=x,
                        derivative_there=float(back))
    return n


def run(variants=None, what='all', cases=10, seed=0, model=None):
    """`model` (a solver counter-model) is not needed: the grid covers every configuration."""
    rng = np.random.default_rng(seed + 4242)
    out = []
    n = 0
    for spec in M.all_specs(variants, seed=seed):
        n += check_spec(spec, what, cases, rng, out)
    return n, out


if __name__ == '__main__':
    cases = int(sys.argv[1]) if len(sys.argv) > 1 else 8
    seed = int(sys.argv[2]) if len(sys.argv) > 2 else 0
    what = sys.argv[3] if len(sys.argv) > 3 else 'all'
    n, bad = run(None, what, cases, seed)
    print(json.dumps({'cases': n, 'failures': bad}, default=str))
    sys.exit(1 if bad else 0)
