"""C17 bounded stand-in: piecewise_variables / piecewise_formula / piecewise_as_variable on the real code.

Bound: every threshold pattern of length K = 2..6, first end closed/open x last end closed/open (K = 2 with both ends open
excluded: no finite threshold), first finite threshold in {-2.5, 1.0, 0.0, int 0} (quick) + {7.25, -0.5} (thorough), irregular
increasing gaps, x on a grid of every threshold, every midpoint, points below (first - 3, first - 0.125: negative arguments
for a first threshold 0) and above all thresholds, and 0.  The real
Expression trees are evaluated by the compiled engine (get_value_c) on a tiny Database whose rows are the x grid.
Oracles (independent of the code under test): the documented closed forms
    x_q = min(x, t_{q+1}) | max(0, x - t_q) | max(0, min(x - t_q, t_{q+1} - t_q)),
    sum_q x_q = clip(x - t_0, 0, t_last - t_0)   (open first end: min(x, t_last)),
    formula = sum_q beta_q x_q = piecewise_function(x, thresholds, beta values)   (the real function, proved under C17),
    as_variable = x_1 + sum_{q >= 2} beta_q x_q.
"""
import itertools
import sys

from c17_common import Recorder, close, database, engine_values, tier_seed

CLAUSES = [
    'piecewise_variables:count',
    'piecewise_variables:each-variable',
    'piecewise_variables:sum-is-clipped-distance',
    'piecewise_variables:malformed-refused',
    'piecewise_formula:equals-function',
    'piecewise_formula:default-parameters',
    'piecewise_formula:malformed-refused',
    'piecewise_as_variable:documented-formula',
    'piecewise_as_variable:default-parameters',
]

GAPS = [1.0, 0.5, 2.0, 1.5, 3.0, 0.25]
BETAS = [0.5, -1.25, 2.0, 3.5, -0.75, 1.75]


def patterns(tier):
    # first finite threshold negative, positive, and exactly zero (float 0.0 and int 0: a closed lower end at 0 is not an open end)
    starts = [-2.5, 1.0, 0.0, 0] if tier == 'quick' else [-2.5, 1.0, 0.0, 0, 7.25, -0.5]
    for k in range(2, 7):
        for first_open, last_open in itertools.product((False, True), repeat=2):
            if k == 2 and first_open and last_open:
                continue
            for s in starts:
                finite = k - int(first_open) - int(last_open)
                vals = [s]
                for g in GAPS[:finite - 1]:
                    vals.append(vals[-1] + g)
                yield ([None] if first_open else []) + vals + ([None] if last_open else [])


def grid(th):
    fin = [t for t in th if t is not None]
    pts = set(fin) | {0.0, min(fin) - 3.0, min(fin) - 0.125, max(fin) + 0.125, max(fin) + 4.0}
    pts |= {(a + b) / 2 for a, b in zip(fin, fin[1:])}
    return sorted(pts)


def ref_var(x, lo, hi):
    if lo is None:
        return min(x, hi)
    if hi is None:
        return max(0.0, x - lo)
    return max(0.0, min(x - lo, hi - lo))


def ref_clip(x, th):
    lo, hi = th[0], th[-1]
    if lo is None:
        return x if hi is None else min(x, hi)
    d = max(x - lo, 0.0)
    return d if hi is None else min(d, hi - lo)


def beta_name(var, lo, hi):
    return f"beta_{var}_{'minus_inf' if lo is None else lo}_{'inf' if hi is None else hi}"


def main():
    from biogeme.exceptions import BiogemeError
    from biogeme.expressions import Beta, Numeric, Variable, TypeOfElementaryExpression
    from biogeme.models.piecewise import piecewise_as_variable, piecewise_formula, piecewise_function, piecewise_variables
    tier, _ = tier_seed()
    R = Recorder(CLAUSES)

    for th in patterns(tier):
        k = len(th)
        xs = grid(th)
        db = database({'x': xs})
        # ---- variables
        variables = None
        try:
            variables = piecewise_variables('x', list(th))
        except Exception as e:      # noqa
            for c in ('piecewise_variables:count', 'piecewise_variables:each-variable', 'piecewise_variables:sum-is-clipped-distance'):
                if R.wanted(c):
                    R.case(c)
                    R.fail(c, {'thresholds': th}, error=f'{type(e).__name__}: {e}'[:200])
        if variables is not None:
            c = 'piecewise_variables:count'
            if R.wanted(c):
                R.case(c)
                if len(variables) != k - 1:
                    R.fail(c, {'thresholds': th}, expected=k - 1, got=len(variables), variables=[str(v) for v in variables])
            vals = [engine_values(v, db) for v in variables]
            c = 'piecewise_variables:each-variable'
            if R.wanted(c) and len(variables) == k - 1:
                for q in range(k - 1):
                    for x, got in zip(xs, vals[q]):
                        R.case(c)
                        want = ref_var(x, th[q], th[q + 1])
                        if not close(got, want):
                            R.fail(c, {'thresholds': th, 'interval': q, 'x': x}, expected=want, got=got)
            c = 'piecewise_variables:sum-is-clipped-distance'
            if R.wanted(c):
                for i, x in enumerate(xs):
                    R.case(c)
                    got, want = sum(v[i] for v in vals), ref_clip(x, th)
                    if not close(got, want):
                        R.fail(c, {'thresholds': th, 'x': x}, expected=want, got=got, variables=len(variables))
        # ---- formula with given coefficients (Numeric and Beta)
        c = 'piecewise_formula:equals-function'
        if R.wanted(c):
            bv = BETAS[:k - 1]
            for kind in ('Numeric', 'Beta', 'Variable-object'):
                try:
                    if kind == 'Numeric':
                        f = piecewise_formula('x', list(th), [Numeric(b) for b in bv])
                    elif kind == 'Beta':
                        f = piecewise_formula('x', list(th), [Beta(f'b{q}', b, None, None, 0) for q, b in enumerate(bv)])
                    else:
                        f = piecewise_formula(Variable('x'), list(th), [Numeric(b) for b in bv])
                    got = engine_values(f, db)
                except Exception as e:      # noqa
                    R.case(c)
                    R.fail(c, {'thresholds': th, 'betas': bv, 'coefficients': kind}, error=f'{type(e).__name__}: {e}'[:200])
                    continue
                for x, g in zip(xs, got):
                    R.case(c)
                    want = sum(b * ref_var(x, th[q], th[q + 1]) for q, b in enumerate(bv))
                    fun = piecewise_function(x, list(th), list(bv))
                    if not (close(g, want) and close(g, fun)):
                        R.fail(c, {'thresholds': th, 'betas': bv, 'x': x, 'coefficients': kind}, closed_form=want, piecewise_function=fun, formula=g)
        # ---- default parameters of the formula
        c = 'piecewise_formula:default-parameters'
        if R.wanted(c):
            R.case(c)
            try:
                f = piecewise_formula('x', list(th))
                names = f.set_of_elementary_expression(TypeOfElementaryExpression.FREE_BETA)
                expected = {beta_name('x', th[q], th[q + 1]) for q in range(k - 1)}
                if names != expected:
                    R.fail(c, {'thresholds': th}, expected_parameters=sorted(expected), got=sorted(names))
                else:
                    values = {beta_name('x', th[q], th[q + 1]): BETAS[q] for q in range(k - 1)}
                    f.change_init_values(values)
                    got = engine_values(f, db)
                    for x, g in zip(xs, got):
                        R.case(c)
                        want = sum(BETAS[q] * ref_var(x, th[q], th[q + 1]) for q in range(k - 1))
                        if not close(g, want):
                            R.fail(c, {'thresholds': th, 'x': x, 'values': values}, expected=want, got=g)
            except Exception as e:      # noqa
                R.fail(c, {'thresholds': th}, error=f'{type(e).__name__}: {e}'[:200])
        # ---- as variable
        c = 'piecewise_as_variable:documented-formula'
        if R.wanted(c):
            bv = BETAS[1:k - 1]
            try:
                f = piecewise_as_variable('x', list(th), [Numeric(b) for b in bv])
                got = engine_values(f, db)
            except BiogemeError as e:
                R.case(c)
                got = None
                if k > 2:          # a single interval (no coefficient at all) may be refused explicitly
                    R.fail(c, {'thresholds': th, 'betas': bv}, error=f'BiogemeError: {e}'[:200])
            except Exception as e:      # noqa
                R.case(c)
                got = None
                R.fail(c, {'thresholds': th, 'betas': bv}, error=f'{type(e).__name__}: {e}'[:200])
            if got is not None:
                for x, g in zip(xs, got):
                    R.case(c)
                    want = ref_var(x, th[0], th[1]) + sum(b * ref_var(x, th[q + 1], th[q + 2]) for q, b in enumerate(bv))
                    if not close(g, want):
                        R.fail(c, {'thresholds': th, 'betas': bv, 'x': x}, documented=want, got=g, tree=str(f)[:300])
        c = 'piecewise_as_variable:default-parameters'
        if R.wanted(c) and k > 2:
            R.case(c)
            try:
                f = piecewise_as_variable('x', list(th))
                names = f.set_of_elementary_expression(TypeOfElementaryExpression.FREE_BETA)
                expected = {beta_name('x', th[q], th[q + 1]) for q in range(1, k - 1)}
                if names != expected:
                    R.fail(c, {'thresholds': th}, expected_parameters=sorted(expected), got=sorted(names))
                else:
                    # the parameter named after interval q multiplies the variable of interval q
                    values = {beta_name('x', th[q], th[q + 1]): BETAS[q] for q in range(1, k - 1)}
                    f.change_init_values(values)
                    got = engine_values(f, db)
                    for x, g in zip(xs, got):
                        R.case(c)
                        want = ref_var(x, th[0], th[1]) + sum(BETAS[q] * ref_var(x, th[q], th[q + 1]) for q in range(1, k - 1))
                        if not close(g, want):
                            R.fail(c, {'thresholds': th, 'x': x, 'values': values}, expected=want, got=g)
            except Exception as e:      # noqa
                R.fail(c, {'thresholds': th}, error=f'{type(e).__name__}: {e}'[:200])

    # ---- malformed inputs are refused with BiogemeError (documented :raise:)
    bad_thresholds = [[], [None, None], [None, None, None], [1.0, None, 3.0], [None, None, 2.0, 3.0], [1.0, 2.0, None, None], [None, 1.0, None, 4.0, None]]
    c = 'piecewise_variables:malformed-refused'
    if R.wanted(c):
        for th in bad_thresholds:
            R.case(c)
            try:
                got = piecewise_variables('x', list(th))
                R.fail(c, {'thresholds': th}, expected='BiogemeError', got=f'{len(got)} variables')
            except BiogemeError:
                pass
            except Exception as e:      # noqa
                R.fail(c, {'thresholds': th}, expected='BiogemeError', got=f'{type(e).__name__}: {e}'[:200])
        for what, var in (('a number', 3.0), ('an expression that is not a Variable', Variable('x') + Numeric(1.0))):
            R.case(c)
            try:
                piecewise_variables(var, [1.0, 2.0, 3.0])
                R.fail(c, {'variable': what}, expected='BiogemeError', got='accepted')
            except BiogemeError:
                pass
            except Exception as e:      # noqa
                R.fail(c, {'variable': what}, expected='BiogemeError', got=f'{type(e).__name__}: {e}'[:200])
    c = 'piecewise_formula:malformed-refused'
    if R.wanted(c):
        for fn, off in ((piecewise_formula, 1), (piecewise_as_variable, 2)):
            for th in bad_thresholds[1:]:
                R.case(c)
                try:
                    fn('x', list(th))
                    R.fail(c, {'function': fn.__name__, 'thresholds': th}, expected='BiogemeError', got='accepted')
                except BiogemeError:
                    pass
                except Exception as e:      # noqa
                    R.fail(c, {'function': fn.__name__, 'thresholds': th}, expected='BiogemeError', got=f'{type(e).__name__}: {e}'[:200])
            th = [None, 10.0, 20.0, None]
            for n in (len(th) - off - 1, len(th) - off + 1):
                R.case(c)
                try:
                    fn('x', list(th), [Numeric(1.0)] * n)
                    R.fail(c, {'function': fn.__name__, 'thresholds': th, 'betas': n}, expected='BiogemeError', got='accepted')
                except BiogemeError:
                    pass
                except Exception as e:      # noqa
                    R.fail(c, {'function': fn.__name__, 'thresholds': th, 'betas': n}, expected='BiogemeError', got=f'{type(e).__name__}: {e}'[:200])
            R.case(c)
            try:
                fn(123, [10.0, 20.0, 30.0])
                R.fail(c, {'function': fn.__name__, 'variable': 123}, expected='BiogemeError', got='accepted')
            except BiogemeError:
                pass
            except Exception as e:      # noqa
                R.fail(c, {'function': fn.__name__, 'variable': 123}, expected='BiogemeError', got=f'{type(e).__name__}: {e}'[:200])
    return R.finish()


if __name__ == '__main__':
    sys.exit(main())
