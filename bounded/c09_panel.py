"""Bounded stand-in for property C09 (panel likelihood = product over each individual's rows,
shared draws, sample size = number of individuals, order independence).

usage: /venv/bin/python /verif/bounded/c09_panel.py <quick|thorough> <seed>

Real code exercised: Database.panel / build_panel_map / individualMap / get_sample_size /
generate_draws, PanelLikelihoodTrajectory and MonteCarlo(bioDraws) through the compiled engine
(Expression.get_value_c) and through BIOGEME.calculate_likelihood / simulate with 1..3 threads.

Oracle (plain Python, written from the property statement):
  * the map must be a partition of 0..n-1 into contiguous blocks, one per distinct id, block k
    holding exactly the rows whose id is the k-th key of the map, and the multiset of rows of the
    table must be unchanged;
  * trajectory value of individual i  =  prod over the rows of i of f(row);
  * Monte-Carlo trajectory value      =  (1/R) sum_r prod_rows f(row, xi = G[k(i), r]) where
    k(i) is the position of i in the map and G is a deterministic user generator whose value
    encodes (k, r); the generator must be asked for exactly (#individuals, R) numbers;
  * log likelihood = sum over individuals of log(that value);
  * all of the above, keyed by id, must be identical for every order of the individuals and of
    the rows of one individual; a table where the rows of an individual are not consecutive is
    refused by Database.panel with BiogemeError (documented behaviour).
Each data set runs in its own worker subprocess (engine error state is sticky).
"""
import itertools
import json
import math
import os
import random
import subprocess
import sys
import tempfile
import shutil

REL = 1e-10


def close(a, b, tol=REL):
    a = float(a)
    b = float(b)
    if a == b:
        return True
    if math.isnan(a) or math.isnan(b):
        return False
    return abs(a - b) <= tol * max(1.0, abs(a), abs(b))


# ---------------------------------------------------------------- oracle side (no biogeme)
FORMULAS = ('lin', 'exp', 'logit')


def row_value(kind, row, b1, b2, xi):
    """Value of the per-observation formula, from its mathematical definition."""
    x, y, c = row['x'], row['y'], row['c']
    if kind == 'lin':
        return b1 * x + b2 * y + 4.0 + xi
    if kind == 'exp':
        return math.exp(b1 * x - b2 * y + xi * y)
    if kind == 'logit':
        v1 = b1 * x + xi
        v2 = b2 * y
        m = max(v1, v2)
        den = math.exp(v1 - m) + math.exp(v2 - m)
        return math.exp((v1 if c == 1 else v2) - m) / den
    raise ValueError(kind)


def draw_value(k, r):
    """Deterministic 'draw': encodes (individual position k, draw index r) injectively."""
    return 0.25 * (k + 1) - 0.035 * (r + 1) + 0.002 * (k + 1) * (r + 1)


def oracle(kind, blocks, sorted_ids, b1, b2, R):
    """blocks: dict id -> list of rows.  Returns dict id -> (trajectory product, MC mean)."""
    out = {}
    for k, the_id in enumerate(sorted_ids):
        rows = blocks[the_id]
        plain = 1.0
        for row in rows:
            plain *= row_value(kind, row, b1, b2, 0.0)
        acc = 0.0
        for r in range(R):
            p = 1.0
            for row in rows:
                p *= row_value(kind, row, b1, b2, draw_value(k, r))
            acc += p
        out[the_id] = (plain, acc / R)
    return out


ID_POOLS = {
    'small': [1, 2, 3, 4, 5, 6, 7],
    'gaps': [3, 10, 11, 40, 500, 7000, 12],
    'negative': [-5, -1, 0, 4, -300, 17, 2],
    'large': [10 ** 9 + 7, 2 ** 40, 2 ** 40 + 1, 10 ** 12, 5, -(10 ** 10), 123456789012],
    'float': [0.5, -1.25, 3.0, 1e6 + 0.5, 2.75, -0.125, 10.0],
}


def make_dataset(rng, tier):
    max_ind, max_rows = (4, 3) if tier == 'quick' else (6, 4)
    n_ind = rng.randint(1, max_ind)
    pool = rng.choice(sorted(ID_POOLS))
    ids = rng.sample(ID_POOLS[pool], n_ind)
    blocks = {}
    for the_id in ids:
        rows = []
        for _ in range(rng.randint(1, max_rows)):
            rows.append({'x': round(rng.uniform(0.2, 2.0), 3),
                         'y': round(rng.uniform(-1.0, 1.0), 3),
                         'c': rng.choice([1, 2])})
        blocks[the_id] = rows
    return {'pool': pool, 'ids': ids, 'blocks': [[i, blocks[i]] for i in ids],
            'kind': rng.choice(FORMULAS),
            'b1': round(rng.uniform(-1.0, 1.0), 3), 'b2': round(rng.uniform(-1.0, 1.0), 3),
            'R': rng.choice([1, 2, 3, 5]),
            'seed': rng.randrange(10 ** 9)}


def orders(ds, rng, tier):
    """Orders of individuals x orders of rows within each individual."""
    ids = ds['ids']
    blocks = dict((i, rows) for i, rows in ds['blocks'])
    perms = list(itertools.permutations(range(len(ids))))
    cap = 24 if tier == 'quick' else 40
    if len(perms) > cap:
        perms = [perms[0], perms[-1]] + rng.sample(perms[1:-1], cap - 2)
    out = []
    for p in perms:
        # identity row order, reversed row order, and random ones
        variants = [{str(i): list(range(len(blocks[i]))) for i in ids},
                    {str(i): list(reversed(range(len(blocks[i])))) for i in ids}]
        for _ in range(1 if tier == 'quick' else 2):
            variants.append({str(i): rng.sample(range(len(blocks[i])), len(blocks[i])) for i in ids})
        seen = []
        for v in variants:
            if v not in seen:
                seen.append(v)
                out.append({'perm': list(p), 'rows': v})
    return out


# ---------------------------------------------------------------- worker (real code)
def worker(payload):
    import numpy as np
    import pandas as pd
    import biogeme.database as db
    from biogeme.biogeme import BIOGEME
    from biogeme.parameters import Parameters
    from biogeme.exceptions import BiogemeError
    from biogeme.expressions import (Beta, Variable, exp, log, _bioLogLogit, MonteCarlo, bioDraws,
                                     PanelLikelihoodTrajectory)
    ds = payload['ds']
    ids = ds['ids']
    blocks = dict((i, rows) for i, rows in ds['blocks'])
    kind, b1v, b2v, R = ds['kind'], ds['b1'], ds['b2'], ds['R']
    sorted_ids = sorted(ids)
    want = oracle(kind, blocks, sorted_ids, b1v, b2v, R)
    want_ll = sum(math.log(want[i][1]) for i in sorted_ids) if all(want[i][1] > 0 for i in sorted_ids) else None
    failures = []
    cases = 0
    calls = []

    def gen(n, r):
        calls.append((int(n), int(r)))
        return np.array([[draw_value(k, j) for j in range(r)] for k in range(n)], dtype=float).reshape(n, r)

    def fail(clause, case, expected, got):
        if sum(1 for f_ in failures if f_['clause'] == clause) < 3 and len(failures) < 60:      # three records per clause
            failures.append({'clause': clause, 'case': case, 'expected': expected, 'got': got})

    def formula(with_draws):
        b1 = Beta('b1', 0.0, None, None, 0)
        b2 = Beta('b2', 0.0, None, None, 0)
        x, y, c = Variable('x'), Variable('y'), Variable('c')
        xi = bioDraws('xi', 'CODED') if with_draws else 0.0
        if kind == 'lin':
            return b1 * x + b2 * y + 4.0 + xi
        if kind == 'exp':
            return exp(b1 * x - b2 * y + xi * y)
        return exp(_bioLogLogit({1: b1 * x + xi, 2: b2 * y}, None, c))

    def table(order):
        recs = []
        for p in order['perm']:
            the_id = ids[p]
            for j in order['rows'][str(the_id)]:
                row = blocks[the_id][j]
                recs.append({'pid': the_id, 'x': row['x'], 'y': row['y'], 'c': row['c']})
        return pd.DataFrame(recs)

    reference = None
    for no, order in enumerate(payload['orders']):
        cases += 1
        case = {'ids': ids, 'pool': ds['pool'], 'kind': kind, 'b1': b1v, 'b2': b2v, 'R': R,
                'order': order, 'rows_per_individual': [len(blocks[i]) for i in ids]}
        try:
            df = table(order)
            original_rows = sorted(map(tuple, df[['pid', 'x', 'y', 'c']].values.tolist()))
            d = db.Database('c09', df)
            d.set_random_number_generators({'CODED': (gen, 'value encodes (individual, draw)')})
            d.panel('pid')
            # --- map is a partition into contiguous blocks, one per id
            imap = d.individualMap
            keys = list(imap.index)
            data_ids = d.data['pid'].tolist()
            n = len(data_ids)
            ok = sorted(keys) == sorted_ids and len(keys) == len(set(keys)) and imap.shape == (len(ids), 2)
            covered = []
            if ok:
                for k, the_id in enumerate(keys):
                    first, last = int(imap.iloc[k, 0]), int(imap.iloc[k, 1])
                    if not (0 <= first <= last < n):
                        ok = False
                        break
                    if any(data_ids[j] != the_id for j in range(first, last + 1)):
                        ok = False
                    if last - first + 1 != len(blocks[the_id]):
                        ok = False
                    covered += list(range(first, last + 1))
                ok = ok and sorted(covered) == list(range(n)) and list(d.data.index) == list(range(n))
            if not ok:
                fail('map: blocks partition the rows, one contiguous block per individual', case,
                     'partition of 0..%d by id' % (n - 1), {'map': imap.values.tolist(), 'keys': [float(k) for k in keys], 'ids_in_data': data_ids})
                continue
            if sorted(map(tuple, d.data[['pid', 'x', 'y', 'c']].values.tolist())) != original_rows:
                fail('map: rows unchanged by the sort', case, 'same multiset of rows', 'rows altered')
            if d.get_sample_size() != len(ids) or d.get_number_of_observations() != n:
                fail('sample size == number of individuals', case, [len(ids), n],
                     [d.get_sample_size(), d.get_number_of_observations()])
            # --- trajectory = product over exactly those rows
            betas = {'b1': b1v, 'b2': b2v}
            got = PanelLikelihoodTrajectory(formula(False)).get_value_c(database=d, betas=betas, prepare_ids=True)
            keys = list(d.individualMap.index)
            if len(got) != len(ids) or not all(close(got[k], want[i][0]) for k, i in enumerate(keys)):
                fail('trajectory == product over the individual\'s rows', case,
                     [want[i][0] for i in keys], [float(v) for v in got])
            # --- Monte-Carlo: same draw for all the rows of an individual, table sized by individuals
            del calls[:]
            got_mc = MonteCarlo(PanelLikelihoodTrajectory(formula(True))).get_value_c(
                database=d, betas=betas, number_of_draws=R, prepare_ids=True)
            keys = list(d.individualMap.index)
            if not calls or any(cl != (len(ids), R) for cl in calls):
                fail('draw table dimensioned (individuals, R)', case, [len(ids), R], calls[:4])
            if d.theDraws is None or tuple(d.theDraws.shape) != (len(ids), R, 1):
                fail('draw table dimensioned (individuals, R)', case, [len(ids), R, 1],
                     None if d.theDraws is None else list(d.theDraws.shape))
            if len(got_mc) != len(ids) or not all(close(got_mc[k], want[i][1]) for k, i in enumerate(keys)):
                fail('MonteCarlo(trajectory) == mean_r prod_rows f(row, draw[individual, r])', case,
                     [want[i][1] for i in keys], [float(v) for v in got_mc])
            by_id = {repr(i): (float(got[k]), float(got_mc[k])) for k, i in enumerate(keys)}
            # --- order independence
            if reference is None:
                reference = by_id
            elif set(reference) != set(by_id) or not all(
                    close(reference[i][0], by_id[i][0], 1e-12) and close(reference[i][1], by_id[i][1], 1e-12)
                    for i in reference):
                fail('result independent of the order of individuals / rows', case, reference, by_id)
            # --- BIOGEME object: likelihood and simulate, several thread counts (first orders only)
            if no < payload['n_biogeme'] and want_ll is not None:
                for threads in (1, 2, 3):
                    cases += 1
                    del calls[:]
                    p = Parameters()
                    p.set_value('number_of_threads', threads, section='MultiThreading')
                    p.set_value('number_of_draws', R, section='MonteCarlo')
                    mc = MonteCarlo(PanelLikelihoodTrajectory(formula(True)))
                    bg = BIOGEME(d, {'log_like': log(mc), 'traj': PanelLikelihoodTrajectory(formula(False)),
                                     'mc': MonteCarlo(PanelLikelihoodTrajectory(formula(True)))}, parameters=p)
                    bg.modelName = 'c09'
                    if bg.free_beta_names != ['b1', 'b2']:
                        fail('BIOGEME free betas', case, ['b1', 'b2'], bg.free_beta_names)
                        continue
                    ll = bg.calculate_likelihood([b1v, b2v], scaled=False)
                    lls = bg.calculate_likelihood([b1v, b2v], scaled=True)
                    if not close(ll, want_ll) or not close(lls, want_ll / len(ids)):
                        fail('BIOGEME log likelihood == sum over individuals of log(mean_r prod_rows)',
                             dict(case, threads=threads), [want_ll, want_ll / len(ids)], [float(ll), float(lls)])
                    if any(cl != (len(ids), R) for cl in calls) or not calls:
                        fail('draw table dimensioned (individuals, R) [BIOGEME]', dict(case, threads=threads),
                             [len(ids), R], calls[:4])
                    if threads == 1 and no == 0 and len(ids) >= 2:
                        # history: an estimation with bootstrapping (the engine is given resampled individual maps) and THEN the
                        # likelihood again on the same object: still every individual exactly once over its own rows
                        cases += 1
                        try:
                            p2 = Parameters()
                            p2.set_value('number_of_draws', R, section='MonteCarlo')
                            p2.set_value('bootstrap_samples', 3, section='Estimation')
                            p2.set_value('save_iterations', False, section='Estimation')
                            p2.set_value('max_iterations', 2, section='SimpleBounds')
                            p2.set_value('generate_html', False, section='Output')
                            p2.set_value('generate_pickle', False, section='Output')
                            bg2 = BIOGEME(d, {'log_like': log(MonteCarlo(PanelLikelihoodTrajectory(formula(True))))}, parameters=p2)
                            bg2.modelName = 'c09boot'
                            cwd_ = os.getcwd()
                            os.chdir(_scratch_dir('c09boot_'))
                            try:
                                np.random.seed(7)
                                bg2.estimate(run_bootstrap=True)
                            finally:
                                os.chdir(cwd_)
                            ll2 = bg2.calculate_likelihood([b1v, b2v], scaled=False)
                            if not close(ll2, want_ll):
                                fail('history: the likelihood after an estimation with bootstrapping still runs over every individual once',
                                     dict(case, history='estimate(run_bootstrap=True); calculate_likelihood'), want_ll, float(ll2))
                        except Exception as e:
                            fail('history: the likelihood after an estimation with bootstrapping still runs over every individual once',
                                 dict(case, history='estimate(run_bootstrap=True); calculate_likelihood'), want_ll,
                                 '%s: %s' % (type(e).__name__, str(e)[:200]))
                    sim = bg.simulate({'b1': b1v, 'b2': b2v})
                    okk = list(sim.index) == list(d.individualMap.index) and len(sim) == len(ids)
                    if okk:
                        for the_id in sim.index:
                            okk = okk and close(sim.loc[the_id, 'traj'], want[the_id][0]) \
                                and close(sim.loc[the_id, 'mc'], want[the_id][1]) \
                                and close(sim.loc[the_id, 'log_like'], math.log(want[the_id][1]))
                    if not okk:
                        fail('BIOGEME.simulate: one row per individual with its product / mean', dict(case, threads=threads),
                             {repr(i): list(want[i]) for i in sorted_ids}, sim.reset_index().values.tolist())
        except Exception as e:  # any exception on a valid panel table is a failure
            fail('valid panel table accepted and evaluated', case, 'values', '%s: %s' % (type(e).__name__, str(e)[:300]))
            break   # engine state may be poisoned
    # --- history: rows appended AFTER panel() (second wave of the same respondents) make individuals non-contiguous;
    #     the map is rebuilt (sorted) before evaluation, so every individual still gets exactly its own rows
    if payload['orders'] and kind != 'logit_placeholder':
        cases += 1
        order = payload['orders'][0]
        case = {'ids': ids, 'kind': kind, 'b1': b1v, 'b2': b2v, 'history': 'panel(); append one more row per individual; evaluate'}
        try:
            df = table(order)
            d = db.Database('c09hist', df)
            d.panel('pid')
            wave2 = pd.DataFrame([{'pid': i, 'x': blocks[i][0]['x'] + 0.25, 'y': blocks[i][0]['y'], 'c': blocks[i][0]['c']}
                                  for i in reversed(ids)])
            d.data = pd.concat([d.data, wave2], ignore_index=True)
            blocks2 = {i: list(blocks[i]) + [dict(blocks[i][0], x=blocks[i][0]['x'] + 0.25)] for i in ids}
            want2 = oracle(kind, blocks2, sorted_ids, b1v, b2v, R)
            p = Parameters()
            bg = BIOGEME(d, {'traj': PanelLikelihoodTrajectory(formula(False))}, parameters=p)
            bg.modelName = 'c09hist'
            sim = bg.simulate({'b1': b1v, 'b2': b2v})
            okk = sorted(sim.index) == sorted_ids and all(close(sim.loc[i, 'traj'], want2[i][0]) for i in sorted_ids)
            if not okk:
                fail('history: rows appended after panel() still belong to their individual', case,
                     {repr(i): want2[i][0] for i in sorted_ids}, sim.reset_index().values.tolist())
        except Exception as e:
            fail('history: rows appended after panel() still belong to their individual', case, 'values',
                 '%s: %s' % (type(e).__name__, str(e)[:300]))
    # --- a data variable outside the trajectory operator is refused also when it is the SELECTED MEMBER of a catalog
    #     (otherwise the engine reads it from one row of the individual and the result depends on the order of the rows)
    if payload['orders']:
        cases += 1
        try:
            from biogeme.catalog import Catalog
            df = table(payload['orders'][0])
            d = db.Database('c09cat', df)
            d.panel('pid')
            cat = Catalog.from_dict('c09_spec', {'linear': Variable('y'), 'log': log(Variable('y') * Variable('y') + 1.0)})
            mixed = cat * PanelLikelihoodTrajectory(formula(False))
            try:
                got = mixed.get_value_c(database=d, betas={'b1': b1v, 'b2': b2v}, prepare_ids=True)
                fail('variable outside the trajectory refused when it is the selected member of a catalog',
                     {'formula': "Catalog{linear: y, log: ...} * PanelLikelihoodTrajectory(...)", 'ids': ids}, 'BiogemeError',
                     [float(v) for v in got])
            except BiogemeError:
                pass
        except Exception as e:
            fail('variable outside the trajectory refused when it is the selected member of a catalog', {'ids': ids}, 'BiogemeError',
                 '%s: %s' % (type(e).__name__, str(e)[:200]))
    # --- non-contiguous tables are refused by Database.panel (documented)
    for bad in payload['bad_orders']:
        cases += 1
        recs = [{'pid': i, 'x': 1.0, 'y': 0.5, 'c': 1} for i in bad]
        try:
            d = db.Database('c09bad', pd.DataFrame(recs))
            d.panel('pid')
            fail('non-contiguous individual refused by Database.panel', {'ids_in_row_order': bad}, 'BiogemeError',
                 {'map': d.individualMap.values.tolist()})
        except BiogemeError:
            pass
        except Exception as e:
            fail('non-contiguous individual refused by Database.panel', {'ids_in_row_order': bad}, 'BiogemeError',
                 '%s: %s' % (type(e).__name__, str(e)[:200]))
    # --- literal reading of "product": per-observation values that are not positive
    if payload.get('negative_case') and os.environ.get('C09_SKIP_NEGATIVE') != '1':
        cases += 1
        try:
            dfn = pd.DataFrame({'pid': [1, 1, 2, 3, 3], 'x': [-2.0, -3.0, -1.5, 2.0, -0.5]})
            dn = db.Database('c09neg', dfn)
            dn.panel('pid')
            gotn = PanelLikelihoodTrajectory(Variable('x')).get_value_c(database=dn, prepare_ids=True)
            wantn = [6.0, -1.5, -1.0]
            if len(gotn) != 3 or not all(close(a, b) for a, b in zip(gotn, wantn)):
                fail('trajectory product with negative per-observation values (engine computes exp(sum(log f)))',
                     {'pid': [1, 1, 2, 3, 3], 'x': [-2.0, -3.0, -1.5, 2.0, -0.5], 'formula': "PanelLikelihoodTrajectory(Variable('x'))"},
                     wantn, [float(v) for v in gotn])
        except Exception as e:
            fail('trajectory product with negative per-observation values (engine computes exp(sum(log f)))',
                 {'x': [-2.0, -3.0, -1.5, 2.0, -0.5]}, [6.0, -1.5, -1.0], '%s: %s' % (type(e).__name__, str(e)[:200]))
    return {'cases': cases, 'failures': failures}


def bad_orders(ds, rng):
    ids = ds['ids']
    out = []
    if len(ids) >= 2:
        a, b = ids[0], ids[1]
        out.append([a, b, a])
        out.append([a, a, b, a])
        out.append([b, a, b, b])
        if len(ids) >= 3:
            c = ids[2]
            out.append([a, b, c, b])
            out.append([c, a, a, b, c])
    return out



def _scratch_dir(prefix):
    """a scratch directory removed when the process ends"""
    import atexit
    import shutil
    d = tempfile.mkdtemp(prefix=prefix)
    atexit.register(shutil.rmtree, d, ignore_errors=True)
    return d

def main():
    if len(sys.argv) >= 3 and sys.argv[1] == '--worker':
        with open(sys.argv[2]) as f:
            payload = json.load(f)
        res = worker(payload)
        print('\n' + json.dumps(res))
        return 0
    tier = sys.argv[1] if len(sys.argv) > 1 else 'quick'
    seed = int(sys.argv[2]) if len(sys.argv) > 2 else 0
    rng = random.Random(seed * 7919 + (1 if tier == 'quick' else 2))
    n_datasets = 16 if tier == 'quick' else 120
    tmp = tempfile.mkdtemp(prefix='c09_')
    cases = 0
    failures = []
    try:
        jobs = []
        for k in range(n_datasets):
            ds = make_dataset(rng, tier)
            if k in (0, 1):
                # an individual whose id is 0, not first / first, with negative ids around it: every order of the individuals
                # (a contiguity test that treats the value 0 specially must not refuse or accept by the position of that block)
                forced = [3, 0, 5] if k == 0 else [0, -1, 2]
                ds['pool'] = 'zero'
                ds['ids'] = forced
                keep = [rows for _, rows in ds['blocks']][:3]
                while len(keep) < 3:
                    keep.append([{'x': 0.7, 'y': -0.3, 'c': 1}, {'x': 1.3, 'y': 0.4, 'c': 2}])
                ds['blocks'] = [[i, rows] for i, rows in zip(forced, keep)]
            if k < len(FORMULAS) * 2:       # make sure every formula kind and a multi-individual table occur
                ds['kind'] = FORMULAS[k % len(FORMULAS)]
            payload = {'ds': ds, 'orders': orders(ds, rng, tier), 'bad_orders': bad_orders(ds, rng),
                       'n_biogeme': 2 if tier == 'quick' else 3, 'negative_case': k == 0}
            path = os.path.join(tmp, 'job%d.json' % k)
            with open(path, 'w') as f:
                json.dump(payload, f)
            jobs.append(path)
        from concurrent.futures import ThreadPoolExecutor

        def run(path):
            pr = subprocess.run([sys.executable, os.path.abspath(__file__), '--worker', path],
                                capture_output=True, text=True, cwd=tmp, timeout=550)
            lines = [ln for ln in pr.stdout.strip().splitlines() if ln.strip()]
            try:
                return json.loads(lines[-1])
            except Exception:
                return {'cases': 1, 'failures': [{'clause': 'worker crashed', 'case': {'job': os.path.basename(path)},
                                                  'expected': 'json', 'got': (pr.stderr or pr.stdout)[-400:]}]}
        with ThreadPoolExecutor(max_workers=min(8, os.cpu_count() or 2)) as ex:
            for res in ex.map(run, jobs):
                cases += res['cases']
                failures += res['failures']
    finally:
        shutil.rmtree(tmp, ignore_errors=True)
    bound = ('%d random panel tables (%s individuals x %s rows, ids from small/gapped/negative/large/float pools, '
             'formulas lin/exp/logit, R in {1,2,3,5}); every order of the individuals (sampled above %d) x '
             'identity/reversed/random row orders; engine path + BIOGEME likelihood/simulate with 1-3 threads; '
             'non-contiguous tables refused' % (n_datasets, '1-4' if tier == 'quick' else '1-6',
                                                '1-3' if tier == 'quick' else '1-4', 24 if tier == 'quick' else 40))
    print(json.dumps({'cases': cases, 'bound': bound, 'failures': failures[:60]}))
    return 0 if not failures else 1


if __name__ == '__main__':
    sys.exit(main())
