#!/bin/sh
# Nothing is fetched or built: checks interpreters, solvers and the repository only.
set -e
python3-vt -c "import z3, sys; assert z3.get_version_string().startswith('5.'), z3.get_version_string(); print('z3', z3.get_version_string(), 'python', sys.version.split()[0])"
/venv/bin/python -c "import biogeme, numpy, pandas; print('biogeme from', biogeme.__file__)"
test -d /repo/src/biogeme
echo setup ok
