"""libext (C12, round 2, agent c12c): `dict(chain(*(f(e).items() for e in L)))`, the body of Expression.dict_of_elementary_expression.

SCOPE: active only while `biogeme.expressions.base_expressions.Expression.dict_of_elementary_expression` is verified for C12.

LIBSPEC dict(chain(*(D_e.items() for e in L)))  (L a list of unknown length, D_e a dictionary): a NEW dictionary whose KEY SET is
the union of the key sets of the D_e:   x in result  <=>  exists k < len(L): x in D_{L[k]}   (skolemised, no lambda).  Its values,
its length and the order of its keys are left unconstrained (every behaviour of the real call is included): only the names
matter to the property.
"""
import ast as _ast

import z3

from pyvc import symexec as _symexec
from pyvc.state import Unsupported
from pyvc.vals import ANY, I, STR, TDict, Val, as_ref, fresh_int, fresh_name, v_ref

_Q = 'biogeme.expressions.base_expressions.Expression.dict_of_elementary_expression'
_orig_e_call = _symexec.Executor._e_Call


def _mine(ex):
    return ex.ctx.prop == 'C12' and ex.frames and ex.frames[0].func is not None and ex.frames[0].func.qualname == _Q


def _match(node):
    """dict(chain(*( <call>.items() for <target> in <iter> ))) -> (target, iter, call) or None"""
    if not (isinstance(node.func, _ast.Name) and node.func.id == 'dict' and len(node.args) == 1 and not node.keywords):
        return None
    c = node.args[0]
    if not (isinstance(c, _ast.Call) and isinstance(c.func, _ast.Name) and c.func.id == 'chain' and len(c.args) == 1
            and isinstance(c.args[0], _ast.Starred) and isinstance(c.args[0].value, _ast.GeneratorExp)):
        return None
    g = c.args[0].value
    if len(g.generators) != 1 or g.generators[0].ifs:
        return None
    e = g.elt
    if not (isinstance(e, _ast.Call) and isinstance(e.func, _ast.Attribute) and e.func.attr == 'items' and not e.args):
        return None
    return g.generators[0].target, g.generators[0].iter, e.func.value


def _e_Call(self, st, node):
    m = _match(node) if _mine(self) and not st.spec and not st.bound and not st.guards else None
    if m is None:
        return _orig_e_call(self, st, node)
    from specs.c12c_nests import union_of_doms
    target, it, inner = m
    outer = self.ev(st, it)
    if outer.kind != 'list':
        raise Unsupported(f'c12c dict(chain(*...)) over a {outer.kind}')
    n = st.list_len(outer)

    def dom_at(k):
        saved = dict(st.locals)
        st.bound.append((k, z3.And(k >= 0, k < n)))
        try:
            self.assign(st, target, st.list_get(outer, k))
            d = self.ev(st, inner)
        finally:
            st.bound.pop()
            st.locals = saved
        if d.kind != 'dict':
            raise Unsupported(f'c12c dict(chain(*...)): the generator yields items of a {d.kind}')
        return st.read(as_ref(d), '$dom')
    D = union_of_doms(st, n, dom_at, ())
    r = st.new_ref('dict')
    ln = fresh_int('chainlen')
    st.assume(ln >= 0)
    st.write(r, '$len', ln)
    st.write(r, '$elems', z3.Const(fresh_name('chainkeys'), z3.ArraySort(I, Val)))
    st.write(r, '$dom', D)
    st.write(r, '$map', z3.Const(fresh_name('chainmap'), z3.ArraySort(Val, Val)))
    self.ctx.note('LIBSPEC(c12c) dict(chain(*(D.items() for e in L))): a new dictionary whose key set is the union of the key sets '
                  '(values / order unconstrained)')
    return v_ref(r, None).with_ty(TDict(STR, ANY))


_symexec.Executor._e_Call = _e_Call

