"""libext (C05 round 3, agent c05d): engine pieces the cross-nested builders need on top of pyvc/libext/c05c_tree.py.

SCOPE: active only while a function of property C05 is verified AND contracts/c05d_nodes.py has been loaded (ENABLED);
nothing changes for any other property or for C05 runs that do not list the c05d modules.

LIBSPEC float.is_integer():  x.is_integer() <=> x is an integer-valued real (same LIBSPEC as libext/c12_ext.py and
        libext/c17d_ext.py, which are scoped to C12 / C17); used by PowerConstant.__init__.
LIBSPEC float(x) of an untyped number is the number (bool: 1.0 / 0.0) (same as libext/c17d_ext.py); used by Expression.__pow__.
ENGINE  `lst += [a]` with a list DISPLAY on the right = lst.append(a) (same as libext/c17d_ext.py): plain array stores.
"""
import z3 as _z3

from pyvc import lib as _lib
from pyvc.vals import Val as _Val, as_real as _as_real, v_bool as _v_bool

ENABLED = False
PROP = 'C05'


def _mine(ex):
    return ENABLED and ex.ctx.prop == PROP


_orig_value_method = _lib.value_method


def _value_method(ex, st, recv, name, args, kwargs, node):
    if _mine(ex) and name == 'is_integer' and recv.kind in ('real', 'int') and not args:
        ex.ctx.note('LIBSPEC float.is_integer(): the value is an integer-valued real')
        return _v_bool(_z3.IsInt(_as_real(recv)))
    return _orig_value_method(ex, st, recv, name, args, kwargs, node)


_lib.value_method = _value_method

_orig_list_extend = _lib.list_extend


def _list_extend(ex, st, lst, other):
    if (_mine(ex) and lst.kind == 'list' and other.kind == 'list' and other.items is not None
            and 0 < len(other.items) <= 4 and not st.spec):
        for it in other.items:
            _lib.list_method(ex, st, lst, 'append', [it], {}, None)
        return
    return _orig_list_extend(ex, st, lst, other)


_lib.list_extend = _list_extend

_orig_b_float = _lib.BUILTINS['float']


def _b_float(ex, st, args, kw, node):
    r = _orig_b_float(ex, st, args, kw, node)
    if _mine(ex) and len(args) == 1 and args[0].kind in ('any', 'opt') and args[0].t is not None and r.t is not None:
        t = args[0].t
        st.assume(_z3.Implies(_Val.is_num(t), _as_real(r) == _Val.nv(t)))
        st.assume(_z3.Implies(_Val.is_b(t), _as_real(r) == _z3.If(_Val.bv(t), _z3.RealVal(1), _z3.RealVal(0))))
        ex.ctx.note('LIBSPEC float(x): float of a number is the number, float(True) == 1.0, float(False) == 0.0')
    return r


_lib.BUILTINS['float'] = _b_float


# ---- attribute / method of an untyped receiver whose class is entailed by the path (Expression.__pow__ only) ------------
# ENGINE  `if isinstance(other, Numeric): ... other.get_value()`: re-typing by ENTAILMENT from the path condition, the
#         function _refined of pyvc/libext/c17d_ext.py (nothing is assumed: a failed solver check leaves the core behaviour).
#         Active only while Expression.__pow__ is verified for C05.
from pyvc import symexec as _symexec             # noqa: E402
from pyvc.libext import c17d_ext as _c17         # noqa: E402

REFINE_IN = ('Expression.__pow__',)
_orig_get_attr = _symexec.Executor.get_attr


def _get_attr(self, st, obj, name, node=None):
    if _mine(self) and obj.kind == 'any' and not st.spec and str(getattr(self.ctx, 'fn_label', '')).endswith(REFINE_IN):
        obj = _c17._refined(self, st, obj)
    return _orig_get_attr(self, st, obj, name, node)


_symexec.Executor.get_attr = _get_attr


# ---- set(x) / x.difference(y) with an Optional argument ---------------------------------------------------------------
# ENGINE  `set(nests.alone)` where alone: set | None: Python raises TypeError for set(None); the use becomes the obligation
#         safe:none (not None on this path) and the inner set is used (same rule as c05c_tree for `for x in opt`).
_orig_b_set = _lib.BUILTINS['set']


def _b_set(ex, st, args, kw, node):
    if _mine(ex) and len(args) == 1 and args[0].kind == 'opt' and not st.spec:
        args = [ex.unopt(st, args[0], node, 'set()')]
    return _orig_b_set(ex, st, args, kw, node)


_lib.BUILTINS['set'] = _b_set


# ---- iteration over a set whose membership array is a lambda (set difference) ----------------------------------------
# ENGINE  `for i in set(util).difference(set(nests.alone))`: the core builds the difference as an array lambda; the set
#         enumeration axioms (c19_sets.set_enum_axioms, used by c05c_tree) take the membership array as a pattern, which z3
#         rejects for a lambda.  The lambda is given a NAME first: a fresh array constant A with the pointwise axiom
#         forall x. A[x] == body(x) (the encoding of lib.mk_array with PYVC_NAMED_ARRAYS=1: the same theory).
from pyvc.vals import as_ref as _as_ref, fresh_name as _fresh_name      # noqa: E402

_orig_iter_view = _lib.iter_view


def _iter_view(ex, st, v, node=None):
    if _mine(ex) and v.kind == 'set' and not st.bound:
        dom = _z3.simplify(st.set_dom(v))
        if '(lambda ' in dom.sexpr():
            a = _z3.Const(_fresh_name('setdom'), dom.sort())
            x = _z3.Const(_fresh_name('x'), dom.sort().domain())
            body = _z3.substitute_vars(dom.body(), x) if (_z3.is_quantifier(dom) and dom.is_lambda() and dom.num_vars() == 1) else _z3.Select(dom, x)
            st.pc.append(_z3.ForAll([x], _z3.Select(a, x) == body, patterns=[_z3.Select(a, x)]))
            st.write(_as_ref(v), '$dom', a)
    return _orig_iter_view(ex, st, v, node)


_lib.iter_view = _iter_view


# the enumeration axioms read the membership array back from the heap unsimplified (select(store(...)) over a heap array that
# also holds the lambdas of the intermediate sets): same axioms, stated over the simplified (named) array
from pyvc.libext import c19_sets as _c19                                  # noqa: E402
from pyvc import vals as _VV                                              # noqa: E402
from pyvc.vals import I as _I, uf as _uf                                  # noqa: E402

_orig_set_enum_axioms = _c19.set_enum_axioms


def _set_enum_axioms(ex, st, v):
    if not _mine(ex):
        return _orig_set_enum_axioms(ex, st, v)
    dom = _z3.simplify(st.set_dom(v))
    if '(lambda ' in dom.sexpr():
        return _orig_set_enum_axioms(ex, st, v)
    DOM = _z3.ArraySort(_Val, _VV.B)
    r = _as_ref(v)
    n = _uf('set_card', _I, DOM, _I)(r, st.set_dom(v))        # the term the core's view uses for the length
    en = _uf('set_enum', DOM, _I, _Val)
    idx = _uf('set_idx', DOM, _Val, _I)
    i = _z3.Int(_fresh_name('si'))
    x = _z3.Const(_fresh_name('sx'), _Val)
    st.assume(st.set_dom(v) == dom)
    st.assume(n >= 0)
    st.assume(_z3.ForAll([i], _z3.Implies(_z3.And(i >= 0, i < n),
                                          _z3.And(_z3.Select(dom, en(dom, i)), idx(dom, en(dom, i)) == i)),
                         patterns=[en(dom, i)]))
    st.assume(_z3.ForAll([x], _z3.Implies(_z3.Select(dom, x),
                                          _z3.And(idx(dom, x) >= 0, idx(dom, x) < n, en(dom, idx(dom, x)) == x)),
                         patterns=[_z3.Select(dom, x), idx(dom, x)]))
    ex.ctx.note('LIBSPEC set iteration axioms: members <-> enumerated positions (bijection on [0, len))')


_c19.set_enum_axioms = _set_enum_axioms


# ---- a local whose source annotation is WRONG -------------------------------------------------------------------------
# ENGINE  `gi_terms: dict[int, Expression] = {}` (models/cnl.py): the core re-types the empty display with the annotation of
#         the source, so `gi_terms[i] += [term]` was modelled as Expression.__add__(list) (a raising path) instead of the
#         in-place extension of the list stored under i.  The dictionary really holds lists of Expression nodes
#         (`gi_terms[i] = []`, `gi_terms[i] += [a ** mu * exp(.) * biosum ** (.)]`): for the functions listed here the local is
#         typed by LOCAL_TYPES instead of the source annotation (A-ANNOT of this module, listed in props/C05.py).
LOCAL_TYPES = {('get_mev_for_cross_nested', 'gi_terms'): 'dict[int, list[Expression]]',
               ('get_mev_for_cross_nested_mu', 'gi_terms'): 'dict[int, list[Expression]]'}
_orig_annassign = _symexec.Executor._s_AnnAssign


def _s_AnnAssign(self, st, node):
    import ast
    if _mine(self) and node.value is not None and isinstance(node.target, ast.Name) and self.frame.func is not None:
        ty = LOCAL_TYPES.get((self.frame.func.name, node.target.id))
        if ty is not None:
            v = self.ev(st, node.value)
            if v.kind == 'dict':
                v = v.with_ty(self.ptype(ty))
                self.ctx.note(f'A-ANNOT c05d: local `{node.target.id}` typed {ty} (the source annotation '
                              f'`{ast.unparse(node.annotation)}` does not describe the values the function stores)')
                self.assign(st, node.target, v)
                from pyvc.symexec import Outcome
                return [Outcome('normal', st)]
    return _orig_annassign(self, st, node)


_symexec.Executor._s_AnnAssign = _s_AnnAssign

# the set iterated by the most recent `for x in <set>` statement (read by the spec function c05d_iter_elem)
LAST_SET = {}
_prev_iter_view = _lib.iter_view


def _iter_view2(ex, st, v, node=None):
    view = _prev_iter_view(ex, st, v, node)
    if _mine(ex) and v.kind == 'set' and not st.bound and not st.spec:
        LAST_SET['view'] = view
    return view


_lib.iter_view = _iter_view2
