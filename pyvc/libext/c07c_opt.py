"""libext (C07, round 2, tag c07c): the optimisation glue of biogeme.optimization / BIOGEME.optimize.

SCOPE: every handler is active only while a function of property C07 is verified (ctx.prop == 'C07');
otherwise the core behaviour is unchanged.

OPT-SPEC (assumed, third party): scipy.optimize.minimize and the biogeme_optimization routines
(newton_line_search, bfgs_line_search, newton_trust_region, bfgs_trust_region, simple_bounds_newton_algorithm)
are OPAQUE calls.  Nothing is known about what they return (a fresh result object with unconstrained fields);
what they RECEIVE is recorded in ghost state (State.ghost['c07c:calls'], a tuple of call records) so that the
postconditions of the wrappers can state what was handed over (specs/c07c_specs.py: opt_ncalls, opt_callee,
opt_sig, opt_arg, opt_result, opt_bounds_ok, opt_options_ok, opt_objective_is_f_g).
  * list / dict arguments are recorded twice: the object itself (identity) and a content snapshot taken at the
    time of the call;
  * a closure handed as objective (scipy) is PROBED: it is executed once, symbolically, on a generic point x and
    the value it returns is recorded (so that `objective(x) == (fct.f_g at x).function, .gradient` is an obligation);
  * biogeme_optimization.bounds.Bounds(L), scipy.optimize.Bounds(lb=, ub=), numpy.array(L): record objects that
    remember the sequence they were built from (None -> -inf/+inf is then an obligation on the elements).
LIBSPEC FunctionToMinimize (biogeme_optimization.function, read from the shipped source):
  set_variables(x) stores x; f() / f_g() / f_g_h() are uninterpreted functions of (object, stored x);
  __init__(epsilon, steptol): self.epsilon = default if epsilon is None else epsilon, same for steptol, self.x = None.
ENGINE  a repo function whose contract speaks about the ghost call record is always INLINED at its call sites
  (bio_newton / bio_bfgs -> simple_bounds_newton_algorithm_for_biogeme): the modular rule only transports heap
  effects, it would not transport the ghost record.
ENGINE  `opt.algorithms.get(name)`: the module-level table of biogeme.optimization is read from the real AST:
  the result is the table entry (an opaque constant per function) for the literal keys, None for every other name.
  Calling the value obtained from the table is an opaque recorded call as well (callee = the table entry).
"""
import ast

import z3

from pyvc import lib
from pyvc import symexec as _SE
from pyvc import vals as VV
from pyvc.state import Unsupported
from pyvc.vals import (ANY, BOOL, MAT, REAL, I, TDict, TList, TRef, V, Val, as_ref, fresh_name, fresh_val, is_none,
                       uf, v_none, v_py, v_ref, v_str)

PROP = 'C07'
GHOST = 'c07c:calls'
OBJ = 'c07c:obj:'          # python-side knowledge about record objects built on the way (keyed by z3 id of the reference)

OPTIMISERS = {
    'biogeme_optimization.linesearch.newton_line_search',
    'biogeme_optimization.linesearch.bfgs_line_search',
    'biogeme_optimization.trust_region.newton_trust_region',
    'biogeme_optimization.trust_region.bfgs_trust_region',
    'biogeme_optimization.simple_bounds.simple_bounds_newton_algorithm',
    'scipy.optimize.minimize',
}
# record classes of the dependencies (constructor stores its arguments / result objects with these fields)
RECORDS = {
    'OptimizationResults': ['solution', 'messages', 'convergence'],
    'OptimizeResult': ['x', 'message', 'nit', 'nfev', 'success', 'fun', 'jac', 'status'],
}
# functions whose contracts mention the ghost record: never applied modularly
GHOST_SPEAKING_PREFIX = 'biogeme.optimization.'


def _mine(ex):
    return ex.ctx.prop == PROP


def calls(st):
    return st.ghost.get(GHOST, ())


def algo_const(qualname: str):
    """The opaque value of a repo function stored in the algorithm table."""
    return z3.Const('c07c_func!' + qualname, Val)


ALGO_OF = uf('c07c_algorithm_of', I, Val)      # string atom -> table entry (none when absent)


# ---- snapshots -----------------------------------------------------------------------------------------------
def snapshot(ex, st, v):
    """Content of a list / dict at the time of a call, as VALUES (no heap object): the terms are captured now, so later
    stores cannot reach them and the solver does not have to read them back through the store chain of the heap.
    list -> ('specseq', length, elements, elem type); dict -> ('c07c_dictsnap', domain, map)."""
    if v.kind == 'list':
        n, arr, ety = lib.seq_parts(ex, st, v)
        return v_py(('specseq', z3.simplify(n), z3.simplify(arr), ety))
    if v.kind == 'dict':
        s = as_ref(v)
        return v_py(('c07c_dictsnap', z3.simplify(st.read(s, '$dom')), z3.simplify(st.read(s, '$map'))))
    return None


def record_call(ex, st, callee_t, callee_name, args, kwargs, node, result_cls, probe=None, note=None):
    if st.spec:
        raise Unsupported('optimiser call inside a specification')
    rec = {'callee': callee_t, 'name': callee_name, 'pos': list(args), 'kw': dict(kwargs),
           'snap': {}, 'probe': probe}
    for key, v in list(enumerate(args)) + list(kwargs.items()):
        if v.kind in ('list', 'dict'):
            rec['snap'][key] = snapshot(ex, st, v)
    r = st.new_ref(result_cls)
    res = v_ref(r, result_cls)
    for f in RECORDS[result_cls]:
        st.write(r, f, fresh_val(f'opt!{f}'))
    rec['result'] = res
    st.ghost[GHOST] = calls(st) + (rec,)
    ex.ctx.note(note or f'OPT-SPEC {callee_name}: opaque third-party call, result unconstrained, arguments recorded in ghost state')
    return res


# ---- FunctionToMinimize (library base class of NegativeLikelihood) -------------------------------------------
FTM = 'FunctionToMinimize'


def ftm_value(kind, obj_t, x_t, part):
    """`part` (function / gradient / hessian) of obj.<kind>() (kind: f, f_g, f_g_h) evaluated while obj.x == x."""
    return uf(f'c07c_ftm_{kind}_{part}', Val, Val, Val)(obj_t, x_t)


_orig_known_class = _SE.Executor.known_class


def _known_class(self, n):
    if self.ctx.prop == PROP and n == FTM:
        return FTM
    return _orig_known_class(self, n)


_SE.Executor.known_class = _known_class


@lib.hook('ref_method')
def _ftm_method(ex, st, recv, name, args, kwargs, node):
    if not _mine(ex) or recv.kind != 'ref' or recv.ty.cls != FTM:
        return None
    r = as_ref(recv)
    if name == 'set_variables' and len(args) == 1 and not kwargs:
        ex.ctx.note('LIBSPEC FunctionToMinimize.set_variables(x): stores x')
        st.write(r, 'x', ex.box(st, args[0]))
        return v_none()
    if name in ('f', 'f_g', 'f_g_h') and not args and not kwargs:
        ex.ctx.note(f'LIBSPEC FunctionToMinimize.{name}(): uninterpreted function of the object and of the stored point')
        x_t = st.read(r, 'x')
        if name == 'f':
            return V(ftm_value('f', recv.t, x_t, 'function'), REAL)
        parts = {'function': V(ftm_value(name, recv.t, x_t, 'function'), ANY),
                 'gradient': V(ftm_value(name, recv.t, x_t, 'gradient'), ANY),
                 'hessian': V(ftm_value(name, recv.t, x_t, 'hessian'), ANY) if name == 'f_g_h' else v_none()}
        return lib.call_lib(ex, st, 'biogeme_optimization.function.FunctionData', [], parts, node)
    raise Unsupported(f'FunctionToMinimize.{name}: no LIBSPEC')


@lib.hook('ref_attr')
def _record_attr(ex, st, obj, name, node):
    if not _mine(ex) or obj.kind != 'ref':
        return None
    if obj.ty.cls in RECORDS and name in RECORDS[obj.ty.cls]:
        return V(st.read(as_ref(obj), name), ANY)
    info = st.ghost.get(OBJ + str(as_ref(obj).get_id()))
    if info is not None and name in info.get('fields', {}):
        return info['fields'][name]
    return None


# ---- library calls -------------------------------------------------------------------------------------------
_orig_call_lib = lib.call_lib


def _probe_closure(ex, st, fv, node):
    """Execute a closure handed as objective on a generic point; (x, value returned)."""
    x = V(fresh_val('c07c!x'), MAT)
    sub = st.copy()
    res = ex.call(sub, fv, [x], {}, node)
    return {'x': x, 'value': res, 'heap': dict(sub.heap)}


def _call_lib(ex, st, dotted, args, kwargs, node):
    if not _mine(ex):
        return _orig_call_lib(ex, st, dotted, args, kwargs, node)
    if dotted in OPTIMISERS:
        probe = None
        if dotted == 'scipy.optimize.minimize':
            fv = args[0] if args else kwargs.get('fun')
            if fv is not None and fv.kind == 'py' and fv.py[0] in ('closure', 'lambda'):
                probe = _probe_closure(ex, st, fv, node)
        cls = 'OptimizeResult' if dotted == 'scipy.optimize.minimize' else 'OptimizationResults'
        return record_call(ex, st, Val.s(VV.ATOMS.atom(dotted)), dotted, args, kwargs, node, cls, probe)
    if dotted == 'biogeme_optimization.diagnostics.OptimizationResults':
        names = RECORDS['OptimizationResults']
        vals_ = dict(zip(names, args))
        vals_.update(kwargs)
        if set(vals_) != set(names):
            raise Unsupported('OptimizationResults(...) with missing / unknown fields')
        r = st.new_ref('OptimizationResults')
        for nme in names:
            st.write(r, nme, ex.box(st, vals_[nme]))
        return v_ref(r, 'OptimizationResults')
    if dotted == 'biogeme_optimization.bounds.Bounds':
        src = args[0] if args else kwargs.get('bounds')
        if src is None or len(args) + len(kwargs) != 1:
            raise Unsupported('Bounds(...) with unexpected arguments')
        r = st.new_ref('BioBounds')
        out = v_ref(r, 'BioBounds')
        st.ghost[OBJ + str(r.get_id())] = {'what': 'bio_bounds', 'src': src,
                                           'snap': snapshot(ex, st, src) if src.kind == 'list' else None, 'fields': {}}
        ex.ctx.note('OPT-SPEC biogeme_optimization.bounds.Bounds(L): record of the list it was built from '
                    '(None -> -/+ infinity happens inside the library)')
        return out
    if dotted == 'scipy.optimize.Bounds':
        vals_ = dict(zip(['lb', 'ub', 'keep_feasible'], args))
        vals_.update(kwargs)
        r = st.new_ref('ScipyBounds')
        st.ghost[OBJ + str(r.get_id())] = {'what': 'scipy_bounds', 'fields': vals_}
        ex.ctx.note('OPT-SPEC scipy.optimize.Bounds(lb, ub): record of its arguments')
        return v_ref(r, 'ScipyBounds')
    if dotted in ('numpy.array', 'numpy.asarray') and args and args[0].kind == 'list':
        r = st.new_ref('NdArrayOfList')
        st.ghost[OBJ + str(r.get_id())] = {'what': 'ndarray_of', 'ref': r, 'src': args[0], 'snap': snapshot(ex, st, args[0]), 'fields': {}}
        ex.ctx.note('LIBSPEC numpy.array(list): an array holding the elements of the list (record of a snapshot)')
        return v_ref(r, 'NdArrayOfList')
    return _orig_call_lib(ex, st, dotted, args, kwargs, node)


lib.call_lib = _call_lib


# ---- {**a, **b} with an Optional dict that was tested against None ----------------------------------------------
_orig_dict_update = lib.dict_update


def _dict_update(ex, st, d, src):
    if _mine(ex) and src.kind == 'opt' and src.ty.args[0].kind == 'dict':
        src = ex.unopt(st, src, None, 'dict-update')
    if _mine(ex) and src.kind == 'dict':
        st.assume_wf_dict(src)
    return _orig_dict_update(ex, st, d, src)


lib.dict_update = _dict_update


# ---- the algorithm table of biogeme.optimization -------------------------------------------------------------------
def algorithm_table(repo):
    """[(name, qualname of the function)] of `algorithms = {...}` in the real AST of biogeme/optimization.py."""
    mi = repo.modules.get('biogeme.optimization')
    g = mi.globals_.get('algorithms') if mi is not None else None
    if not isinstance(g, ast.Dict):
        raise Unsupported('biogeme.optimization.algorithms is not a dict display')
    out = []
    for k, v in zip(g.keys, g.values):
        if not (isinstance(k, ast.Constant) and isinstance(k.value, str) and isinstance(v, ast.Name) and v.id in mi.functions):
            raise Unsupported('biogeme.optimization.algorithms: entry that is not `"name": function`')
        out.append((k.value, mi.functions[v.id].qualname))
    if len({k for k, _ in out}) != len(out):
        raise Unsupported('biogeme.optimization.algorithms: duplicate key')
    return out


def table_entry(ex, st, name_v):
    """algorithms.get(name): the entry for the literal keys of the table, None otherwise (facts assumed in st)."""
    tab = algorithm_table(ex.repo)
    at = VV.as_atom(name_v)
    for k, q in tab:
        st.pc.append(ALGO_OF(VV.ATOMS.atom(k)) == algo_const(q))
        st.pc.append(z3.Not(Val.is_none(algo_const(q))))
    a = z3.Int(fresh_name('a'))
    st.pc.append(z3.ForAll([a], z3.Implies(z3.And(*[a != VV.ATOMS.atom(k) for k, _ in tab]), ALGO_OF(a) == Val.none),
                           patterns=[ALGO_OF(a)]))
    ex.ctx.note('ENGINE biogeme.optimization.algorithms.get(name): table read from the real AST (entry for the literal keys, None otherwise)')
    return V(ALGO_OF(at), ANY)


_orig_py_attr = _SE.Executor.py_attr


def _py_attr(self, st, obj, name, node):
    p = obj.py
    if _mine(self) and p[0] == 'modglobal' and p[1] == 'biogeme.optimization' and p[2] == 'algorithms' and name == 'get':
        return v_py(('c07c_algoget',))
    return _orig_py_attr(self, st, obj, name, node)


_SE.Executor.py_attr = _py_attr


def _is_table_entry(t) -> bool:
    seen, todo = set(), [t]
    while todo:
        e = todo.pop()
        if e.get_id() in seen:
            continue
        seen.add(e.get_id())
        if z3.is_app(e):
            if e.decl().name() == 'c07c_algorithm_of':
                return True
            todo.extend(e.children())
    return False


_orig_call = _SE.Executor.call


def _call(self, st, fv, args, kwargs, node):
    if _mine(self) and fv.kind in ('any', 'opt') and fv.t is not None and _is_table_entry(fv.t):
        return record_call(self, st, fv.t, 'biogeme.optimization.algorithms[...]', args, kwargs, node, 'OptimizationResults',
                           note='ENGINE call of an entry of biogeme.optimization.algorithms: opaque recorded call, result unconstrained '
                                '(the eight wrappers are verified separately against their own contracts)')
    return _orig_call(self, st, fv, args, kwargs, node)


_SE.Executor.call = _call


# ---- python-level objects: algorithms.get, super().__init__ of a library base --------------------------------------
_orig_call_pyobj = lib.call_pyobj


def _call_pyobj(ex, st, fv, args, kwargs, node):
    p = fv.py
    if _mine(ex) and p[0] == 'c07c_algoget':
        if len(args) != 1 or kwargs:
            raise Unsupported('algorithms.get with a default')
        return table_entry(ex, st, args[0])
    if _mine(ex) and p[0] == 'c07c_ftm_init':
        selfv = p[1]
        vals_ = dict(zip(['epsilon', 'steptol'], args))
        vals_.update(kwargs)
        if set(vals_) - {'epsilon', 'steptol'}:
            raise Unsupported('FunctionToMinimize.__init__ with unknown arguments')
        r = as_ref(selfv)
        for nme in ('epsilon', 'steptol'):
            a = vals_.get(nme, v_none())
            default = z3.Const(f'c07c_ftm_default_{nme}', Val)
            st.write(r, nme, z3.If(is_none(a), default, ex.box(st, a)) if a.kind != 'none' else default)
        st.write(r, 'x', Val.none)
        ex.ctx.note('LIBSPEC FunctionToMinimize.__init__(epsilon, steptol): stores each argument, or the library default when None; x = None')
        return v_none()
    return _orig_call_pyobj(ex, st, fv, args, kwargs, node)


lib.call_pyobj = _call_pyobj

_orig_pyobj_attr = lib.pyobj_attr


def _pyobj_attr(ex, st, obj, name):
    p = obj.py
    if _mine(ex) and p[0] == 'super' and name == '__init__':
        _, selfv, cls, module = p
        ci = ex.repo.find_class(cls, module)
        if ci is not None and not any('__init__' in c.methods for c in ex.repo.mro(ci)[1:]) \
                and any(b.split('.')[-1] == FTM for b in ci.bases):
            return v_py(('c07c_ftm_init', selfv))
    return _orig_pyobj_attr(ex, st, obj, name)


lib.pyobj_attr = _pyobj_attr


# ---- ghost-speaking contracts are never applied modularly -------------------------------------------------------------
_orig_call_repo_function = _SE.Executor.call_repo_function
_SKIP: set = set()

from pyvc.contract import Registry as _Registry

_orig_registry_get = _Registry.get


def _registry_get(self, qualname, self_class=None):
    if qualname in _SKIP:
        return None
    return _orig_registry_get(self, qualname, self_class)


_Registry.get = _registry_get


def _call_repo_function(self, st, fi, args, kwargs, node, recv_cls=None):
    if _mine(self) and fi.qualname.startswith(GHOST_SPEAKING_PREFIX) and fi.qualname not in _SKIP \
            and fi.qualname in self.ctx.registry.contracts:
        _SKIP.add(fi.qualname)
        try:
            return _orig_call_repo_function(self, st, fi, args, kwargs, node, recv_cls=recv_cls)
        finally:
            _SKIP.discard(fi.qualname)
    return _orig_call_repo_function(self, st, fi, args, kwargs, node, recv_cls=recv_cls)


_SE.Executor.call_repo_function = _call_repo_function
