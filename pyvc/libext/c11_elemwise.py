"""C11 engine extension: an element-wise symbolic executor for numpy array code.

pyvc's core models ndarrays as opaque values (`mat`/`vec` with uninterpreted operators), which
cannot express "the value stored at one position of the result".  This module executes the REAL
AST of a function of /repo symbolically under the assumption A-ELEMWISE:

    every array is described by its shape (a tuple of integer terms) and by the real-valued term
    of its element at one generic flat position P (C order); arithmetic, comparisons, numpy
    ufuncs, boolean-mask loads/stores (`x[m] = f(y[m])`), list comprehensions over `range(n)`,
    `.shape = ...` (reshape keeps the flat order), `np.concatenate(..., axis=1)` of two aligned
    parts, `np.random.uniform` (fresh values in [0,1)), `np.random.shuffle` (an unknown
    permutation of the positions) are interpreted position-wise.  sqrt and log are
    uninterpreted real functions (A-TRANSC), floats are reals (A-REAL).

The result of a run is a list of paths (path condition, assumptions, returned value); the
contracts in /verif/contracts/c11_draws.py turn them into proof obligations for z3 (all inputs,
all sizes).  Anything outside the subset raises `Unsup` -> the obligation is undecided, never
counted as proved.  Importing this module has no side effect on the pyvc core.
"""
from __future__ import annotations

import ast
from dataclasses import dataclass, field
from fractions import Fraction

import z3

R = z3.RealSort()
P = z3.Int('P')                       # the generic flat position
SQRT = z3.Function('sqrt', R, R)
LOG = z3.Function('log', R, R)
EXP = z3.Function('exp', R, R)

_counter = [0]


def fresh(prefix: str) -> str:
    _counter[0] += 1
    return f'{prefix}!{_counter[0]}'


class Unsup(Exception):
    """Construct outside the element-wise subset."""


# ---------------------------------------------------------------------------
# values
# ---------------------------------------------------------------------------
class Arr:
    """ndarray: shape (tuple of z3 Int terms), term of the element at flat position P.
    `tag` is the mask under which a masked load (`x[m]`) was taken (None: full array)."""

    def __init__(self, shape, elem, tag=None, source=None):
        self.shape = tuple(shape)
        self.elem = elem
        self.tag = tag
        self.source = source          # provenance label (rng / parameter / comprehension)

    @property
    def is_mask(self):
        return z3.is_bool(self.elem)

    def size(self):
        s = z3.IntVal(1)
        for d in self.shape:
            s = s * d
        return z3.simplify(s)


class Cat:
    """np.concatenate(parts, axis) of 2-D arrays; parts keep their own position P."""

    def __init__(self, parts, axis):
        self.parts = list(parts)
        self.axis = axis

    @property
    def shape(self):
        a = self.parts[0].shape
        if self.axis == 1 and all(len(p.shape) == 2 for p in self.parts):
            cols = self.parts[0].shape[1]
            for p in self.parts[1:]:
                cols = cols + p.shape[1]
            return (a[0], z3.simplify(cols))
        raise Unsup('shape of this concatenation')


@dataclass
class FuncRef:
    fi: object                        # pyvc.repo.FuncInfo


@dataclass
class ModRef:
    dotted: str


@dataclass
class GenParam:
    """A callable parameter following the generator protocol (sample_size, number_of_draws) -> array."""
    name: str


@dataclass
class RangeV:
    n: object


@dataclass
class Opaque:
    what: str


# ---------------------------------------------------------------------------
# scalar helpers
# ---------------------------------------------------------------------------
def is_z3(v):
    return isinstance(v, z3.ExprRef)


def to_z3(v):
    if is_z3(v):
        return v
    if isinstance(v, bool):
        return z3.BoolVal(v)
    if isinstance(v, int):
        return z3.IntVal(v)
    if isinstance(v, float):
        return z3.RealVal(str(Fraction(v)))
    if isinstance(v, Fraction):
        return z3.RealVal(str(v))
    raise Unsup(f'not a number: {v!r}')


def to_real(v):
    t = to_z3(v)
    if z3.is_int(t):
        return z3.ToReal(t)
    if z3.is_bool(t):
        raise Unsup('bool used as a number')
    return t


def to_bool(v):
    if isinstance(v, bool):
        return z3.BoolVal(v)
    if is_z3(v) and z3.is_bool(v):
        return v
    raise Unsup(f'not a boolean: {v!r}')


def _arith(op, a, b):
    """a op b for scalar terms (python numbers or z3 terms)."""
    if not is_z3(a) and not is_z3(b) and not isinstance(a, bool) and not isinstance(b, bool):
        if isinstance(a, (int, float)) and isinstance(b, (int, float)):
            if op == '+':
                return a + b
            if op == '-':
                return a - b
            if op == '*':
                return a * b
            if op == '/':
                return a / b
            if op == '**':
                return a ** b
            if op == '%':
                return a % b
            if op == '//':
                return a // b
    if op == '**':
        if isinstance(b, int) and 0 <= b <= 16:
            acc = 1
            for _ in range(b):
                acc = _arith('*', acc, a)
            return acc
        raise Unsup('power with a symbolic exponent')
    za, zb = to_z3(a), to_z3(b)
    if op == '/':
        return to_real(za) / to_real(zb)
    if z3.is_int(za) and z3.is_int(zb):
        if op == '%':
            return za % zb
        if op == '//':
            return za / zb
    else:
        za, zb = to_real(za), to_real(zb)
    if op == '+':
        return za + zb
    if op == '-':
        return za - zb
    if op == '*':
        return za * zb
    raise Unsup(f'operator {op}')


def _compare(op, a, b):
    if not is_z3(a) and not is_z3(b):
        return {'<': a < b, '<=': a <= b, '>': a > b, '>=': a >= b, '==': a == b, '!=': a != b}[op]
    za, zb = to_z3(a), to_z3(b)
    if z3.is_bool(za) or z3.is_bool(zb):
        if op == '==':
            return to_bool(za) == to_bool(zb)
        if op == '!=':
            return to_bool(za) != to_bool(zb)
        raise Unsup('ordering of booleans')
    if z3.is_int(za) != z3.is_int(zb):
        za, zb = to_real(za), to_real(zb)
    return {'<': za < zb, '<=': za <= zb, '>': za > zb, '>=': za >= zb, '==': za == zb, '!=': za != zb}[op]


def same_shape(a, b) -> bool:
    if len(a) != len(b):
        return False
    return all(z3.is_true(z3.simplify(x == y)) or z3.eq(z3.simplify(x), z3.simplify(y)) for x, y in zip(a, b))


_OPS = {ast.Add: '+', ast.Sub: '-', ast.Mult: '*', ast.Div: '/', ast.Pow: '**', ast.Mod: '%', ast.FloorDiv: '//'}
_CMP = {ast.Lt: '<', ast.LtE: '<=', ast.Gt: '>', ast.GtE: '>=', ast.Eq: '==', ast.NotEq: '!='}


# ---------------------------------------------------------------------------
# state
# ---------------------------------------------------------------------------
class State:
    def __init__(self):
        self.frames: list[dict] = [{}]   # one dict of locals per active call (arrays may be shared between frames)
        self.pc: list = []            # branch conditions taken (z3 Bool)
        self.assume: list = []        # LIBSPEC facts (rng ranges, permutations)
        self.events: list = []        # ('rng', Arr) / ('shuffle', n, perm) / ('comprehension', Arr) / ('reshape', ...)
        self.oblig: list = []         # (label, z3 Bool) side conditions generated by the execution (reshape sizes, alignment)
        self.ret = None

    @property
    def env(self) -> dict:
        return self.frames[-1]

    def clone(self):
        memo: dict = {}

        def cp(v):
            if isinstance(v, Arr):
                if id(v) not in memo:
                    memo[id(v)] = Arr(v.shape, v.elem, v.tag, v.source)
                return memo[id(v)]
            if isinstance(v, Cat):
                if id(v) not in memo:
                    memo[id(v)] = Cat([cp(p) for p in v.parts], v.axis)
                return memo[id(v)]
            if isinstance(v, tuple):
                return tuple(cp(x) for x in v)
            if isinstance(v, list):
                return [cp(x) for x in v]
            return v
        s = State()
        s.frames = [{k: cp(v) for k, v in fr.items()} for fr in self.frames]
        s.pc = list(self.pc)
        s.assume = list(self.assume)
        s.events = [tuple(cp(x) for x in e) for e in self.events]
        s.oblig = list(self.oblig)
        s.ret = cp(self.ret)
        return s


@dataclass
class Path:
    status: str                       # 'return' | 'raise'
    state: State
    value: object = None
    exc: str = ''


# ---------------------------------------------------------------------------
# executor
# ---------------------------------------------------------------------------
class ElemExec:
    MAX_DEPTH = 5

    def __init__(self, repo):
        self.repo = repo
        self.notes: set[str] = set()

    # -- entry ---------------------------------------------------------------
    def run(self, fi, args: dict, pre: list | None = None) -> list[Path]:
        st = State()
        st.pc = list(pre or [])
        return self._run_function(fi, st, [], dict(args), depth=0)

    def _run_function(self, fi, st: State, pos: list, kw: dict, depth: int) -> list[Path]:
        if depth > self.MAX_DEPTH:
            raise Unsup('inlining depth')
        node = fi.node
        for d in fi.decorators:
            if d in ('deprecated_parameters',):
                self.notes.add('A-DECORATOR: @deprecated_parameters only renames obsolete keyword arguments')
            else:
                raise Unsup(f'decorator {d} on {fi.qualname}')
        a = node.args
        if a.vararg or a.kwarg or a.kwonlyargs or a.posonlyargs:
            raise Unsup('signature')
        params = [x.arg for x in a.args]
        defaults = [None] * (len(params) - len(a.defaults)) + list(a.defaults)
        env = {}
        module = self.repo.modules[fi.module]
        if len(pos) > len(params):
            raise Unsup('too many arguments')
        for nme, v in zip(params, pos):
            env[nme] = v
        for k, v in kw.items():
            if k not in params or k in env:
                raise Unsup(f'argument {k}')
            env[k] = v
        for nme, d in zip(params, defaults):
            if nme not in env:
                if d is None:
                    raise Unsup(f'missing argument {nme} of {fi.qualname}')
                env[nme] = self.ev(d, State(), module, depth)
        st.frames.append(env)
        outs = self.block(node.body, st, module, depth)
        res = []
        for status, s, val in outs:
            if status == 'normal':
                status, val = 'return', None
            s.frames.pop()
            res.append(Path(status, s, val if status == 'return' else None, val if status == 'raise' else ''))
        return res

    # -- statements ------------------------------------------------------------
    def block(self, stmts, st: State, module, depth):
        """-> list of (status, state, value); status normal | return | raise."""
        states = [st]
        done = []
        for node in stmts:
            nxt = []
            for s in states:
                for status, s2, val in self.stmt(node, s, module, depth):
                    if status == 'normal':
                        nxt.append(s2)
                    else:
                        done.append((status, s2, val))
            states = nxt
            if not states:
                break
        return done + [('normal', s, None) for s in states]

    def stmt(self, node, st: State, module, depth):
        if isinstance(node, ast.Expr):
            if isinstance(node.value, ast.Constant):
                return [('normal', st, None)]          # docstring
            self.ev(node.value, st, module, depth)
            return [('normal', st, None)]
        if isinstance(node, ast.Assign):
            v = self.ev(node.value, st, module, depth)
            for t in node.targets:
                self.assign(t, v, st, module, depth)
            return [('normal', st, None)]
        if isinstance(node, ast.AnnAssign):
            if node.value is not None:
                self.assign(node.target, self.ev(node.value, st, module, depth), st, module, depth)
            return [('normal', st, None)]
        if isinstance(node, ast.AugAssign):
            cur = self.ev(ast.Name(id=node.target.id, ctx=ast.Load()), st, module, depth) if isinstance(node.target, ast.Name) else None
            if cur is None:
                raise Unsup('augmented assignment target')
            v = self.binop(_OPS[type(node.op)], cur, self.ev(node.value, st, module, depth), st)
            st.env[node.target.id] = v
            return [('normal', st, None)]
        if isinstance(node, ast.Return):
            v = self.ev(node.value, st, module, depth) if node.value is not None else None
            return [('return', st, v)]
        if isinstance(node, ast.Raise):
            name = ''
            if node.exc is not None:
                f = node.exc.func if isinstance(node.exc, ast.Call) else node.exc
                name = ast.unparse(f).split('.')[-1]
            return [('raise', st, name)]
        if isinstance(node, ast.Pass):
            return [('normal', st, None)]
        if isinstance(node, ast.If):
            c = self.ev(node.test, st, module, depth)
            if isinstance(c, bool) or c is None:
                return self.block(node.body if c else node.orelse, st, module, depth)
            c = z3.simplify(to_bool(c))
            if z3.is_true(c):
                return self.block(node.body, st, module, depth)
            if z3.is_false(c):
                return self.block(node.orelse, st, module, depth)
            s1, s2 = st.clone(), st.clone()
            s1.pc.append(c)
            s2.pc.append(z3.Not(c))
            return self.block(node.body, s1, module, depth) + self.block(node.orelse, s2, module, depth)
        raise Unsup(f'statement {type(node).__name__} (line {getattr(node, "lineno", 0)})')

    def assign(self, tgt, v, st: State, module, depth):
        if isinstance(tgt, ast.Name):
            st.env[tgt.id] = v
            return
        if isinstance(tgt, ast.Attribute) and tgt.attr == 'shape':
            obj = self.ev(tgt.value, st, module, depth)
            if not isinstance(obj, Arr) or obj.tag is not None:
                raise Unsup('.shape of a non-array')
            new = v if isinstance(v, tuple) else (v,)
            new = tuple(to_z3(d) for d in new)
            size = z3.IntVal(1)
            for d in new:
                size = size * d
            st.oblig.append(('reshape-size', z3.simplify(size) == obj.size()))
            st.events.append(('reshape', obj, new))
            obj.shape = new                        # in place: the flat order is kept
            return
        if isinstance(tgt, ast.Subscript):
            obj = self.ev(tgt.value, st, module, depth)
            idx = self.ev(tgt.slice, st, module, depth)
            if isinstance(obj, Arr) and isinstance(idx, Arr) and idx.is_mask and obj.tag is None and idx.tag is None:
                if not same_shape(obj.shape, idx.shape):
                    raise Unsup('mask of a different shape')
                if isinstance(v, Arr):
                    if v.tag is None or not z3.eq(v.tag, idx.elem):
                        # numpy would compress by two different masks: positions no longer correspond
                        raise Unsup(f'masked store from a differently masked value (line {tgt.lineno})')
                    rhs = v.elem
                else:
                    rhs = to_real(v)
                obj.elem = z3.If(idx.elem, rhs, obj.elem)
                return
            raise Unsup(f'subscript store (line {tgt.lineno})')
        raise Unsup(f'assignment target {type(tgt).__name__}')

    # -- expressions -------------------------------------------------------------
    def ev(self, node, st: State, module, depth):
        m = getattr(self, '_e_' + type(node).__name__, None)
        if m is None:
            raise Unsup(f'expression {type(node).__name__} (line {getattr(node, "lineno", 0)})')
        return m(node, st, module, depth)

    def _e_Constant(self, node, st, module, depth):
        return node.value

    def _e_JoinedStr(self, node, st, module, depth):
        return Opaque('str')

    def _e_Name(self, node, st, module, depth):
        if node.id in st.env:
            return st.env[node.id]
        if node.id in module.functions:
            return FuncRef(module.functions[node.id])
        if node.id in module.imports:
            return self.resolve_dotted(module.imports[node.id])
        if node.id in ('int', 'float', 'range', 'abs', 'min', 'max', 'len', 'bool'):
            return Opaque('builtin:' + node.id)
        if node.id in module.globals_:
            return self.ev(module.globals_[node.id], State(), module, depth)
        raise Unsup(f'name {node.id}')

    def resolve_dotted(self, dotted: str):
        if dotted in self.repo.modules:
            return ModRef(dotted)
        mod, _, name = dotted.rpartition('.')
        if mod in self.repo.modules:
            mi = self.repo.modules[mod]
            if name in mi.functions:
                return FuncRef(mi.functions[name])
        return ModRef(dotted)

    def _e_Attribute(self, node, st, module, depth):
        obj = self.ev(node.value, st, module, depth)
        if isinstance(obj, ModRef):
            return self.resolve_dotted(f'{obj.dotted}.{node.attr}')
        if isinstance(obj, Arr):
            if node.attr == 'shape':
                return obj.shape if len(obj.shape) != 1 else (obj.shape[0],)
            if node.attr == 'size':
                return obj.size()
        if isinstance(obj, Cat) and node.attr == 'shape':
            return obj.shape
        raise Unsup(f'attribute {node.attr} (line {node.lineno})')

    def _e_Tuple(self, node, st, module, depth):
        return tuple(self.ev(e, st, module, depth) for e in node.elts)

    def _e_List(self, node, st, module, depth):
        return [self.ev(e, st, module, depth) for e in node.elts]

    def _e_UnaryOp(self, node, st, module, depth):
        v = self.ev(node.operand, st, module, depth)
        if isinstance(node.op, ast.USub):
            return self.binop('-', 0, v, st) if not isinstance(v, (int, float)) else -v
        if isinstance(node.op, ast.UAdd):
            return v
        if isinstance(node.op, ast.Not):
            if isinstance(v, bool):
                return not v
            return z3.Not(to_bool(v))
        raise Unsup('unary operator')

    def _e_BinOp(self, node, st, module, depth):
        if type(node.op) not in _OPS:
            raise Unsup('binary operator')
        return self.binop(_OPS[type(node.op)], self.ev(node.left, st, module, depth),
                          self.ev(node.right, st, module, depth), st)

    def binop(self, op, a, b, st):
        if isinstance(a, Cat) or isinstance(b, Cat):
            if op == '-' and isinstance(b, Cat) and a == 0:
                return Cat([self.binop('-', 0, p, st) for p in b.parts], b.axis)
            raise Unsup('arithmetic on a concatenation')
        if isinstance(a, Arr) or isinstance(b, Arr):
            shape, tag = self.align(a, b)
            ea = a.elem if isinstance(a, Arr) else to_real(a)
            eb = b.elem if isinstance(b, Arr) else to_real(b)
            if z3.is_bool(ea) or z3.is_bool(eb):
                raise Unsup('arithmetic on a mask')
            return Arr(shape, _arith(op, ea, eb), tag)
        return _arith(op, a, b)

    def align(self, a, b):
        arrs = [x for x in (a, b) if isinstance(x, Arr)]
        if len(arrs) == 2:
            if not same_shape(arrs[0].shape, arrs[1].shape):
                raise Unsup('operands of different shapes')
            t0, t1 = arrs[0].tag, arrs[1].tag
            if (t0 is None) != (t1 is None) or (t0 is not None and not z3.eq(t0, t1)):
                raise Unsup('operands loaded under different masks')
        return arrs[0].shape, arrs[0].tag

    def _e_Compare(self, node, st, module, depth):
        left = self.ev(node.left, st, module, depth)
        acc = None
        for op, rn in zip(node.ops, node.comparators):
            right = self.ev(rn, st, module, depth)
            if isinstance(op, (ast.Is, ast.IsNot)):
                if right is None or left is None:
                    r = (left is None) == (right is None)
                    r = r if isinstance(op, ast.Is) else not r
                else:
                    raise Unsup('identity comparison')
            elif type(op) in _CMP:
                r = self.compare(_CMP[type(op)], left, right)
            else:
                raise Unsup('comparison operator')
            acc = r if acc is None else self.band(acc, r)
            left = right
        return acc

    def compare(self, op, a, b):
        if isinstance(a, Arr) or isinstance(b, Arr):
            shape, tag = self.align(a, b)
            ea = a.elem if isinstance(a, Arr) else to_real(a)
            eb = b.elem if isinstance(b, Arr) else to_real(b)
            return Arr(shape, _compare(op, ea, eb), tag)
        if isinstance(a, tuple) and isinstance(b, tuple):
            if op not in ('==', '!='):
                raise Unsup('tuple ordering')
            if len(a) != len(b):
                return op == '!='
            eq = z3.And([to_bool(_compare('==', x, y)) for x, y in zip(a, b)])
            return eq if op == '==' else z3.Not(eq)
        return _compare(op, a, b)

    def band(self, a, b):
        if isinstance(a, bool) and isinstance(b, bool):
            return a and b
        return z3.And(to_bool(a), to_bool(b))

    def _e_BoolOp(self, node, st, module, depth):
        vals = [self.ev(v, st, module, depth) for v in node.values]
        if all(isinstance(v, bool) for v in vals):
            return all(vals) if isinstance(node.op, ast.And) else any(vals)
        zs = [to_bool(v) for v in vals]
        return z3.And(zs) if isinstance(node.op, ast.And) else z3.Or(zs)

    def _e_IfExp(self, node, st, module, depth):
        c = self.ev(node.test, st, module, depth)
        if isinstance(c, bool):
            return self.ev(node.body if c else node.orelse, st, module, depth)
        a, b = self.ev(node.body, st, module, depth), self.ev(node.orelse, st, module, depth)
        if isinstance(a, Arr) or isinstance(b, Arr):
            raise Unsup('conditional expression over arrays')
        return z3.If(to_bool(c), to_real(a), to_real(b))

    def _e_Subscript(self, node, st, module, depth):
        obj = self.ev(node.value, st, module, depth)
        if isinstance(node.slice, ast.Slice):
            raise Unsup(f'slice (line {node.lineno})')
        idx = self.ev(node.slice, st, module, depth)
        if isinstance(obj, Arr):
            if isinstance(idx, Arr) and idx.is_mask:
                if obj.tag is not None or idx.tag is not None or not same_shape(obj.shape, idx.shape):
                    raise Unsup('masked load')
                return Arr(obj.shape, obj.elem, tag=idx.elem)
            if len(obj.shape) == 1 and obj.tag is None and (isinstance(idx, int) or (is_z3(idx) and z3.is_int(idx))):
                i = to_z3(idx)
                st.oblig.append(('index-in-range', z3.And(i >= 0, i < obj.shape[0])))
                return z3.substitute(obj.elem, (P, i))
        if isinstance(obj, tuple) and isinstance(idx, int):
            return obj[idx]
        raise Unsup(f'subscript (line {node.lineno})')

    def _e_ListComp(self, node, st, module, depth):
        if len(node.generators) != 1 or node.generators[0].ifs or not isinstance(node.generators[0].target, ast.Name):
            raise Unsup('comprehension form')
        g = node.generators[0]
        it = self.ev(g.iter, st, module, depth)
        if not isinstance(it, RangeV):
            raise Unsup('comprehension over something else than range(n)')
        saved = st.env.get(g.target.id, _MISSING)
        n = to_z3(it.n)
        k = z3.Int(fresh('i'))
        st.env[g.target.id] = k
        mark = len(st.oblig)
        try:
            body = self.ev(node.elt, st, module, depth)
        finally:
            if saved is _MISSING:
                st.env.pop(g.target.id, None)
            else:
                st.env[g.target.id] = saved
        if isinstance(body, (Arr, Cat)):
            raise Unsup('comprehension of arrays')
        # side conditions raised inside the body hold for every index of the range
        for j in range(mark, len(st.oblig)):
            lbl, f = st.oblig[j]
            st.oblig[j] = (lbl, z3.ForAll([k], z3.Implies(z3.And(k >= 0, k < n), f)))
        elem = z3.substitute(to_real(body), (k, P))
        arr = Arr((n,), elem, source='comprehension')
        st.events.append(('comprehension', arr, elem))
        return arr

    # -- calls -------------------------------------------------------------------
    def _e_Call(self, node, st, module, depth):
        f = self.ev(node.func, st, module, depth)
        pos = [self.ev(a, st, module, depth) for a in node.args]
        kw = {}
        for k in node.keywords:
            if k.arg is None:
                raise Unsup('**kwargs')
            kw[k.arg] = self.ev(k.value, st, module, depth)
        return self.call(f, pos, kw, st, module, depth, node)

    def call(self, f, pos, kw, st, module, depth, node):
        if isinstance(f, Opaque) and f.what.startswith('builtin:'):
            return self.builtin(f.what[8:], pos, kw, st)
        if isinstance(f, ModRef):
            return self.libcall(f.dotted, pos, kw, st, node)
        if isinstance(f, GenParam):
            if len(pos) != 2 or kw:
                raise Unsup('generator protocol: (sample_size, number_of_draws)')
            g = z3.Function(fresh(f.name), z3.IntSort(), R)
            arr = Arr((to_z3(pos[0]), to_z3(pos[1])), g(P), source=f'param:{f.name}')
            st.events.append(('generator-call', arr, f.name))
            self.notes.add('A-GENERATOR-PROTOCOL: a generator passed as a parameter returns an array of shape '
                           '(sample_size, number_of_draws) (enforced for catalogue entries by Database.generate_draws)')
            return arr
        if isinstance(f, FuncRef):
            outs = self._run_function(f.fi, st, pos, kw, depth + 1)
            rets = [p for p in outs if p.status == 'return']
            if len(rets) != 1:
                raise Unsup(f'inlined call of {f.fi.qualname} has {len(rets)} normal paths')
            # the callee's raising paths become assumptions of this path (callee does not raise)
            p = rets[0]
            if p.state is not st:
                # the callee forked: continue in the surviving state (same frame stack, cloned arrays)
                st.frames, st.pc, st.assume, st.events, st.oblig = (p.state.frames, p.state.pc, p.state.assume,
                                                                    p.state.events, p.state.oblig)
            return p.value
        raise Unsup(f'call of {f!r} (line {getattr(node, "lineno", 0)})')

    def builtin(self, name, pos, kw, st):
        if name == 'int' and len(pos) == 1:
            v = pos[0]
            if isinstance(v, (int, float)):
                return int(v)
            t = to_z3(v)
            if z3.is_int(t):
                return t
            return z3.If(t >= 0, z3.ToInt(t), -z3.ToInt(-t))
        if name == 'float' and len(pos) == 1:
            v = pos[0]
            return float(v) if isinstance(v, (int, float)) else to_real(v)
        if name == 'range' and len(pos) == 1:
            return RangeV(pos[0])
        if name == 'abs' and len(pos) == 1:
            v = pos[0]
            if isinstance(v, (int, float)):
                return abs(v)
            return self.ufunc('abs', v)
        if name in ('min', 'max') and len(pos) == 2 and not any(isinstance(p, (Arr, Cat)) for p in pos):
            a, b = pos
            if not is_z3(a) and not is_z3(b):
                return min(a, b) if name == 'min' else max(a, b)
            c = _compare('<=', a, b)
            za, zb = to_z3(a), to_z3(b)
            if z3.is_int(za) != z3.is_int(zb):
                za, zb = to_real(za), to_real(zb)
            return z3.If(c, za, zb) if name == 'min' else z3.If(c, zb, za)
        raise Unsup(f'builtin {name}')

    def ufunc(self, name, v):
        def f(x):
            x = to_real(x)
            if name == 'abs':
                return z3.If(x >= 0, x, -x)
            return {'sqrt': SQRT, 'log': LOG, 'exp': EXP}[name](x)
        if isinstance(v, Arr):
            return Arr(v.shape, f(v.elem), v.tag)
        if isinstance(v, (int, float)) and name == 'abs':
            return abs(v)
        return f(v)

    def libcall(self, dotted, pos, kw, st, node):
        self.notes.add(f'LIBSPEC {dotted}: element-wise model')
        short = dotted.split('.')[-1]
        if dotted in ('numpy.abs', 'numpy.absolute', 'numpy.fabs', 'numpy.sqrt', 'numpy.log', 'numpy.exp',
                      'math.sqrt', 'math.log', 'math.exp', 'math.fabs') and len(pos) == 1:
            return self.ufunc({'absolute': 'abs', 'fabs': 'abs'}.get(short, short), pos[0])
        if dotted in ('numpy.logical_and', 'numpy.logical_or') and len(pos) == 2:
            a, b = pos
            shape, tag = self.align(a, b)
            ea = a.elem if isinstance(a, Arr) else to_bool(a)
            eb = b.elem if isinstance(b, Arr) else to_bool(b)
            return Arr(shape, z3.And(ea, eb) if short == 'logical_and' else z3.Or(ea, eb), tag)
        if dotted == 'numpy.logical_not' and len(pos) == 1 and isinstance(pos[0], Arr):
            return Arr(pos[0].shape, z3.Not(pos[0].elem), pos[0].tag)
        if dotted in ('numpy.minimum', 'numpy.maximum') and len(pos) == 2:
            a, b = pos
            shape, tag = self.align(a, b)
            ea = a.elem if isinstance(a, Arr) else to_real(a)
            eb = b.elem if isinstance(b, Arr) else to_real(b)
            return Arr(shape, z3.If(ea <= eb, ea, eb) if short == 'minimum' else z3.If(ea <= eb, eb, ea), tag)
        if dotted == 'numpy.where' and len(pos) == 3 and isinstance(pos[0], Arr):
            c, a, b = pos
            ea = a.elem if isinstance(a, Arr) else to_real(a)
            eb = b.elem if isinstance(b, Arr) else to_real(b)
            for x in (a, b):
                if isinstance(x, Arr) and (x.tag is not None or not same_shape(x.shape, c.shape)):
                    raise Unsup('numpy.where operands')
            return Arr(c.shape, z3.If(c.elem, ea, eb), c.tag)
        if dotted in ('numpy.zeros', 'numpy.ones', 'numpy.zeros_like', 'numpy.ones_like') and len(pos) == 1:
            shape = pos[0].shape if isinstance(pos[0], Arr) else (pos[0] if isinstance(pos[0], tuple) else (pos[0],))
            return Arr(tuple(to_z3(d) for d in shape), z3.RealVal(1 if 'ones' in short else 0))
        if dotted == 'numpy.random.uniform':
            size = kw.get('size', pos[2] if len(pos) > 2 else None)
            if size is None or any(k != 'size' for k in kw) or (pos and len(pos) != 3):
                raise Unsup('numpy.random.uniform arguments')
            shape = size if isinstance(size, tuple) else (size,)
            u = z3.Function(fresh('U'), z3.IntSort(), R)
            arr = Arr(tuple(to_z3(d) for d in shape), u(P), source='rng')
            k = z3.Int(fresh('k'))
            st.assume.append(z3.ForAll([k], z3.And(u(k) >= 0, u(k) < 1)))
            st.assume.append(z3.And(u(P) >= 0, u(P) < 1))
            st.events.append(('rng', arr, u))
            self.notes.add('LIBSPEC numpy.random.uniform(size=n): n values in [0, 1)')
            return arr
        if dotted == 'numpy.array' and len(pos) == 1 and isinstance(pos[0], Arr) and not kw:
            a = pos[0]
            return Arr(a.shape, a.elem, a.tag, a.source)
        if dotted == 'numpy.random.shuffle' and len(pos) == 1 and isinstance(pos[0], Arr) and pos[0].tag is None:
            a = pos[0]
            if len(a.shape) != 1:
                raise Unsup('shuffle of a multi-dimensional array')
            n = a.shape[0]
            perm = z3.Function(fresh('perm'), z3.IntSort(), z3.IntSort())
            inv = z3.Function(fresh('perminv'), z3.IntSort(), z3.IntSort())
            k = z3.Int(fresh('k'))
            st.assume.append(z3.ForAll([k], z3.Implies(z3.And(k >= 0, k < n),
                                                       z3.And(perm(k) >= 0, perm(k) < n, inv(perm(k)) == k, perm(inv(k)) == k,
                                                              inv(k) >= 0, inv(k) < n))))
            before = a.elem
            a.elem = z3.substitute(a.elem, (P, perm(P)))
            st.events.append(('shuffle', a, perm, before))
            self.notes.add('LIBSPEC numpy.random.shuffle(x): in-place permutation of the positions of a 1-D array')
            return None
        if dotted == 'numpy.concatenate' and len(pos) == 1 and isinstance(pos[0], (tuple, list)):
            axis = kw.get('axis', 0)
            parts = list(pos[0])
            if axis != 1 or not all(isinstance(p, Arr) and p.tag is None and len(p.shape) == 2 for p in parts):
                raise Unsup('concatenate: only axis=1 of 2-D arrays')
            for p in parts[1:]:
                st.oblig.append(('concatenate-rows', p.shape[0] == parts[0].shape[0]))
            return Cat(parts, 1)
        raise Unsup(f'library call {dotted} (line {getattr(node, "lineno", 0)})')


_MISSING = object()


# ---------------------------------------------------------------------------
# z3 helpers used by the contracts
# ---------------------------------------------------------------------------
def prove(hyps, goal, timeout_ms=20000):
    """-> ('discharged' | 'failed' | 'unknown', model or None)"""
    s = z3.Solver()
    s.set('timeout', timeout_ms)
    for h in hyps:
        s.add(h)
    s.add(z3.Not(goal))
    r = s.check()
    if r == z3.unsat:
        return 'discharged', None
    if r == z3.sat:
        return 'failed', s.model()
    return 'unknown', None


def feasible(hyps, timeout_ms=10000):
    s = z3.Solver()
    s.set('timeout', timeout_ms)
    for h in hyps:
        s.add(h)
    r = s.check()
    return r != z3.unsat, (s.model() if r == z3.sat else None)


def _subterms(t, seen, out):
    if t.get_id() in seen:
        return
    seen.add(t.get_id())
    for c in t.children():
        _subterms(c, seen, out)
    out.append(t)


def subterms(t):
    out: list = []
    _subterms(t, set(), out)
    return out


def is_ite(t):
    return z3.is_app_of(t, z3.Z3_OP_ITE)


def leaves(term, hyps, timeout_ms=10000):
    """Case-split `term` on the conditions of its if-then-else subterms (innermost conditions
    first): -> [(conditions, if-free term)] for the cases that are satisfiable with `hyps`."""
    out = []

    def has_ite(t):
        return any(is_ite(x) for x in subterms(t))

    def rec(t, conds):
        t = z3.simplify(t, som=False)
        ites = [x for x in subterms(t) if is_ite(x)]
        if not ites:
            out.append((conds, t))
            return
        pick = None
        for x in ites:                       # subterms() lists children first
            if not has_ite(x.arg(0)):
                pick = x
                break
        c = pick.arg(0)
        for val, lit in ((True, c), (False, z3.Not(c))):
            ok, _ = feasible(list(hyps) + conds + [lit], timeout_ms)
            if not ok:
                continue
            subs = []
            for x in ites:
                if z3.eq(x.arg(0), c):
                    subs.append((x, x.arg(1) if val else x.arg(2)))
            t2 = z3.substitute(t, *subs)
            # the condition itself may occur as a boolean subterm elsewhere
            t2 = z3.substitute(t2, (c, z3.BoolVal(val)))
            rec(t2, conds + [lit])
    rec(term, [])
    return out


def model_value(model, t):
    """float value of a real/int term in a model (None when not evaluable)."""
    try:
        v = model.eval(t, model_completion=True)
        if z3.is_rational_value(v):
            return float(Fraction(v.numerator_as_long(), v.denominator_as_long()))
        if z3.is_int_value(v):
            return float(v.as_long())
        if z3.is_algebraic_value(v):
            return float(v.approx(20).as_fraction())
    except Exception:
        return None
    return None


# ---------------------------------------------------------------------------
# z3 term -> sympy expression (exact rationals; uninterpreted applications become symbols)
# ---------------------------------------------------------------------------
def to_sympy(t, atoms: dict):
    """atoms: maps the string of a non-arithmetic subterm to a sympy Symbol (filled on the way)."""
    import sympy as sp
    memo = {}

    def rec(x):
        key = x.get_id()
        if key in memo:
            return memo[key]
        if z3.is_rational_value(x):
            r = sp.Rational(x.numerator_as_long(), x.denominator_as_long())
        elif z3.is_int_value(x):
            r = sp.Integer(x.as_long())
        elif z3.is_app_of(x, z3.Z3_OP_ADD):
            r = sp.Add(*[rec(c) for c in x.children()])
        elif z3.is_app_of(x, z3.Z3_OP_MUL):
            r = sp.Mul(*[rec(c) for c in x.children()])
        elif z3.is_app_of(x, z3.Z3_OP_SUB):
            ch = [rec(c) for c in x.children()]
            r = ch[0] - sp.Add(*ch[1:])
        elif z3.is_app_of(x, z3.Z3_OP_UMINUS):
            r = -rec(x.arg(0))
        elif z3.is_app_of(x, z3.Z3_OP_DIV):
            r = rec(x.arg(0)) / rec(x.arg(1))
        elif z3.is_app_of(x, z3.Z3_OP_TO_REAL):
            r = rec(x.arg(0))
        elif z3.is_app_of(x, z3.Z3_OP_POWER) and z3.is_int_value(x.arg(1)):
            r = rec(x.arg(0)) ** x.arg(1).as_long()
        else:
            s = str(z3.simplify(x))
            if s not in atoms:
                atoms[s] = (sp.Symbol(f'atom{len(atoms)}', real=True), x)
            r = atoms[s][0]
        memo[key] = r
        return r
    return rec(t)
