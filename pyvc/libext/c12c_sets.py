"""libext (C12, round 2, agent c12c): lambda-free finite sets for the audits of nests.py / idmanager.py.

SCOPE: every handler is active only while a function of property C12 whose qualified name starts with one of
SCOPE_PREFIXES is being verified (top frame); otherwise the core (and pyvc/libext/c12_ext.py) behaviour is unchanged.

WHY: the core stores the membership array of `set(a_list)` / `s & t` / a set comprehension as a z3 *lambda* in the heap
field $dom (an array of arrays).  Obligations that relate two such sets (is the intersection empty?  are the two sets
equal?) then sit behind select-over-store of lambdas with nested quantifiers and z3/cvc5 answer `unknown`
(contracts/c05_nests.py, round 1).  Here the same sets are encoded without lambdas:

LIBSPEC set(list L)            a NEW set whose membership array D is a fresh constant with the two skolemised halves of
                               "x in D  <=>  exists j < len(L): L[j] == x":
                                   forall j in [0, len L):  D[L[j]]
                                   forall x: D[x] -> 0 <= at(D, x) < len(L) and L[at(D, x)] == x
LIBSPEC s & t, s | t, s - t    NEW sets: z3 SetIntersect / SetUnion / SetDifference of the membership arrays
                               (combinatory array logic: decided natively, extensional)
LIBSPEC bool(s)                s is not the empty set (extensional: D != EmptySet)
LIBSPEC s == t, s != t         same members (the core compares references)
LIBSPEC {e for a in A for b in f(a)}  (two generators; A a list, f(a) a list):  a NEW set, skolemised as set(list):
                                   forall k, j in range:  D[e(k, j)]
                                   forall x: D[x] -> (k, j) = at2(D, x) in range and e(k, j) == x
LIBSPEC set().union(*(set(g(a)) for a in A))   a NEW set, the same union over two levels (g(a) a list)
LIBSPEC itertools.combinations(L, 2) iterated by a `for`: NOT modelled (the repaired check_intersection does not use it).
"""
import ast as _ast

import z3

from pyvc import lib
from pyvc import symexec as _symexec
from pyvc import vals as VV
from pyvc.state import Unsupported, pattern_ok
from pyvc.vals import ANY, I, V, Val, as_ref, fresh_name, uf

_DOM = z3.ArraySort(Val, VV.B)

SCOPE_PREFIXES = ('biogeme.nests.', 'biogeme.expressions.idmanager.IdManager.prepare')


def _mine(ex):
    if ex.ctx.prop != 'C12' or not ex.frames:
        return False
    f = ex.frames[0].func
    return f is not None and f.qualname.startswith(SCOPE_PREFIXES)


def _fa(vs, body, pats):
    pats = [p for p in pats if p is not None]
    if pats and all(pattern_ok(p) for p in pats):
        try:
            return z3.ForAll(vs, body, patterns=pats)
        except z3.Z3Exception:
            pass
    return z3.ForAll(vs, body)


def _plain(st):
    return not st.bound and not st.guards


# ---- set(list) ------------------------------------------------------------------------------------
_orig_set_of = lib.set_of


def _set_of(ex, st, v):
    if not _mine(ex) or not _plain(st) or v.kind == 'py' and v.py and v.py[0] != 'specseq':
        return _orig_set_of(ex, st, v)
    if v.kind == 'set':
        return st.new_set(v.ty.args[0] if v.ty.args else ANY, st.set_dom(v))
    if v.kind not in ('list', 'py'):
        return _orig_set_of(ex, st, v)
    from specs.c12c_nests import members_dom
    n, arr, ety = lib.seq_parts(ex, st, v)
    D = members_dom(st, n, arr)
    ex.ctx.note('LIBSPEC(c12c) set(list): a new set; membership array = constant named after (length, contents) with the '
                'skolemised definition (every element is a member; every member sits at some position)')
    return st.new_set(ety, D)


lib.set_of = _set_of


# ---- s & t, s | t, s - t ---------------------------------------------------------------------------------
def _wrap(name, mk):
    orig = getattr(lib, name)

    def f(ex, st, l, r):
        if not _mine(ex) or not _plain(st):
            return orig(ex, st, l, r)
        ex.ctx.note(f'LIBSPEC(c12c) {name}: z3 set algebra on the membership arrays (no lambda)')
        return st.new_set(l.ty.args[0] if l.ty.args else ANY, mk(st.set_dom(l), st.set_dom(r)))
    setattr(lib, name, f)


_wrap('set_inter', z3.SetIntersect)
_wrap('set_union', z3.SetUnion)
_wrap('set_diff', z3.SetDifference)

# ---- bool(s) ------------------------------------------------------------------------------------------
_orig_truth = _symexec.Executor.truth


def _truth(self, st, v):
    if v.kind == 'set' and _mine(self):
        return z3.Not(st.set_dom(v) == z3.EmptySet(Val))
    return _orig_truth(self, st, v)


_symexec.Executor.truth = _truth

# ---- s == t ---------------------------------------------------------------------------------------------
_orig_py_eq = _symexec.Executor.py_eq


def _py_eq(self, st, l, r):
    if l.kind == 'set' and r.kind == 'set' and _mine(self):
        self.ctx.note('LIBSPEC(c12c) set == set: same members (extensional)')
        return st.set_dom(l) == st.set_dom(r)
    return _orig_py_eq(self, st, l, r)


_symexec.Executor.py_eq = _py_eq


# ---- two-level unions ---------------------------------------------------------------------------------
def _union2(ex, st, outer, inner_of, what):
    """A new set {inner(k)[j] | k < len(outer), j < len(inner(k))}; inner_of(k) -> (n, arr, ety)"""
    from specs.c12c_nests import members2_dom
    ety = [ANY]

    def inner(k):
        m, arr, ety[0] = inner_of(k)
        return m, arr
    D = members2_dom(st, st.list_len(outer), inner)
    ex.ctx.note(f'LIBSPEC(c12c) {what}: a new set, the union over two levels (skolemised definition, no lambda)')
    return st.new_set(ety[0], D)


def _inner_lists(ex, st, outer, target, inner_expr):
    """inner_of(k): evaluate `inner_expr` with `target` bound to outer[k] (k symbolic); must be a list"""
    def inner_of(k):
        saved = dict(st.locals)
        st.bound.append((k, z3.And(k >= 0, k < st.list_len(outer))))
        try:
            ex.assign(st, target, st.list_get(outer, k))
            v = ex.ev(st, inner_expr)
        finally:
            st.bound.pop()
            st.locals = saved
        if v.kind != 'list':
            raise Unsupported(f'c12c two-level union over a {v.kind}')
        return lib.seq_parts(ex, st, v)
    return inner_of


_orig_comprehension = lib.comprehension


def _comprehension(ex, st, node, kind):
    if (_mine(ex) and kind == 'set' and len(node.generators) == 2 and _plain(st)
            and not node.generators[0].ifs and not node.generators[1].ifs
            and isinstance(node.elt, _ast.Name) and isinstance(node.generators[1].target, _ast.Name)
            and node.elt.id == node.generators[1].target.id):
        g1, g2 = node.generators
        outer = ex.ev(st, g1.iter)
        if outer.kind == 'list' and outer.items is None:
            return _union2(ex, st, outer, _inner_lists(ex, st, outer, g1.target, g2.iter),
                           '{i for a in A for i in f(a)}')
    return _orig_comprehension(ex, st, node, kind)


lib.comprehension = _comprehension

_orig_e_call = _symexec.Executor._e_Call


def _e_Call(self, st, node):
    f = node.func
    if (_mine(self) and isinstance(f, _ast.Attribute) and f.attr == 'union' and len(node.args) == 1 and not node.keywords
            and isinstance(node.args[0], _ast.Starred) and isinstance(node.args[0].value, _ast.GeneratorExp) and _plain(st)
            and isinstance(f.value, _ast.Call) and isinstance(f.value.func, _ast.Name) and f.value.func.id == 'set' and not f.value.args):
        gen = node.args[0].value
        if (len(gen.generators) == 1 and not gen.generators[0].ifs and isinstance(gen.elt, _ast.Call)
                and isinstance(gen.elt.func, _ast.Name) and gen.elt.func.id == 'set' and len(gen.elt.args) == 1):
            g = gen.generators[0]
            outer = self.ev(st, g.iter)
            if outer.kind == 'list' and outer.items is None:
                return _union2(self, st, outer, _inner_lists(self, st, outer, g.target, gen.elt.args[0]),
                               'set().union(*(set(f(a)) for a in A))')
    return _orig_e_call(self, st, node)


_symexec.Executor._e_Call = _e_Call
