"""libext (C16, round 2, tag c16c): the few idioms the CONSTRUCTORS of the catalog layer use.

SCOPE: every handler is active only while a function of property C16 is verified (ctx.prop == 'C16');
otherwise the core behaviour is unchanged.  All of this is trusted (listed in props/C16.py TRUSTED).

ENGINE  (a,) + seq / seq + (a,): a tuple of known arity concatenated with a sequence of symbolic length is the
        sequence of the tuple's items followed by the other operand's elements (core: only tuple+tuple of
        known arity, list+list).
LIBSPEC len(set(seq)) (pigeonhole): for a sequence of n elements, 0 <= |set(seq)| <= n and
        |set(seq)| == n  <=>  the n elements are pairwise different.
LIBSPEC list == list / list != list (both of symbolic length, elements strings): equal iff same length and the
        same element at every position (core: identity of the two heap references).
ENGINE  `x and not isinstance(x, C)` for an Optional[C] parameter: truthiness of an Optional reference whose class
        has neither __bool__ nor __len__ is `x is not None` (core: already so; nothing added here).
"""
import ast

import z3

from pyvc import lib
from pyvc import symexec as SE
from pyvc import vals as VV
from pyvc.vals import I, V, Val, as_ref, fresh_name, uf, v_bool


def _mine(ex) -> bool:
    return ex.ctx.prop == 'C16'


# ---- tuple of known arity + sequence ------------------------------------------------------------------
_orig_binop = SE.Executor.binop


def _binop(self, st, op, l, r, node):
    if _mine(self) and isinstance(op, ast.Add):
        def tup(v):
            return v.kind == 'tuple' and v.items is not None

        def seq(v):
            return v.kind == 'list' or (v.kind == 'py' and v.py and v.py[0] == 'specseq')
        if (tup(l) and seq(r)) or (seq(l) and tup(r)):
            self.ctx.note('ENGINE (c16c) tuple of known arity + sequence: concatenation of the elements')
            return _concat(self, st, l, r)
    return _orig_binop(self, st, op, l, r, node)


def _concat(ex, st, l, r):
    """Like lib.list_concat, but the contents are a fresh array constant axiomatised pointwise (a z3 lambda stored in
    the heap makes every later quantified query about `$elems` come back `unknown` at once)."""
    ln, la, lt = lib.seq_parts(ex, st, l)
    rn, ra, rt = lib.seq_parts(ex, st, r)
    j = z3.Int(fresh_name('j'))
    arr = z3.Const(fresh_name('cat'), z3.ArraySort(I, Val))
    st.assume(z3.ForAll([j], z3.Select(arr, j) == z3.If(j < ln, z3.Select(la, j), z3.Select(ra, j - ln)),
                        patterns=[z3.Select(arr, j)]))
    ety = lt if lt == rt else (lt if rt.kind == 'any' else (rt if lt.kind == 'any' else VV.ANY))
    n = z3.simplify(ln + rn)
    if st.spec:
        return lib.spec_seq(ex, st, n, arr, ety)
    return st.new_list_sym(n, arr, ety)


SE.Executor.binop = _binop


# ---- len(set(seq)): pigeonhole --------------------------------------------------------------------------
_orig_set_of = lib.set_of


def _set_of(ex, st, v):
    if not _mine(ex) or v.kind == 'set':
        return _orig_set_of(ex, st, v)
    try:
        n, arr, ety = lib.seq_parts(ex, st, v)
    except lib.Unsupported:
        return _orig_set_of(ex, st, v)
    # membership: a fresh domain constant axiomatised pointwise (no z3 lambda in the heap, see _concat)
    dom = z3.Const(fresh_name('sdom'), z3.ArraySort(Val, VV.B))
    x = z3.Const(fresh_name('x'), Val)
    j = z3.Int(fresh_name('j'))
    st.assume(z3.ForAll([x], z3.Select(dom, x) == z3.Exists([j], z3.And(j >= 0, j < n, z3.Select(arr, j) == x)),
                        patterns=[z3.Select(dom, x)]))
    st.assume(z3.ForAll([j], z3.Implies(z3.And(j >= 0, j < n), z3.Select(dom, z3.Select(arr, j))),
                        patterns=[z3.Select(arr, j)]))
    out = st.new_set(ety, dom)
    card = uf('set_card', I, z3.ArraySort(Val, VV.B), I)(as_ref(out), st.set_dom(out))
    a, b = z3.Int(fresh_name('pa')), z3.Int(fresh_name('pb'))
    distinct = z3.ForAll([a, b], z3.Implies(z3.And(0 <= a, a < b, b < n), z3.Select(arr, a) != z3.Select(arr, b)))
    st.assume(z3.And(card >= 0, card <= n, (card == n) == distinct))
    ex.ctx.note('LIBSPEC (c16c) set(seq): x in set(seq) <=> x is an element of seq; 0 <= |set(seq)| <= len(seq), equality '
                'iff the elements are pairwise different (pigeonhole)')
    return out


lib.set_of = _set_of
# the builtin table holds a direct reference to the original `_b_set`, which calls lib.set_of through the module
# global -- so the patched function is picked up; nothing else to re-register.


# ---- list == list -----------------------------------------------------------------------------------------
_orig_py_eq = SE.Executor.py_eq


def _py_eq(self, st, l, r):
    if _mine(self) and l.kind == 'list' and r.kind == 'list':
        ln, la, lt = lib.seq_parts(self, st, l)
        rn, ra, rt = lib.seq_parts(self, st, r)
        if lt.kind == 'str' and rt.kind == 'str':
            j = z3.Int(fresh_name('eq'))
            self.ctx.note('LIBSPEC (c16c) list[str] == list[str]: same length and same element at every position')
            return z3.And(ln == rn, z3.ForAll([j], z3.Implies(z3.And(j >= 0, j < ln), z3.Select(la, j) == z3.Select(ra, j))))
    return _orig_py_eq(self, st, l, r)


SE.Executor.py_eq = _py_eq
