"""libext (C16, round 2, tag c16c): the few idioms the CONSTRUCTORS of the catalog layer use.

SCOPE: every handler is active only while a function of property C16 is verified (ctx.prop == 'C16');
otherwise the core behaviour is unchanged.  All of this is trusted (listed in props/C16.py TRUSTED).

ENGINE  (a,) + seq / seq + (a,): a tuple of known arity concatenated with a sequence of symbolic length is the
        sequence of the tuple's items followed by the other operand's elements (core: only tuple+tuple of
        known arity, list+list).
LIBSPEC len(set(seq)) (pigeonhole): for a sequence of n elements, 0 <= |set(seq)| <= n and
        |set(seq)| == n  <=>  the n elements are pairwise different.
LIBSPEC list == list / list != list (both of symbolic length, elements strings): equal iff same length and the
        same element at every position (core: identity of the two heap references).
ENGINE  `x and not isinstance(x, C)` for an Optional[C] parameter: truthiness of an Optional reference whose class
        has neither __bool__ nor __len__ is `x is not None` (core: already so; nothing added here).
"""
import ast

import z3

from pyvc import lib
from pyvc.state import Raised, Unsupported
from pyvc import symexec as SE
from pyvc import vals as VV
from pyvc.vals import I, V, Val, as_ref, fresh_name, uf, v_bool


def _mine(ex) -> bool:
    return ex.ctx.prop == 'C16'


# ---- tuple of known arity + sequence ------------------------------------------------------------------
_orig_binop = None


def _binop(self, st, op, l, r, node):
    if _mine(self) and isinstance(op, ast.Add):
        def tup(v):
            return v.kind == 'tuple' and v.items is not None

        def seq(v):
            return v.kind == 'list' or (v.kind == 'py' and v.py and v.py[0] == 'specseq')
        if (tup(l) and seq(r)) or (seq(l) and tup(r)):
            self.ctx.note('ENGINE (c16c) tuple of known arity + sequence: concatenation of the elements')
            return _concat(self, st, l, r)
    return _orig_binop(self, st, op, l, r, node)


def _concat(ex, st, l, r):
    """Like lib.list_concat, but the contents are a fresh array constant axiomatised pointwise (a z3 lambda stored in
    the heap makes every later quantified query about `$elems` come back `unknown` at once)."""
    ln, la, lt = lib.seq_parts(ex, st, l)
    rn, ra, rt = lib.seq_parts(ex, st, r)
    j = z3.Int(fresh_name('j'))
    arr = z3.Const(fresh_name('cat'), z3.ArraySort(I, Val))
    st.assume(z3.ForAll([j], z3.Select(arr, j) == z3.If(j < ln, z3.Select(la, j), z3.Select(ra, j - ln)),
                        patterns=[z3.Select(arr, j)]))
    ety = lt if lt == rt else (lt if rt.kind == 'any' else (rt if lt.kind == 'any' else VV.ANY))
    n = z3.simplify(ln + rn)
    if st.spec:
        return lib.spec_seq(ex, st, n, arr, ety)
    return st.new_list_sym(n, arr, ety)




# ---- len(set(seq)): pigeonhole --------------------------------------------------------------------------
_orig_set_of = None


def _set_of(ex, st, v):
    if not _mine(ex) or v.kind == 'set':
        return _orig_set_of(ex, st, v)
    try:
        n, arr, ety = lib.seq_parts(ex, st, v)
    except Unsupported:
        return _orig_set_of(ex, st, v)
    # membership: a fresh domain constant axiomatised pointwise (no z3 lambda in the heap, see _concat)
    dom = z3.Const(fresh_name('sdom'), z3.ArraySort(Val, VV.B))
    x = z3.Const(fresh_name('x'), Val)
    j = z3.Int(fresh_name('j'))
    st.assume(z3.ForAll([x], z3.Select(dom, x) == z3.Exists([j], z3.And(j >= 0, j < n, z3.Select(arr, j) == x)),
                        patterns=[z3.Select(dom, x)]))
    st.assume(z3.ForAll([j], z3.Implies(z3.And(j >= 0, j < n), z3.Select(dom, z3.Select(arr, j))),
                        patterns=[z3.Select(arr, j)]))
    out = st.new_set(ety, dom)
    card = uf('set_card', I, z3.ArraySort(Val, VV.B), I)(as_ref(out), st.set_dom(out))
    a, b = z3.Int(fresh_name('pa')), z3.Int(fresh_name('pb'))
    distinct = z3.ForAll([a, b], z3.Implies(z3.And(0 <= a, a < b, b < n), z3.Select(arr, a) != z3.Select(arr, b)))
    st.assume(z3.And(card >= 0, card <= n, (card == n) == distinct))
    ex.ctx.note('LIBSPEC (c16c) set(seq): x in set(seq) <=> x is an element of seq; 0 <= |set(seq)| <= len(seq), equality '
                'iff the elements are pairwise different (pigeonhole)')
    return out




# ---- list == list -----------------------------------------------------------------------------------------
_orig_py_eq = None


def _py_eq(self, st, l, r):
    if _mine(self) and l.kind == 'list' and r.kind == 'list':
        ln, la, lt = lib.seq_parts(self, st, l)
        rn, ra, rt = lib.seq_parts(self, st, r)
        if lt.kind == 'str' and rt.kind == 'str':
            j = z3.Int(fresh_name('eq'))
            self.ctx.note('LIBSPEC (c16c) list[str] == list[str]: same length and same element at every position')
            return z3.And(ln == rn, z3.ForAll([j], z3.Implies(z3.And(j >= 0, j < ln), z3.Select(la, j) == z3.Select(ra, j))))
    return _orig_py_eq(self, st, l, r)




# ---- type(x) inside an error message --------------------------------------------------------------------
_orig_type = None


def _b_type(ex, st, args, kw, node):
    try:
        return _orig_type(ex, st, args, kw, node)
    except Unsupported:
        if not _mine(ex):
            raise
        ex.ctx.note('ENGINE (c16c) type(x) of a value of unknown class: opaque object (only formatted into a message)')
        return VV.v_py(('c16c_type_of', id(node)))




# ---- (int, float, bool): a tuple display of classes (second argument of isinstance) -----------------------
_orig_e_tuple = None


def _e_Tuple(self, st, node):
    if _mine(self) and node.elts and not any(isinstance(e, ast.Starred) for e in node.elts):
        items = [self.ev(st, e) for e in node.elts]
        if all(i.kind == 'py' for i in items):
            # only `isinstance(x, (A, B))` consumes it (through .items); the term itself is a placeholder
            return V(Val.nil, VV.TTuple(*[i.ty for i in items]), items=items)
        return VV.v_tuple(items) if all(i.t is not None for i in items) else _orig_e_tuple(self, st, node)
    return _orig_e_tuple(self, st, node)




# ---- NamedTuple objects built inside a comprehension of symbolic length ----------------------------------------
# ENGINE (core): `[NT(a=f(x), b=g(x)) for x in xs]` with len(xs) symbolic evaluates the element ONCE under the
# binder j; State.new_ref then yields ONE reference for every j and the stores hold terms with j free -- every
# element would be the same object.  Here: one fresh reference ntref(j) per position (ntref injective, all at or
# beyond the current allocation pointer), the fields are axiomatised pointwise (field'[ntref(j)] == value(j); every
# object that existed before keeps its value) and the allocation pointer moves past all of them.  Only for NamedTuple classes (immutable records whose
# constructor stores its arguments), only under exactly one binder `0 <= j < n`, only while C16 is verified.
def _alt_triggers(body, j, limit=3) -> list:
    """Sub-terms f(.., j, ..) / a[j] of `body` whose other arguments do not mention j: alternative E-matching triggers,
    so that a pointwise axiom  forall j. new[j] == body(j)  also fires from the SOURCE side (a ground a[q] instantiates
    it and thereby creates new[q])."""
    from pyvc.state import occurs, pattern_ok
    out, seen, todo = [], set(), [body]
    while todo:
        t = todo.pop()
        if t.get_id() in seen or not z3.is_app(t):
            continue
        seen.add(t.get_id())
        kids = t.children()
        k = t.decl().kind()
        if kids and any(c.eq(j) for c in kids) and k in (z3.Z3_OP_SELECT, z3.Z3_OP_UNINTERPRETED) \
                and not any(occurs(j, c) for c in kids if not c.eq(j)):
            if not any(t.eq(o) for o in out) and pattern_ok(t):
                out.append(t)
        todo.extend(kids)
    return out[:limit]


def _forall_pt(vs, body, pats):
    """ForAll with the alternative triggers when z3 accepts them, else with the first (primary) one only."""
    try:
        return z3.ForAll(vs, body, patterns=pats)
    except z3.Z3Exception:
        return z3.ForAll(vs, body, patterns=pats[:1])


def _is_namedtuple(ci) -> bool:
    return ci is not None and any('NamedTuple' in b for b in ci.bases)


def _nt_fields(ex, ci) -> list:
    names = []
    for c in reversed(ex.repo.mro(ci)):
        for nme in c.field_types:
            if nme not in names:
                names.append(nme)
    return names


def _binder_range(guard):
    """(j >= 0 and j < n) -> n; None when the guard has another shape."""
    if z3.is_and(guard) and guard.num_args() == 2:
        lo, hi = guard.arg(0), guard.arg(1)
        if z3.is_app(hi) and hi.decl().kind() == z3.Z3_OP_LT:
            return hi.arg(1)
    return None


def _construct_namedtuple_block(ex, st, ci, args, kwargs, node):
    if not _mine(ex) or not st.bound or not _is_namedtuple(ci):
        return None
    if len(st.bound) != 1 or st.guards:
        raise Unsupported('c16c: NamedTuple built under several binders / a guard')
    j, guard = st.bound[0]
    n = _binder_range(guard)
    if n is None or not z3.is_int(j):
        raise Unsupported('c16c: NamedTuple built under a binder that is not 0 <= j < n')
    names = _nt_fields(ex, ci)
    vals_ = dict(zip(names, args))
    vals_.update(kwargs)
    if set(vals_) != set(names):
        raise Unsupported('c16c: NamedTuple with defaults')
    key = ex.repo.class_key(ci)
    # references of the block: ntref(j), an injective (inverse ntidx) uninterpreted function -- no arithmetic on
    # references, so that E-matching alone chains  list[j] -> ntref(j) -> field[ntref(j)] -> value(j)
    ntref = z3.Function(fresh_name('ntref'), I, I)
    ntidx = z3.Function(fresh_name('ntidx'), I, I)
    old_alloc = st.alloc
    new_alloc = z3.Int(fresh_name('ntalloc'))
    jj = z3.Int(fresh_name('j'))
    rng = z3.And(jj >= 0, jj < n)
    st.pc.append(new_alloc >= old_alloc)
    st.pc.append(z3.ForAll([jj], z3.Implies(rng, z3.And(ntref(jj) >= old_alloc, ntref(jj) < new_alloc, ntidx(ntref(jj)) == jj,
                                                       ex.cls_of(ntref(jj)) == ex.class_id(key))),
                           patterns=[ntref(jj)]))
    r = z3.Int(fresh_name('r'))
    for nme in names:
        cur = st.field(nme)
        new = z3.Const(fresh_name(f'NT!{nme}'), cur.sort())
        val = z3.substitute(ex.box(st, vals_[nme]), (j, jj))
        st.pc.append(_forall_pt([jj], z3.Implies(rng, z3.Select(new, ntref(jj)) == val), [ntref(jj)] + _alt_triggers(val, jj)))
        st.pc.append(z3.ForAll([r], z3.Implies(r < old_alloc, z3.Select(new, r) == z3.Select(cur, r)),
                               patterns=[z3.Select(new, r)]))
        st.heap[nme] = new
    st.alloc = new_alloc
    ex.ctx.note(f'ENGINE (c16c) {ci.name}(...) inside a comprehension of symbolic length: one fresh reference per position '
                '(injective), fields axiomatised pointwise, older objects unchanged')
    return V(Val.ref(ntref(j)), VV.TRef(key))


_orig_unpack = None


def _unpack(self, st, v, n, node):
    if _mine(self) and v.kind == 'ref' and v.items is None and v.ty.cls:
        ci = self.repo.find_class(v.ty.cls)
        if _is_namedtuple(ci):
            names = _nt_fields(self, ci)
            if len(names) == n:
                out = []
                for nme in names:
                    fv = V(st.read(as_ref(v), nme), self.field_ty(v.ty.cls, nme))
                    st.assume_type(fv)
                    out.append(fv)
                return out
    return _orig_unpack(self, st, v, n, node)




# ---- list comprehensions of symbolic length: contents as an axiomatised constant instead of a z3 lambda ------------
_prev_comprehension = None


def _comprehension(ex, st, node, kind):
    out = _prev_comprehension(ex, st, node, kind)
    if not _mine(ex) or kind != 'list' or st.bound:
        return out

    def named(el):
        """fresh array constant equal pointwise to the lambda `el` (triggers: the constant and the source terms)"""
        jj = z3.Int(fresh_name('j'))
        arr = z3.Const(fresh_name('comp'), z3.ArraySort(I, Val))
        body = z3.simplify(z3.Select(el, jj))
        st.pc.append(_forall_pt([jj], z3.Select(arr, jj) == body, [z3.Select(arr, jj)] + _alt_triggers(body, jj)))
        return arr
    if out.kind == 'py' and out.py and out.py[0] == 'specseq':
        # generator expression / comprehension evaluated without allocation
        el = z3.simplify(out.py[2])
        if z3.is_quantifier(el) and el.is_lambda():
            return VV.v_py(('specseq', out.py[1], named(el), out.py[3]))
        return out
    if out.kind == 'list' and not st.spec:
        r = as_ref(out)
        el = z3.simplify(st.read(r, '$elems'))
        if z3.is_quantifier(el) and el.is_lambda():
            arr = named(el)
            cur = st.heap['$elems']
            if z3.is_app(cur) and cur.decl().kind() == z3.Z3_OP_STORE and cur.arg(1).eq(r):
                st.heap['$elems'] = z3.Store(cur.arg(0), r, arr)       # drop the lambda altogether
            else:
                st.write(r, '$elems', arr)
    return out


# ---- sorted(): the same LIBSPEC facts once more, with triggers on the SOURCE and on the RESULT elements -----------------
_orig_sorted = None


def _b_sorted(ex, st, args, kw, node):
    out = _orig_sorted(ex, st, args, kw, node)
    if not _mine(ex) or kw:
        return out
    n, arr, _ety = lib.seq_parts(ex, st, args[0])
    SEQ = z3.ArraySort(I, Val)
    out_arr = uf('sorted_arr', SEQ, I, SEQ)(arr, n)
    perm = uf('sorted_perm', SEQ, I, z3.ArraySort(I, I))(arr, n)
    inv = uf('sorted_inv', SEQ, I, z3.ArraySort(I, I))(arr, n)
    j = z3.Int(fresh_name('j'))
    rng = z3.And(j >= 0, j < n)
    sarr = z3.simplify(arr)          # `select(store(elems, r, a), r)` -> a: the trigger E-matching actually meets
    # consequences of the bijection axioms of the core LIBSPEC (nothing new is assumed): every source element sits
    # at position inv[j] of the result, every result element comes from position perm[j] of the source
    try:
        st.assume(z3.ForAll([j], z3.Implies(rng, z3.And(z3.Select(inv, j) >= 0, z3.Select(inv, j) < n,
                                                       z3.Select(perm, z3.Select(inv, j)) == j,
                                                       z3.Select(out_arr, z3.Select(inv, j)) == z3.Select(arr, j))),
                            patterns=[z3.Select(arr, j)] + ([z3.Select(sarr, j)] if not sarr.eq(arr) else [])))
        j2 = z3.Int(fresh_name('j'))
        st.assume(z3.ForAll([j, j2], z3.Implies(z3.And(j >= 0, j < j2, j2 < n), z3.Select(inv, j) != z3.Select(inv, j2)),
                            patterns=[z3.MultiPattern(z3.Select(inv, j), z3.Select(inv, j2))]))
        st.assume(z3.ForAll([j], z3.Implies(rng, z3.And(z3.Select(perm, j) >= 0, z3.Select(perm, j) < n,
                                                       z3.Select(out_arr, j) == z3.Select(arr, z3.Select(perm, j)))),
                            patterns=[z3.Select(out_arr, j)]))
    except z3.Z3Exception:
        pass
    return out


# ---- super().__init__(...) of a constructor under contract: inlined ------------------------------------------------
# ENGINE (core): `super().__init__(name)` applies the sidecar contract registered for the base constructor.  The C16
# contract of MultipleExpression.__init__ (round 1) only says `self.name == name`; that Expression.__init__ gives the
# object a FRESH EMPTY `children` list is not in it, so in Catalog.__init__ the list `self.children` would be an
# arbitrary pre-existing list that may alias the inputs.  For the qualified names listed in INLINE_SUPER_INIT the
# base constructor body is executed in place instead (what the engine does for any callee without a contract); the
# contract of the base constructor stays verified on its own.
INLINE_SUPER_INIT: set = set()
_orig_call_pyobj = None


# ---- classmethods: `cls` is the declaring class ----------------------------------------------------------------------
# ENGINE (core): the parameter `cls` of a classmethod is an untyped value, `cls(...)` an uninterpreted call, and a call
# `C.m(...)` of a classmethod binds no `cls`.  Here (C16 only): inside a classmethod `cls` denotes the declaring class
# (A-CLS: no subclass is considered; contracts/c16c_static.py checks that the class has no subclass in the package) and
# a call through the class passes it.
_orig_e_name = None
_orig_call_repo_function = None


def _e_Name(self, st, node):
    if _mine(self) and node.id == 'cls' and self.frames and not st.spec:
        f = self.frame.func
        if f is not None and f.cls and 'classmethod' in f.decorators:
            self.ctx.note(f'A-CLS (c16c): inside the classmethod {f.qualname}, cls is the declaring class {f.cls}')
            return VV.v_py(('class', self.repo.find_class(f.cls, f.module)))
    return _orig_e_name(self, st, node)


def _call_repo_function(self, st, fi, args, kwargs, node, recv_cls=None):
    if _mine(self) and 'classmethod' in fi.decorators and fi.cls:
        first = args[0] if args else None
        if not (first is not None and first.kind == 'py' and first.py and first.py[0] == 'class'):
            args = [VV.v_py(('class', self.repo.find_class(fi.cls, fi.module)))] + list(args)
    return _orig_call_repo_function(self, st, fi, args, kwargs, node, recv_cls=recv_cls)


# ---- a (non-pure) contract WITHOUT modifies applied under a binder ---------------------------------------------------
# ENGINE (core): inside a comprehension of symbolic length the element is evaluated once under a binder j; a callee
# contract that is not declared `pure` would get ONE fresh result constant for every j (unsound; the core now refuses
# it: "contract not pure under a quantifier / comprehension binder").  A contract that modifies nothing denotes a
# function of its arguments and of the heap it reads, so here (C16 only) it is applied as a pure contract whose
# `reads` are all the fields its requires/ensures mention (plus the container internals): result = F(args, those
# heap arrays), one value per j.  A contract with a non-empty `modifies` stays refused.
_orig_apply_contract = None


def _fields_of(con) -> list:
    out = []
    for src in list(con.requires.values()) + list(con.ensures.values()):
        for n in ast.walk(ast.parse(src, mode='eval')):
            if isinstance(n, ast.Attribute) and n.attr not in out:
                out.append(n.attr)
    return sorted(out) + ['$len', '$elems', '$dom', '$map']


def _apply_contract(self, st, con, args, kwargs, node):
    if _mine(self) and st.bound and not con.pure and not con.modifies:
        import copy
        con2 = copy.copy(con)
        con2.pure = True
        con2.reads = _fields_of(con)
        self.ctx.note(f'ENGINE (c16c) contract of {con.qualname} (modifies nothing) applied under a binder as a pure function of '
                      'its arguments and of the fields it mentions')
        return _orig_apply_contract(self, st, con2, args, kwargs, node)
    return _orig_apply_contract(self, st, con, args, kwargs, node)


# ---- iter(set) / next(iterator) ---------------------------------------------------------------------------------------
# LIBSPEC (C16 only): `iter(s)` of a set allocates an iterator object with two ghost fields: `$it_set` (the set) and
# `$it_pos` (number of elements already delivered, 0 at creation).  `next(it)` raises StopIteration iff
# $it_pos >= len(s); otherwise it returns set_enum(dom(s), $it_pos) -- the element at that position of the set's
# arbitrary but fixed enumeration (the same `set_card` / `set_enum` the core uses for `for x in s`: each member once)
# -- and increments $it_pos.  (A set that is mutated while iterated is outside the model.)
IT_CLASS = 'c16c_set_iterator'


def set_card_of(st, sv):
    return uf('set_card', I, z3.ArraySort(Val, VV.B), I)(as_ref(sv), st.set_dom(sv))


def set_enum_at(st, sv, i):
    return uf('set_enum', z3.ArraySort(Val, VV.B), I, Val)(st.set_dom(sv), i)


def _b_iter(ex, st, args, kw, node):
    if not _mine(ex) or len(args) != 1 or args[0].kind != 'set' or st.spec:
        raise Unsupported('iter()')
    r = st.new_ref('setiter')
    st.write(r, '$it_set', args[0].t)
    st.write(r, '$it_pos', VV.v_int(0).t)
    st.assume(set_card_of(st, args[0]) >= 0)
    ex.ctx.note('LIBSPEC (c16c) iter(set): iterator object with ghost fields $it_set, $it_pos = 0')
    return VV.v_ref(r, IT_CLASS)


def _b_next(ex, st, args, kw, node):
    if not _mine(ex) or len(args) != 1 or st.spec:
        raise Unsupported('next()')
    it = args[0]
    if not ((it.kind == 'ref' and it.ty.cls in (IT_CLASS, None)) or it.kind == 'any'):
        raise Unsupported(f'next() of a {it.kind} value that is not a set iterator')
    r = as_ref(it)
    sv = V(st.read(r, '$it_set'), VV.TSet(VV.ANY))
    pos = VV.as_int(V(st.read(r, '$it_pos'), VV.INT))
    ex.ctx.note('LIBSPEC (c16c) next(set iterator): StopIteration iff $it_pos >= len(set); else the element at $it_pos of '
                'the fixed enumeration of the set, $it_pos += 1')
    if not ex.decide(st, pos < set_card_of(st, sv)):
        raise Raised('StopIteration')
    val = set_enum_at(st, sv, pos)
    st.write(r, '$it_pos', VV.v_int(z3.simplify(pos + 1)).t)
    return V(val, VV.ANY)


# ---- assignment to a property that has a setter -------------------------------------------------------------------------
# ENGINE (core): `obj.p = v` always writes the field p, also when the class defines `@p.setter`.  Here (C16 only): the
# setter body is executed (the class table keeps the last `def p`, which is the setter).
_orig_store_attr = None


def _store_attr(self, st, obj, name, v, node):
    if _mine(self) and obj.kind == 'ref' and obj.ty.cls:
        fi = self.repo.resolve_method(obj.ty.cls, name)
        if fi is not None and any(d.endswith('.setter') for d in fi.decorators):
            self.ctx.note(f'ENGINE (c16c) assignment to the property {fi.qualname}: the setter is executed')
            self.call_repo_function(st, fi, [obj, v], {}, node, recv_cls=obj.ty.cls)
            return
    return _orig_store_attr(self, st, obj, name, v, node)


class _WithoutContract:
    """The contract registry minus the contract of one qualified name (everything else delegated)."""

    def __init__(self, real, qualname):
        self._real, self._q = real, qualname

    def get(self, qualname, self_class=None):
        return None if qualname == self._q else self._real.get(qualname, self_class)

    def __getattr__(self, name):
        return getattr(self._real, name)


def _call_pyobj(ex, st, fv, args, kwargs, node):
    p = fv.py
    if _mine(ex) and p[0] == 'boundfi' and p[2].qualname in INLINE_SUPER_INIT:
        real = ex.ctx.registry
        ex.ctx.registry = _WithoutContract(real, p[2].qualname)
        try:
            ex.ctx.note(f'ENGINE (c16c) super().__init__: body of {p[2].qualname} executed in place (its contract does not '
                        'describe the fields set by Expression.__init__)')
            return ex.call_repo_function(st, p[2], [p[1]] + args, kwargs, node)
        finally:
            ex.ctx.registry = real
    return _orig_call_pyobj(ex, st, fv, args, kwargs, node)


_INSTALLED = False


def install():
    """ALL patches are installed here, on demand: contracts/c16c_*.py call it once pyvc is fully imported (this file is
    auto-loaded by pyvc.lib for every property; importing it alone changes nothing).  Every wrapper additionally
    declines unless a function of property C16 is being verified."""
    global _INSTALLED, _orig_binop, _orig_set_of, _orig_py_eq, _orig_type, _orig_e_tuple, _orig_unpack
    global _orig_apply_contract, _orig_sorted, _prev_comprehension, _orig_call_pyobj, _orig_e_name, _orig_call_repo_function, _orig_store_attr
    if _INSTALLED:
        return
    _INSTALLED = True
    _orig_binop = SE.Executor.binop
    SE.Executor.binop = _binop
    _orig_set_of = lib.set_of          # `_b_set` reaches it through the module global
    lib.set_of = _set_of
    _orig_py_eq = SE.Executor.py_eq
    SE.Executor.py_eq = _py_eq
    _orig_type = lib.BUILTINS['type']
    lib.BUILTINS['type'] = _b_type
    _orig_e_tuple = SE.Executor._e_Tuple
    SE.Executor._e_Tuple = _e_Tuple
    lib.HOOKS['construct_special'].append(_construct_namedtuple_block)
    _orig_unpack = SE.Executor.unpack
    SE.Executor.unpack = _unpack
    _prev_comprehension = lib.comprehension
    lib.comprehension = _comprehension
    _orig_call_pyobj = lib.call_pyobj
    lib.call_pyobj = _call_pyobj
    _orig_apply_contract = SE.Executor.apply_contract
    SE.Executor.apply_contract = _apply_contract
    lib.BUILTINS['iter'] = _b_iter
    lib.BUILTINS['next'] = _b_next
    _orig_sorted = lib.BUILTINS['sorted']
    lib.BUILTINS['sorted'] = _b_sorted
    _orig_store_attr = SE.Executor.store_attr
    SE.Executor.store_attr = _store_attr
    _orig_e_name = SE.Executor._e_Name
    SE.Executor._e_Name = _e_Name
    _orig_call_repo_function = SE.Executor.call_repo_function
    SE.Executor.call_repo_function = _call_repo_function
