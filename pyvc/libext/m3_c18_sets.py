"""libext (C18, tag m3): the LIBSPEC of set iteration as FACTS while a function of property C18 is verified.

The core only notes "arbitrary fixed order, each member once" for `for x in a_set`; the facts themselves
(members <-> enumerated positions, a bijection on [0, len)) are those of pyvc/libext/c19_sets.py, which asserts them
for C19 only.  Here they are asserted for C18 (Mdcev.forecast_bisection_one_draw completes the consumptions over
`self.alternatives`).  Everything else is delegated unchanged.
"""
from pyvc import lib
from pyvc.libext.c19_sets import set_enum_axioms
from pyvc.vals import REAL

# specification name (no code calls it): c18_total(model, choice set, multiplier, draw, row) = the total consumption of the
# choice set at that multiplier, i.e. the sum of the dict optimal_consumption returns for these arguments
lib.PURE_LIB.setdefault('c18_total', REAL)

_orig_iter_view = lib.iter_view


def _iter_view(ex, st, v, node=None):
    view = _orig_iter_view(ex, st, v, node)
    if v.kind == 'set' and ex.ctx.prop == 'C18':
        set_enum_axioms(ex, st, v)
    return view


lib.iter_view = _iter_view


# sum(d.values()) of a dictionary, C18 only: ONE term for one dictionary state.  The core builds the sequence of values as
# a z3 lambda over a fresh bound variable, so two evaluations of the same sum (one in the code, one in a specification) give
# alpha-equivalent but syntactically different terms that the solvers do not identify.  Here the sum is the uninterpreted
# function dict_values_sum(map, keys, length) of exactly the data that determine it (weaker than the core's seq_sum, which
# also unfolds; nothing in C18 needs the unfolding).
import z3  # noqa: E402

from pyvc.vals import I, R, Val, as_ref, uf, v_real  # noqa: E402

_orig_sum = lib.BUILTINS['sum']


def _sum(ex, st, args, kw, node):
    if ex.ctx.prop == 'C18' and len(args) == 1 and not kw and args[0].kind == 'py' and args[0].py[0] == 'dictview' \
            and args[0].py[2] == 'values':
        d = args[0].py[1]
        r = as_ref(d)
        f = uf('dict_values_sum', z3.ArraySort(Val, Val), z3.ArraySort(I, Val), I, R)
        ex.ctx.note('LIBSPEC sum(dict.values()): uninterpreted function of the dictionary content (C18)')
        return v_real(f(st.read(r, '$map'), st.read(r, '$elems'), st.read(r, '$len')))
    return _orig_sum(ex, st, args, kw, node)


lib.BUILTINS['sum'] = _sum
