"""libext (C17 round 3, agent c17e): the dictionary / comprehension idioms of biogeme/segmentation.py.

SCOPE: every handler is active only while a function of biogeme.segmentation is verified for property C17
(ctx.prop == 'C17' and ctx.fn_label starts with 'segmentation.'); otherwise the core behaviour is unchanged.

LIBSPEC x in d.values():  exists a position j of the key list of d with d[keys(d)[j]] == x.
LIBSPEC next(iter(view)) for a dict view / list: StopIteration iff the view is empty, else its element at position 0
        (iter(...) yields an opaque one-shot iterator value that only next() consumes, once).
LIBSPEC {k: v for k, v in src if cond} of symbolic length: a new dict holding exactly the kept entries (see below).
LIBSPEC [e for s in A for x in inner(s)]: the flattened list, numbered by c17e_off / c17e_seg / c17e_cat (specs/c17e_specs.py);
        that the inner sequences have the lengths of that numbering is a proof obligation, not an assumption.
ENGINE  `a if c else K(...)`: paths forked on the test (the core writes the allocation of one branch unconditionally).
ENGINE  a PURE callee with a `raises` clause: under a comprehension binder the clause becomes the obligation
        safe:no-raise-under-binder:<callee>:<exception>; inside a specification its postconditions are assumed under
        `does not raise`.  The postconditions of a pure LIST-valued callee are assumed for the returned sequence value
        (the core drops them at call sites).
"""
import z3

from pyvc import lib
from pyvc.state import Raised, Unsupported
from pyvc.vals import V, Val, fresh_name, v_py

PROP = 'C17'


def _mine(ex):
    return ex.ctx.prop == PROP and getattr(ex.ctx, 'fn_label', '').startswith('segmentation.')


# ---- x in d.values() ------------------------------------------------------------------------------------------------
_orig_contains = lib.contains


def _contains(ex, st, container, item, node):
    if _mine(ex) and container.kind == 'py' and container.py[0] == 'dictview' and container.py[2] == 'values':
        view = lib.iter_view(ex, st, container, node)
        j = z3.Int(fresh_name('j'))
        el = view.get(st, j)
        ex.ctx.note('LIBSPEC (c17e) x in d.values(): some position of the key list of d holds the value x')
        return z3.Exists([j], z3.And(j >= 0, j < view.n, ex.box(st, el) == ex.box(st, item)))
    return _orig_contains(ex, st, container, item, node)


lib.contains = _contains


# ---- next(iter(view)) -----------------------------------------------------------------------------------------------
_orig_iter = lib.BUILTINS.get('iter')
_orig_next = lib.BUILTINS.get('next')


def _b_iter(ex, st, args, kw, node):
    if _mine(ex) and len(args) == 1 and not kw and not st.spec and (
            (args[0].kind == 'py' and args[0].py[0] == 'dictview') or args[0].kind in ('list', 'dict')):
        return v_py(('c17e_iter', args[0]))
    if _orig_iter is None:
        raise Unsupported('iter()')
    return _orig_iter(ex, st, args, kw, node)


def _b_next(ex, st, args, kw, node):
    if _mine(ex) and len(args) == 1 and not kw and args[0].kind == 'py' and args[0].py[0] == 'c17e_iter':
        # the iterator value is consumed where it is created (next(iter(...))): no state to advance
        view = lib.iter_view(ex, st, args[0].py[1], node)
        ex.ctx.note('LIBSPEC (c17e) next(iter(view)): StopIteration iff the view is empty, else its first element')
        if not ex.decide(st, view.n > 0):
            raise Raised('StopIteration')
        return view.get(st, z3.IntVal(0))
    if _orig_next is None:
        raise Unsupported('next()')
    return _orig_next(ex, st, args, kw, node)


lib.BUILTINS['iter'] = _b_iter
lib.BUILTINS['next'] = _b_next


# ---- `a if c else K(...)`: a conditional expression with a call in a branch ------------------------------------------
# ENGINE  the core evaluates both branches of a conditional expression in ONE state (facts guarded by the test, heap writes
#         not): an object allocated in one branch (`variable if isinstance(variable, Variable) else Variable(variable)`)
#         is written unconditionally and its reference is unconstrained on the other branch -> spurious frame failures.
#         Here (outside binders / specifications) the paths are forked on the test: more paths, never fewer facts.
import ast as _ast                                 # noqa: E402
from pyvc import symexec as _symexec               # noqa: E402

_orig_ifexp = _symexec.Executor._e_IfExp


def _e_IfExp(self, st, node):
    if (_mine(self) and not st.bound and not st.spec
            and any(isinstance(n, _ast.Call) for b in (node.body, node.orelse) for n in _ast.walk(b))):
        c = z3.simplify(self.truth(st, self.ev(st, node.test)))
        if z3.is_true(c):
            return self.ev(st, node.body)
        if z3.is_false(c):
            return self.ev(st, node.orelse)
        if self.decide(st, c):
            return self.ev(st, node.body)
        return self.ev(st, node.orelse)
    return _orig_ifexp(self, st, node)


_symexec.Executor._e_IfExp = _e_IfExp


# ---- {k: v for k, v in src if cond} of symbolic length -----------------------------------------------------------
# LIBSPEC a filtered dict comprehension over a source of symbolic length n (core: out of subset).  The result is a NEW dict d:
#           x in d        <=>  some position j < n is kept (cond(j)) and key(j) == x
#           d[key(j)]     ==   value(j)    for every kept position j that is the LAST kept one with that key
#           keys(d)       is a duplicate-free enumeration of the domain (representation invariant of a Python dict), of
#                         length <= n, and follows the source order: keys(d)[i] == key(src(i)) with src strictly increasing
#                         over kept positions (stated for pairwise distinct keys - the items of a dict)
from pyvc.vals import ANY as _ANY, I as _I, as_ref as _as_ref, fresh_int as _fresh_int      # noqa: E402

_orig_comprehension = lib.comprehension


def _filtered_dict(ex, st, node):
    gen = node.generators[0]
    itv = ex.ev(st, gen.iter)
    view = lib.iter_view(ex, st, itv, gen.iter)
    if ex.concrete_int(view.n) is not None:
        return None
    saved = dict(st.locals)
    try:
        j = z3.Int(fresh_name('j'))
        guard = z3.And(j >= 0, j < view.n)
        st.bound.append((j, guard))
        try:
            ex.assign(st, gen.target, view.get(st, j))
            cond = z3.And(*[ex.truth(st, ex.ev(st, c)) for c in gen.ifs])
            kv = ex.ev(st, node.key)
            vv = ex.ev(st, node.value)
            kt, vt = ex.box(st, kv), ex.box(st, vv)
        finally:
            st.bound.pop()
    finally:
        st.locals = saved
    ex.ctx.note('LIBSPEC (c17e) filtered dict comprehension of symbolic length: new dict = kept entries (domain, values, '
                'duplicate-free key list in source order)')
    j2 = z3.Int(fresh_name('j'))
    at = lambda t, jj: z3.substitute(t, (j, jj))      # noqa: E731
    x = z3.Const(fresh_name('x'), Val)
    # a named array with its pointwise definition (a z3 lambda stored in the heap makes the quantified queries diverge)
    dom = z3.Const(fresh_name('fdom'), z3.ArraySort(Val, z3.BoolSort()))
    st.assume(z3.ForAll([x], z3.Select(dom, x) == z3.Exists([j], z3.And(guard, cond, kt == x)), patterns=[z3.Select(dom, x)]))
    mp = z3.Const(fresh_name('fmap'), z3.ArraySort(Val, Val))
    later_same = z3.Exists([j2], z3.And(j2 > j, j2 < view.n, at(cond, j2), at(kt, j2) == kt))
    st.assume(z3.ForAll([j], z3.Implies(z3.And(guard, cond, z3.Not(later_same)), z3.Select(mp, kt) == vt)))
    d = st.new_dict(kv.ty, vv.ty)
    r = _as_ref(d)
    st.write(r, '$dom', dom)
    st.write(r, '$map', mp)
    klen = _fresh_int('fklen')
    kel = z3.Const(fresh_name('fkel'), z3.ArraySort(_I, Val))
    st.assume(z3.And(klen >= 0, klen <= view.n))
    st.write(r, '$len', klen)
    st.write(r, '$elems', kel)
    st.assume_wf_dict(d)
    # source order (keys pairwise distinct): keys(d)[i] == key(src(i)), src strictly increasing, kept positions only
    src = z3.Const(fresh_name('fsrc'), z3.ArraySort(_I, _I))
    i1, i2 = z3.Int(fresh_name('i')), z3.Int(fresh_name('i'))
    distinct = z3.ForAll([j, j2], z3.Implies(z3.And(j >= 0, j < j2, j2 < view.n), kt != at(kt, j2)))
    s1 = z3.Select(src, i1)
    st.assume(z3.Implies(distinct, z3.And(
        z3.ForAll([i1], z3.Implies(z3.And(i1 >= 0, i1 < klen),
                                   z3.And(s1 >= 0, s1 < view.n, at(cond, s1), z3.Select(kel, i1) == at(kt, s1)))),
        z3.ForAll([i1, i2], z3.Implies(z3.And(i1 >= 0, i1 < i2, i2 < klen), s1 < z3.Select(src, i2))))))
    return d


# ---- [e for s in A for x in inner(s)]: a list comprehension with two generators ---------------------------------------
# LIBSPEC (core: out of subset) the flattened list F of the inner sequences inner(A[0]), inner(A[1]), ...:
#           len(F) == off(len(A)),   F[p] == e(A[seg(p)], inner(A[seg(p)])[cat(p)])   for 0 <= p < len(F)
#         where (off, seg, cat) is the numbering of the (outer, inner) positions for the lengths n(s) - the DEFINED symbols
#         c17e_off / c17e_seg / c17e_cat of specs/c17e_specs.py, whose n(s) is len(A[s].mapping).  That the inner sequences
#         have these lengths is NOT assumed: it is the proof obligation
#         `lemma:flatten:inner-lengths-are-the-numbers-of-categories` (for every s).  No filters, outside binders only.
def _flatten(ex, st, node):
    from specs import c17e_specs as SP
    g0, g1 = node.generators
    outer = ex.ev(st, g0.iter)
    if outer.kind not in ('list', 'tuple') or outer.t is None:
        raise Unsupported('nested comprehension over a non-list outer sequence')
    view0 = lib.iter_view(ex, st, outer, g0.iter)
    SP.assume_definition(ex, st, outer)
    saved = dict(st.locals)
    s = z3.Int(fresh_name('fs'))
    q = z3.Int(fresh_name('fq'))
    try:
        st.bound.append((s, z3.And(s >= 0, s < view0.n)))
        try:
            ex.assign(st, g0.target, view0.get(st, s))
            inner = ex.ev(st, g1.iter)
            view1 = lib.iter_view(ex, st, inner, g1.iter)
            n_in = view1.n
            n_spec = as_int_(SP.eval_text(ex, st, SP.LENGTH_TEXT, {'segs': outer, 's': v_int_(s)}))
            s2 = st.copy()
            ex.ctx.add_oblig(s2, 'lemma', 'flatten:inner-lengths-are-the-numbers-of-categories', n_in == n_spec,
                             line=getattr(node, 'lineno', 0))
            st.assume(n_in == n_spec)
            st.bound.append((q, z3.And(q >= 0, q < n_in)))
            try:
                ex.assign(st, g1.target, view1.get(st, q))
                elt = ex.ev(st, node.elt)
                et = ex.box(st, elt)
            finally:
                st.bound.pop()
        finally:
            st.bound.pop()
    finally:
        st.locals = saved
    ex.ctx.note('LIBSPEC (c17e) [e for s in A for x in inner(s)]: the flattened list, element p = e at (seg(p), cat(p)), length '
                'off(len(A)); lengths of the inner sequences proved equal to those of the numbering')
    n_tot = SP.off_term(outer, view0.n)
    arr = z3.Const(fresh_name('flat'), z3.ArraySort(_I, Val))
    p = z3.Int(fresh_name('fp'))
    at = z3.substitute(et, (s, SP.seg_term(outer, p)), (q, SP.cat_term(outer, p)))
    st.assume(z3.ForAll([p], z3.Implies(z3.And(p >= 0, p < n_tot), z3.Select(arr, p) == at), patterns=[z3.Select(arr, p)]))
    return st.new_list_sym(n_tot, arr, elt.ty)


from pyvc.vals import as_int as as_int_, v_int as v_int_      # noqa: E402


def _comprehension(ex, st, node, kind):
    if _mine(ex) and not st.bound and not st.spec:
        if kind == 'dict' and len(node.generators) == 1 and node.generators[0].ifs:
            d = _filtered_dict(ex, st, node)
            if d is not None:
                return d
        if kind == 'list' and len(node.generators) == 2 and not any(g.ifs for g in node.generators):
            return _flatten(ex, st, node)
    return _orig_comprehension(ex, st, node, kind)


lib.comprehension = _comprehension


# ---- a pure contract with a `raises` clause applied under a binder ---------------------------------------------------
# ENGINE  the core forks on a callee's `raises` condition, which is impossible under a comprehension binder (out of subset).
#         Here: the condition, evaluated in the callee's environment under the binder, becomes the proof obligation
#         `safe:no-raise-under-binder:<callee>:<exception>` (for ALL instances of the bound variable the callee does not
#         raise), and the call continues on the non-raising path.  Nothing is assumed that is not proved.
#         Inside a SPECIFICATION (core: out of subset) the application is the total term F(args) and the callee's
#         postconditions are assumed under the guard `the callee does not raise`.
_orig_apply_contract = _symexec.Executor.apply_contract


class _NoRaises:
    """view of a contract without its raises clause (the clause has just been turned into an obligation)"""

    def __init__(self, con):
        self._con = con
        self.raises = {}

    def __getattr__(self, name):
        return getattr(self._con, name)


def _in_callee_env(self, st, con, args, kwargs, body):
    """run body() with the locals of the callee bound to the call's arguments (specification text of the callee's contract)"""
    fi = self.repo.function(con.qualname)
    caller_locals = st.locals
    st.locals = {}
    self.frames.append(_symexec.Frame(self.repo.modules[fi.module], fi, depth=self.frame.depth + 1))
    try:
        self.bind_params(st, fi.node.args, args, kwargs, fi)
        env = dict(st.locals)
        for nme, tsrc in con.types.items():
            if nme in env and env[nme].kind in ('any', 'opt'):
                env[nme] = env[nme].with_ty(self.ptype(tsrc))
        st.locals = env
        return body(fi)
    finally:
        self.frames.pop()
        st.locals = caller_locals


def _apply_contract(self, st, con, args, kwargs, node):
    if not (_mine(self) and con.pure and not con.modifies):
        return _orig_apply_contract(self, st, con, args, kwargs, node)
    conds = []
    use = con
    if (st.bound or st.spec) and con.raises:
        def raises_part(fi):
            for exc, csrc in con.raises.items():
                if st.spec:
                    # inside a specification the application F(args) is a total term; what the contract says about it
                    # is assumed only where the callee does not raise
                    conds.append(z3.Not(self.spec_bool(st, csrc, {})))
                    continue
                s2 = st.copy()
                c = self.spec_bool(s2, csrc, {})
                self.ctx.add_oblig(s2, 'safe', f'no-raise-under-binder:{fi.name}:{exc}', z3.Not(c), line=getattr(node, 'lineno', 0))
                st.assume(z3.Not(self.spec_bool(st, csrc, {})))
        _in_callee_env(self, st, con, args, kwargs, raises_part)
        use = _NoRaises(con)
    st.guards.extend(conds)
    try:
        res = _orig_apply_contract(self, st, use, args, kwargs, node)
        if res.kind == 'py' and res.py and res.py[0] == 'specseq' and con.ensures:
            # ENGINE the core returns the sequence VALUE of a pure list-valued callee before its postconditions are assumed
            # (they are lost at call sites); here the VERIFIED postconditions are assumed for that value
            def ensures_part(fi):
                st.locals = dict(st.locals)
                st.locals['result'] = res
                saved0 = (st.heap0, st.locals0)
                st.heap0, st.locals0 = dict(st.heap), dict(st.locals)
                try:
                    for label, src in con.ensures.items():
                        st.assume(self.spec_bool(st, src, {}))
                finally:
                    st.heap0, st.locals0 = saved0
            _in_callee_env(self, st, con, args, kwargs, ensures_part)
        return res
    finally:
        if conds:
            del st.guards[-len(conds):]


_symexec.Executor.apply_contract = _apply_contract
