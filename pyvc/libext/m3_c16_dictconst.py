"""libext (C16, tag m3): a dict comprehension whose VALUE is a literal maps every key to that literal.

The core model of `{key(x): value(x) for x in xs}` of symbolic length says `map[key(j)] == value(j)` for every position j
that is not followed by a later position with the same key (last occurrence wins).  When the value is a literal constant
(`{c.controller_name: False for c in self.controllers}` in CentralController.set_configuration) every key maps to the
literal whatever the repetitions; deriving that from the core facts needs "there is a LAST position with this key"
(well-ordering), which the solvers do not find.  The fact is stated here directly:
        forall x: x in dom(d)  ->  map(d)[x] == literal
Active only while a function of property C16 is verified; everything else is delegated unchanged.
"""
import ast

import z3

from pyvc import lib
from pyvc.vals import Val, as_ref, fresh_name

_prev = lib.comprehension


def _comprehension(ex, st, node, kind):
    out = _prev(ex, st, node, kind)
    if kind == 'dict' and ex.ctx.prop == 'C16' and isinstance(node, ast.DictComp) and isinstance(node.value, ast.Constant) \
            and out.kind == 'dict' and not node.generators[0].ifs:
        lit = ex.box(st, ex.ev(st, node.value))
        r = as_ref(out)
        dom, mp = st.read(r, '$dom'), st.read(r, '$map')
        x = z3.Const(fresh_name('dcx'), Val)
        st.assume(z3.ForAll([x], z3.Implies(z3.Select(dom, x), z3.Select(mp, x) == lit), patterns=[z3.Select(mp, x)]))
        ex.ctx.note('LIBSPEC (m3) dict comprehension with a literal value: every key maps to the literal')
    return out


lib.comprehension = _comprehension
