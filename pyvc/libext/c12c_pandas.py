"""LIBSPEC-pd (C12, round 2, agent c12c): the pandas / numpy members read by the data audit of biogeme.database.

SCOPE: active only while a function of property C12 whose qualified name starts with `biogeme.database.Database.` is verified.

ASSUMED about the dependency (everything else about a DataFrame is left uninterpreted):
  df.dtypes.items()                  enumerates the columns of df once each, in column order: position j yields the pair
                                     (label j of df.columns, dtype of column j); the number of pairs is the number of column labels
                                     (the same `pdindex_len / pdindex_arr` of df.columns that core_pandas uses for columns.to_list())
  np.issubdtype(dtype, np.number)    a deterministic predicate of the dtype value:  np.is_number_dtype(dtype)
  df.isnull().values.any()           a deterministic predicate of the frame:        pd.has_null(df)
  len(df.index)                      the number of rows (engine builtin obj_len of the index handle; non-negative)
"""
import ast as _ast

import z3

from pyvc import lib
from pyvc import vals as VV
from pyvc.state import Unsupported
from pyvc.vals import ANY, B, I, V, Val, as_ref, uf, v_bool, v_py, v_ref

SEQ = z3.ArraySort(I, Val)


def _mine(ex):
    if ex.ctx.prop != 'C12' or not ex.frames:
        return False
    f = ex.frames[0].func
    return f is not None and f.qualname.startswith('biogeme.database.Database.')


def columns_of(df_ref):
    """(number of columns, labels) of a frame reference: the handles core_pandas gives to df.columns"""
    cols = uf('df_columns', I, I)(df_ref)
    return uf('pdindex_len', I, I)(cols), uf('pdindex_arr', I, SEQ)(cols)


def dtypes_of(df_ref):
    return uf('pd.dtypes_arr', I, SEQ)(df_ref)


def is_number_dtype(t):
    return uf('np.is_number_dtype', Val, B)(t)


def has_null(df_ref):
    return uf('pd.has_null', I, B)(df_ref)


@lib.hook('ref_attr')
def _attr(ex, st, obj, name, node):
    if not _mine(ex):
        return None
    cls = obj.ty.cls
    if cls == 'DataFrame' and name == 'dtypes':
        return v_ref(uf('df_dtypes', I, I)(as_ref(obj)), 'PdDtypes')
    if cls == 'PdIsNull' and name == 'values':
        return v_ref(as_ref(obj), 'PdIsNullValues')
    return None


@lib.hook('ref_method')
def _method(ex, st, recv, name, args, kwargs, node):
    if not _mine(ex):
        return None
    cls = recv.ty.cls
    if cls == 'DataFrame' and name == 'isnull' and not args and not kwargs:
        return v_ref(as_ref(recv), 'PdIsNull')          # same handle: the mask is a function of the frame
    if cls == 'PdIsNullValues' and name == 'any' and not args and not kwargs:
        ex.ctx.note('LIBSPEC-pd(c12c) df.isnull().values.any(): deterministic predicate pd.has_null(df)')
        return v_bool(has_null(as_ref(recv)))
    if cls == 'PdDtypes' and name == 'items' and not args and not kwargs:
        # recv = df_dtypes(df): recover df through the inverse handle (df_dtypes is applied to a frame reference)
        t = z3.simplify(as_ref(recv))
        if not (z3.is_app(t) and t.decl().name() == 'df_dtypes'):
            raise Unsupported('dtypes of an unknown frame')
        df = t.arg(0)
        n, labels = columns_of(df)
        st.assume(n >= 0)
        ex.ctx.note('LIBSPEC-pd(c12c) df.dtypes.items(): the pairs (column label j, dtype of column j), j over the columns in order')
        return v_py(('zip', [v_py(('specseq', n, labels, ANY)), v_py(('specseq', n, dtypes_of(df), ANY))]))
    return None


def _issubdtype(ex, st, args, kwargs, node):
    if not _mine(ex):
        raise Unsupported('numpy.issubdtype outside the C12 data audit')
    second = node.args[1] if isinstance(node, _ast.Call) and len(node.args) == 2 else None
    if second is None or _ast.unparse(second) not in ('np.number', 'numpy.number'):
        raise Unsupported('numpy.issubdtype with a second argument other than np.number')
    ex.ctx.note('LIBSPEC-np(c12c) np.issubdtype(dtype, np.number): deterministic predicate np.is_number_dtype(dtype)')
    return v_bool(is_number_dtype(ex.box(st, args[0])))


lib.LIB_HANDLERS.setdefault('numpy.issubdtype', _issubdtype)

_orig_lib_attr = lib.lib_attr


def _lib_attr(ex, st, dotted, name):
    r = _orig_lib_attr(ex, st, dotted, name)
    if r is None and f'{dotted}.{name}' == 'numpy.number' and _mine(ex):
        return v_py(('lib', 'numpy.number'))
    return r


lib.lib_attr = _lib_attr
