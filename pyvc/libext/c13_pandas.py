"""LIBSPEC-pd (C13): assumed contracts of the handful of pandas / numpy members used by the row
selection arithmetic of biogeme.database (split, extract_rows, sample_*).

DataFrames, Series, Index objects and numpy id arrays are OPAQUE handles (references of class
DataFrame / Series / Index / ILoc / NDArray).  Every member is a pure uninterpreted function
`pd.<member>(receiver, args...)` of the handles, except the members that carry positions, whose
result is a NEW frame object described by ghost heap fields (read by the spec observers of
specs/c13_pd.py; no quantified facts are assumed):

  df.iloc[P]            POSITIONAL take     r: pd_src(r) = df, pd_npos(r) = len(P), pd_pos(r, j) = P[j]
                                            (obligation: every P[j] lies inside the table)
  df.loc[L]             LABEL take          opaque frame pd.loc_take(df, L): no positional description (round 3)
  pd.concat(L)          row concatenation   r: pd_nparts(r) = len(L), pd_part(r, j) = L[j]
  np.array_split(x, k)  k consecutive chunks covering x (sizes differ by <= 1): list of length k,
                        element j = pd.chunk(x, k, j)              (obligation: k >= 1)
  np.random.randint(lo, hi, size=n)   fresh list of n integers, each in [lo, hi)
                                            (obligations: hi > lo or n == 0; n >= 0)
  np.random.shuffle(a)  in-place permutation: the content of the array object a becomes pd.shuffled(content)
  s.unique()            new array object whose content is pd.unique(s)
  df[col], df[mask], s.isin(a), df.sample(frac=..), df.index, df.columns : pure pd.col / pd.mask / pd.isin /
                        pd.sample$frac / pd.index / pd.columns
  len(x)                the engine builtin (called, not redefined); a frame and its .index have the same len

In-place mutation of a frame (drop(inplace=True), df[c] = ..., df[c] *= s) is NOT modelled here: a function
that needs it is decided by the bounded stand-in instead.

SCOPE: every hook / handler below acts only while a function of property C13 is verified
(ex.ctx.prop == 'C13'); for every other property it declines, so the pandas models of other
properties (c19_pandas, core_pandas, c14_fs) are untouched.
Every member used is recorded with ctx.note and so listed among the assumptions of the evidence.
"""
from __future__ import annotations

import ast

import z3

from .. import lib
from ..state import Unsupported
from ..vals import ANY, I, INT, T, V, Val, as_int, as_ref, fresh_name, uf, v_none

PD_CLASSES = ('DataFrame', 'Series', 'Index', 'ILoc', 'Loc', 'NDArray')


def TPd(cls):
    return T('ref', cls=cls)


def is_pd(v: V, *cls) -> bool:
    return v.kind == 'ref' and v.ty.cls in (cls or PD_CLASSES)


def mine(ex) -> bool:
    return getattr(ex.ctx, 'prop', '') == 'C13'


def plen(ex, st, v: V, node=None):
    """z3 Int: len(v) of a pandas handle, as the engine's `len` builtin defines it"""
    if v.ty.cls not in ('DataFrame',):
        v = V(v.t, TPd('DataFrame'))
    n = as_int(lib.BUILTINS['len'](ex, st, [v], {}, node))
    # the builtin may describe len() of a frame-typed and of an Optional-typed expression with two different
    # uninterpreted functions (obj_len for the latter): they denote the same number of rows
    st.assume(uf('obj_len', Val, I)(v.t) == n)
    return n


def pd_fun(ex, st, name: str, args: list[V], rcls: str | None) -> V:
    """pure uninterpreted pandas member `pd.<name>` of the (boxed) arguments"""
    ex.ctx.note(f'LIBSPEC-pd {name}: pure uninterpreted function of opaque handles')
    f = uf('pd.' + name, *([Val] * len(args)), Val)
    return V(f(*[ex.box(st, a) for a in args]), TPd(rcls) if rcls else ANY)


# handlers of library functions: dispatched for C13 only, in front of lib.call_lib -------------
C13_HANDLERS: dict = {}


def c13_handler(name):
    def deco(f):
        C13_HANDLERS[name] = f
        return f
    return deco


_orig_call_lib = lib.call_lib


def _call_lib(ex, st, dotted, args, kwargs, node):
    if mine(ex) and dotted in C13_HANDLERS:
        return C13_HANDLERS[dotted](ex, st, args, kwargs, node)
    return _orig_call_lib(ex, st, dotted, args, kwargs, node)


lib.call_lib = _call_lib


# --------------------------------------------------------------------------------------------
@lib.hook('ref_attr')
def _pd_attr(ex, st, obj, name, node):
    if not mine(ex) or not is_pd(obj):
        return None
    if obj.ty.cls == 'DataFrame':
        if name == 'index':
            r = pd_fun(ex, st, 'index', [obj], 'Index')
            st.assume(plen(ex, st, r, node) == plen(ex, st, obj, node))
            return r
        if name == 'iloc':
            r = pd_fun(ex, st, 'iloc', [obj], 'ILoc')
            st.assume(uf('pd.iloc_owner', Val, Val)(r.t) == obj.t)
            return r
        if name == 'columns':
            return pd_fun(ex, st, 'columns', [obj], 'Index')
        if name == 'loc':
            # round 3 (agent m2): label-based indexer, so that an edit iloc -> loc is DECIDED (it fails the positional
            # postconditions) instead of leaving the verifier's subset
            r = pd_fun(ex, st, 'loc', [obj], 'Loc')
            st.assume(uf('pd.loc_owner', Val, Val)(r.t) == obj.t)
            return r
    return None        # methods: resolved by the ref_method hook when called


def _take(ex, st, owner_t, idx: V, node) -> V:
    if idx.kind != 'list':
        raise Unsupported('iloc with a non-list argument')
    ex.ctx.note('LIBSPEC-pd iloc[list]: POSITIONAL take; row j of the result is the row at position list[j]; '
                'IndexError when a position lies outside the table')
    owner_len = plen(ex, st, V(owner_t, TPd('DataFrame')), node)
    n = st.list_len(idx)
    el = st.list_elems(idx)
    k = z3.Int(fresh_name('j'))
    inb = z3.ForAll([k], z3.Implies(z3.And(k >= 0, k < n), z3.And(
        z3.ToInt(Val.nv(z3.Select(el, k))) >= -owner_len, z3.ToInt(Val.nv(z3.Select(el, k))) < owner_len)))
    ex.oblige(st, 'safe:index', 'iloc positions within the table', inb, node)
    # new frame object; ghost description in the heap:
    #   $pdsrc = the frame the rows are taken from, $len / $elems = the positions taken, in order
    r = st.new_ref('pdtake')
    st.write(r, '$pdsrc', owner_t)
    st.write(r, '$len', n)
    st.write(r, '$elems', el)
    res = V(Val.ref(r), TPd('DataFrame'))
    st.assume(plen(ex, st, res, node) == n)
    return res


@lib.hook('ref_subscript')
def _pd_subscript(ex, st, obj, idx, node):
    if not mine(ex) or not is_pd(obj):
        return None
    cls = obj.ty.cls
    if cls == 'ILoc':
        return _take(ex, st, uf('pd.iloc_owner', Val, Val)(obj.t), idx, node)
    if cls == 'Loc':
        if idx.kind != 'list':
            raise Unsupported('loc with a non-list argument')
        ex.ctx.note('LIBSPEC-pd loc[list]: LABEL take (rows whose index label equals list[j]); an opaque frame pd.loc_take(df, list) '
                    'that is NOT described as a positional take (labels are positions only for a default index)')
        return pd_fun(ex, st, 'loc_take', [V(uf('pd.loc_owner', Val, Val)(obj.t), TPd('DataFrame')), idx], 'DataFrame')
    if cls == 'DataFrame':
        if isinstance(getattr(node, 'slice', None), ast.Compare):
            raise Unsupported('element-wise comparison of a Series (not modelled by LIBSPEC-pd)')
        if idx.kind == 'opt' and idx.ty.args[0].kind == 'str':
            ex.oblige(st, 'safe:none', 'column name', z3.Not(Val.is_none(idx.t)), node)
            idx = V(idx.t, idx.ty.args[0])
        if idx.kind == 'str':
            return pd_fun(ex, st, 'col', [obj, idx], 'Series')
        if is_pd(idx, 'Series'):
            ex.ctx.note('LIBSPEC-pd df[mask]: POSITIONAL boolean selection (rows whose mask entry is true)')
            return pd_fun(ex, st, 'mask', [obj, idx], 'DataFrame')
        raise Unsupported(f'DataFrame subscript with {idx.kind}')
    raise Unsupported(f'subscript of pandas {cls}')


@lib.hook('ref_method')
def _pd_method(ex, st, recv, name, args, kwargs, node):
    if not mine(ex) or not is_pd(recv):
        return None
    cls = recv.ty.cls
    if kwargs.get('inplace') is not None:
        raise Unsupported(f'in-place {cls}.{name} (mutation of a frame is not modelled by LIBSPEC-pd)')
    kw = [kwargs[k] for k in sorted(kwargs)]
    tag = name + ('' if not kwargs else '$' + ','.join(sorted(kwargs)))
    if cls == 'DataFrame' and name == 'sample':
        ex.ctx.note('LIBSPEC-pd DataFrame.sample(frac=1): the rows of the frame in some order, each once')
        return pd_fun(ex, st, tag, [recv] + args + kw, 'DataFrame')
    if cls == 'Series' and name == 'unique':
        ex.ctx.note('LIBSPEC-pd Series.unique(): new array object holding the distinct values')
        arr = pd_fun(ex, st, 'unique', [recv], None)
        r = st.new_ref('ndarray')
        st.write(r, '$pdarr', arr.t)
        return V(Val.ref(r), TPd('NDArray'))
    if cls == 'Series' and name == 'isin':
        ex.ctx.note('LIBSPEC-pd Series.isin(a): mask, entry j true iff the value at position j is an element of a')
        a = args[0]
        if is_pd(a, 'NDArray'):
            a = nd_content(st, a)
        return pd_fun(ex, st, 'isin', [recv, a], 'Series')
    raise Unsupported(f'pandas member {cls}.{name} has no LIBSPEC-pd entry')


def nd_content(st, a: V) -> V:
    """current content of a (mutable) numpy array object created by Series.unique()"""
    return V(st.read(as_ref(a), '$pdarr'), ANY)


@c13_handler('numpy.random.shuffle')
def _np_shuffle(ex, st, args, kwargs, node):
    a = args[0]
    if not is_pd(a, 'NDArray'):
        raise Unsupported('numpy.random.shuffle of a non-array value')
    ex.ctx.note('LIBSPEC-pd numpy.random.shuffle: in-place permutation of the array (same elements)')
    cur = st.read(as_ref(a), '$pdarr')
    st.write(as_ref(a), '$pdarr', uf('pd.shuffled', Val, Val)(cur))
    return v_none()


@c13_handler('numpy.array_split')
def _np_array_split(ex, st, args, kwargs, node):
    x, k = args[0], args[1]
    ex.ctx.note('LIBSPEC-pd numpy.array_split(x, k): list of k consecutive chunks that cover x, sizes differ by <= 1')
    kk = as_int(k)
    ex.oblige(st, 'safe:value', 'array_split: number of sections > 0', kk > 0, node)
    if is_pd(x, 'DataFrame'):
        xt, ety = x.t, TPd('DataFrame')
    elif is_pd(x, 'NDArray'):
        xt, ety = nd_content(st, x).t, ANY
    else:
        raise Unsupported('numpy.array_split of a value that is neither a frame nor an id array')
    chunk = uf('pd.chunk', Val, Val, Val, Val)
    j = z3.Int(fresh_name('j'))
    arr = z3.Lambda([j], chunk(xt, Val.num(z3.ToReal(kk)), Val.num(z3.ToReal(j))))
    return st.new_list_sym(kk, arr, ety)


@c13_handler('numpy.random.randint')
def _np_randint(ex, st, args, kwargs, node):
    lo, hi = args[0], args[1]
    size = kwargs.get('size', args[2] if len(args) > 2 else None)
    if size is None:
        raise Unsupported('numpy.random.randint without size')
    ex.ctx.note('LIBSPEC-pd numpy.random.randint(lo, hi, size=n): n integers, each in [lo, hi)')
    n, l, h = as_int(size), as_int(lo), as_int(hi)
    ex.oblige(st, 'safe:value', 'randint: empty range only with size 0', z3.Or(h > l, n == 0), node)
    ex.oblige(st, 'safe:value', 'randint: size >= 0', n >= 0, node)
    arr = z3.Const(fresh_name('rnd'), z3.ArraySort(I, Val))
    j = z3.Int(fresh_name('j'))
    st.assume(z3.ForAll([j], z3.Implies(z3.And(j >= 0, j < n), z3.And(
        Val.is_num(z3.Select(arr, j)), z3.IsInt(Val.nv(z3.Select(arr, j))),
        Val.nv(z3.Select(arr, j)) >= z3.ToReal(l), Val.nv(z3.Select(arr, j)) < z3.ToReal(h)))))
    return st.new_list_sym(n, arr, INT)


@c13_handler('pandas.concat')
def _pd_concat(ex, st, args, kwargs, node):
    if kwargs:
        raise Unsupported('pandas.concat with keyword arguments')
    parts = args[0]
    ex.ctx.note('LIBSPEC-pd pandas.concat(L): the rows of L[0], L[1], ... in this order (labels kept)')
    n, arr, _ = lib.seq_parts(ex, st, parts)
    # new frame object; ghost description in the heap: $len / $elems = the concatenated parts, in order
    r = st.new_ref('pdcat')
    st.write(r, '$len', n)
    st.write(r, '$elems', arr)
    st.write(r, '$pdsrc', Val.none)
    return V(Val.ref(r), TPd('DataFrame'))


# --------------------------------------------------------------------------------------------
# engine work-around (C13 only): a list V keeps a concrete snapshot `.items` that is shared by the
# trial runs of the loop rule and the real run; after `append` inside a loop the snapshot is stale
# (len() of the list would be a constant).  Dropping the snapshot makes every read go to the heap.
_orig_list_method = lib.list_method


def _list_method(ex, st, lst, name, args, kwargs, node):
    r = _orig_list_method(ex, st, lst, name, args, kwargs, node)
    if mine(ex) and name in ('append', 'extend', 'pop', 'sort'):
        lst.items = None
    return r


lib.list_method = _list_method


# --------------------------------------------------------------------------------------------
# EstimationValidation (a NamedTuple, immutable) as a VALUE: EV(estimation, validation) with its two
# projections.  The engine allocates ONE heap object for a constructor call inside a comprehension of
# symbolic length (the element expression is evaluated once under a bound position), which cannot
# describe n distinct tuples; a value constructor can.
def _ev_fun(name):
    return uf('c13.EV_' + name, Val, Val)


@lib.hook('construct_special')
def _ev_construct(ex, st, ci, args, kwargs, node):
    if not mine(ex) or ci.name != 'EstimationValidation':
        return None
    from ..state import Raised
    names = ['estimation', 'validation']
    vals = dict(zip(names, args))
    vals.update(kwargs)
    if set(vals) != set(names) or len(args) > 2:
        raise Raised('TypeError')
    e, v = vals['estimation'], vals['validation']
    ex.ctx.note('LIBSPEC NamedTuple EstimationValidation: immutable value EV(estimation, validation) with projections')
    t = uf('c13.EV', Val, Val, Val)(ex.box(st, e), ex.box(st, v))
    st.assume(z3.And(Val.is_ref(t), _ev_fun('estimation')(t) == ex.box(st, e), _ev_fun('validation')(t) == ex.box(st, v)))
    return V(t, T('ref', cls=ex.repo.class_key(ci)))


@lib.hook('ref_attr')
def _ev_attr(ex, st, obj, name, node):
    if not mine(ex) or obj.kind != 'ref' or not obj.ty.cls or obj.ty.cls.split('.')[-1] != 'EstimationValidation':
        return None
    if name in ('estimation', 'validation'):
        return V(_ev_fun(name)(obj.t), TPd('DataFrame'))
    return None
