"""C05 extension of LIBSPEC: numpy.log(0) == -numpy.inf (extended-real value of the logarithm at zero).

Only active when `ENABLED` is set (contracts/c05_logit.py sets it; every ./check run is one property in one
process), so other properties see the stock LIBSPEC.  The fact is a ground instance added at each application of
numpy.log met in the code or in a specification; `numpy.inf` is the engine's real constant INF.
"""
import z3

from pyvc import lib

ENABLED = False


def _log_at_zero(r, x):
    if not ENABLED:
        return z3.BoolVal(True)
    return z3.Implies(x == 0, r == -z3.Real('INF'))


lib.REAL_AXIOMS.setdefault('numpy.log', []).append(_log_at_zero)
