"""libext (C19): `[x] * n` with a symbolic integer n.

The core handles list repetition only for a literal count.  LIBSPEC (Python semantics):
`[x] * n` is a fresh list of length max(n, 0) all of whose elements are x.  Only the
one-element-literal-list case is modelled; everything else is left to the core.
SCOPE: active only for property C19 (ctx.prop); without it the expression is an uninterpreted `op_mul`.
"""
import ast

import z3

from pyvc import symexec
from pyvc.vals import I, as_int

_orig_binop = symexec.Executor.binop


def _binop(self, st, op, l, r, node):
    if isinstance(op, ast.Mult) and self.ctx.prop == 'C19':
        lst, cnt = (l, r) if l.kind == 'list' else (r, l)
        if (lst.kind == 'list' and cnt.kind == 'int' and cnt.lit is None and lst.items is not None
                and len(lst.items) == 1 and not st.spec):
            n = as_int(cnt)
            x = lst.items[0]
            self.ctx.note('LIBSPEC list repetition: [x] * n is a fresh list of max(n, 0) copies of x')
            return st.new_list_sym(z3.simplify(z3.If(n > 0, n, 0)), z3.K(I, x.t), x.ty)
    return _orig_binop(self, st, op, l, r, node)


symexec.Executor.binop = _binop
