"""libext (C19): an abstract model of the pandas operations used by sampling_of_alternatives.

ASSUMED LIBSPEC (trusted, listed as assumptions in the evidence).  A DataFrame object is a heap
object whose field `$frame` holds a table value; inside specifications a table value is used
directly (class `FrameValue`, no heap object).  The pandas operations are *free* (uninterpreted)
constructors over table values with their projections, so what is proved is WHICH operation is
applied to WHICH operand with WHICH argument (Herbrand interpretation) -- their numerical/row-level
meaning is exercised by the bounded stand-in bounded/c19_native.py with the real pandas.

  df[col]                     pd.col(F, col)                       Series value
  series == x                 pd.eq(S, x)                          mask (Series value)
  series.isin(set)            pd.isin(S, members)                  mask
  df[mask]                    pd.filter(F, M)                      new frame object
  df.copy()                   new frame object with the same table value
  len(df)                     pd.nrows(F) >= 0
  df[col] = v                 $frame := pd.setcol(F, col, v)       projections setcol_base/name/val
  df.sample(n=k, replace=b, ...)   a FRESH table value X (a new one at each call) labelled with
                              pd.sample_src(X) == F, pd.sample_n(X) == k and pd.sample_replace(X) == b  ("k rows
                              drawn from F", without replacement iff not b); that pandas does not raise here (0 <= k <= rows)
                              is NOT proved deductively (bounded stand-in)
  pd.concat(list, ignore_index=b)   pd.concat(n, parts) with projections nparts / part and the label
                              pd.renumbered(t) == b  (row labels are the positions 0..n-1 iff ignore_index=True)
  series.values, x in values  pd.has(S, x)

SCOPE: active only while a function of property C19 is verified (ctx.prop == 'C19'); declines otherwise, so the
pandas models of other properties (core_pandas, c13_pandas, c14_fs) are untouched.
"""
import ast

import z3

from pyvc import lib, symexec, vals as VV
from pyvc.state import Unsupported
from pyvc.vals import I, V, Val, TRef, as_int, as_ref, fresh_name, uf, v_bool, v_int, v_none, v_ref

B = VV.B
_DOM = z3.ArraySort(Val, B)
_PARTS = z3.ArraySort(I, Val)


def mine(ex) -> bool:
    """SCOPE: every hook / patch of this module acts only while a function of property C19 is verified."""
    return getattr(ex.ctx, 'prop', '') == 'C19'


def is_df(v):
    return v.kind == 'ref' and v.ty.cls in ('DataFrame', 'FrameValue')


def is_series(v):
    return v.kind == 'ref' and v.ty.cls in ('Series', 'SeriesValues')


def frame_of(st, v):
    ensure_axioms(st)
    if v.ty.cls == 'FrameValue':
        return v.t
    return st.read(as_ref(v), '$frame')


def mk_series(t):
    return V(t, TRef('Series'))


def mk_df(ex, st, frame):
    """A new DataFrame object holding `frame` (in specifications: the table value itself)."""
    if st.spec:
        return V(frame, TRef('FrameValue'))
    r = st.new_ref('df')
    st.write(r, '$frame', frame)
    return v_ref(r, 'DataFrame')


def ensure_axioms(st):
    """Projection axioms of the free constructor pd.setcol, added once (at the first pandas
    operation of the function, i.e. before any branching, so that they stay in the common prefix of
    the path conditions when paths are merged)."""
    if st.ghost.get('pd_axioms'):
        return
    st.ghost['pd_axioms'] = True
    f, c, v = z3.Consts('pd!f pd!c pd!v', Val)
    t = uf('pd.setcol', Val, Val, Val, Val)(f, c, v)
    st.pc.append(z3.ForAll([f, c, v], z3.And(uf('pd.setcol_base', Val, Val)(t) == f,
                                             uf('pd.setcol_name', Val, Val)(t) == c,
                                             uf('pd.setcol_val', Val, Val)(t) == v), patterns=[t]))


def setcol(ex, st, frame, col, val):
    ensure_axioms(st)
    return uf('pd.setcol', Val, Val, Val, Val)(frame, col, val)


def concat(ex, st, n, part_at):
    """A fresh table value naming the concatenation, labelled with its projections:
    pd.nparts(t) == n and pd.part(t, j) == part_at(j) (the table value of the j-th frame)."""
    t = z3.Const(fresh_name('pd!concat'), Val)
    j = z3.Int(fresh_name('cj'))
    st.assume(uf('pd.nparts', Val, I)(t) == n)
    st.assume(z3.ForAll([j], uf('pd.part', Val, I, Val)(t, j) == part_at(j),
                        patterns=[uf('pd.part', Val, I, Val)(t, j)]))
    return t


@lib.hook('ref_subscript')
def _df_subscript(ex, st, obj, idx, node):
    if not mine(ex):
        return None
    if is_df(obj) and idx.kind == 'str':
        ex.ctx.note('LIBSPEC pandas df[col]: free constructor pd.col(frame, col)')
        return mk_series(uf('pd.col', Val, Val, Val)(frame_of(st, obj), idx.t))
    if is_df(obj) and is_series(idx):
        ex.ctx.note('LIBSPEC pandas df[mask]: free constructor pd.filter(frame, mask), a new frame object')
        return mk_df(ex, st, uf('pd.filter', Val, Val, Val)(frame_of(st, obj), idx.t))
    return None


@lib.hook('ref_attr')
def _series_attr(ex, st, obj, name, node):
    if not mine(ex):
        return None
    if is_series(obj) and name == 'values':
        return V(obj.t, TRef('SeriesValues'))
    return None


@lib.hook('ref_contains')
def _series_contains(ex, st, container, item, node):
    if not mine(ex):
        return None
    if container.kind == 'ref' and container.ty.cls == 'SeriesValues':
        ex.ctx.note('LIBSPEC pandas `x in series.values`: uninterpreted membership pd.has(series, x)')
        return uf('pd.has', Val, Val, B)(container.t, ex.box(st, item))
    return None


@lib.hook('ref_method')
def _pd_method(ex, st, recv, name, args, kwargs, node):
    if not mine(ex):
        return None
    if is_df(recv) and name == 'copy' and not args:
        ex.ctx.note('LIBSPEC pandas df.copy(): a new frame object with the same table value')
        return mk_df(ex, st, frame_of(st, recv))
    if is_series(recv) and name == 'isin' and len(args) == 1 and args[0].kind == 'set':
        ex.ctx.note('LIBSPEC pandas series.isin(set): free constructor pd.isin(series, members)')
        return mk_series(uf('pd.isin', Val, _DOM, Val)(recv.t, st.set_dom(args[0])))
    if is_df(recv) and name == 'sample':
        if args or 'n' not in kwargs:
            raise Unsupported('DataFrame.sample without n=')
        rep = kwargs.get('replace')
        # round 3 (agent m2): replace=True is no longer out of subset: the sample is labelled pd.sample_replace == b and the
        # contracts require "without replacement" (the choice set contains no alternative twice)
        if rep is not None and rep.lit is not True and rep.lit is not False:
            raise Unsupported('DataFrame.sample: computed replace=')
        with_replacement = bool(rep.lit) if rep is not None else False
        if 'axis' in kwargs and kwargs['axis'].lit != 'index':
            raise Unsupported("DataFrame.sample: axis must be 'index'")
        # ignore_index only changes the row labels of the sample; labels are modelled for the final concatenation only
        # (pd.renumbered), so any literal is accepted
        if 'ignore_index' in kwargs and kwargs['ignore_index'].lit not in (True, False):
            raise Unsupported('DataFrame.sample: computed ignore_index')
        if set(kwargs) - {'n', 'replace', 'axis', 'ignore_index'}:
            raise Unsupported('DataFrame.sample: unmodelled keyword')
        if st.spec:
            raise Unsupported('DataFrame.sample inside a specification')
        x = z3.Const(fresh_name('pd!sample'), Val)
        st.assume(uf('pd.sample_src', Val, Val)(x) == frame_of(st, recv))
        st.assume(uf('pd.sample_n', Val, I)(x) == as_int(kwargs['n']))
        st.assume(uf('pd.sample_replace', Val, B)(x) == z3.BoolVal(with_replacement))
        ex.ctx.note('LIBSPEC pandas df.sample(n=k, replace=False): a fresh table value of k distinct rows of df '
                    '(labels sample_src/sample_n); absence of a pandas ValueError (0 <= k <= rows) is assumed')
        return mk_df(ex, st, x)
    return None


def _concat(ex, st, args, kwargs, node):
    if len(args) != 1 or args[0].kind != 'list' or set(kwargs) - {'ignore_index', 'axis'}:
        raise Unsupported('pandas.concat: unmodelled call shape')
    if 'axis' in kwargs:
        raise Unsupported('pandas.concat along columns is not modelled')
    lst = args[0]
    fr = st.field('$frame')
    ety = lst.ty.args[0] if lst.ty.args else None
    if lst.items is not None and lst.items and all(is_df(it) for it in lst.items):
        pass                                  # a list display of frames
    elif not (ety is None or ety.kind == 'any' or (ety.kind == 'ref' and ety.cls == 'DataFrame')):
        raise Unsupported('pandas.concat of a list that is not known to hold frames')
    # always read the list from the heap (never from the concrete snapshot)
    n = st.list_len(lst)
    elems = st.list_elems(lst)
    parts = lambda j: z3.Select(fr, Val.rv(z3.Select(elems, j)))
    ex.ctx.note('LIBSPEC pandas.concat(frames, ignore_index=b): a table value with projections pd.nparts / pd.part and the '
                'label pd.renumbered == b (rows labelled 0..n-1 iff ignore_index=True)')
    t = concat(ex, st, n, parts)
    # round 3 (agent m2): whether the rows of the result are renumbered 0..n-1 -- process_row names the columns
    # `<col>_<row label>`, so the label of a row must be its position in the sample
    ign = kwargs.get('ignore_index')
    if ign is None:
        renum = z3.BoolVal(False)
    elif ign.lit is True or ign.lit is False:
        renum = z3.BoolVal(ign.lit)
    else:
        raise Unsupported('pandas.concat: computed ignore_index')
    st.assume(uf('pd.renumbered', Val, B)(t) == renum)
    return mk_df(ex, st, t)


_orig_call_lib = lib.call_lib


def _call_lib(ex, st, dotted, args, kwargs, node):
    if dotted == 'pandas.concat' and mine(ex):
        return _concat(ex, st, args, kwargs, node)
    return _orig_call_lib(ex, st, dotted, args, kwargs, node)


lib.call_lib = _call_lib

# --- len(df) ---------------------------------------------------------------------------------
_orig_len = lib.BUILTINS['len']


def _len(ex, st, args, kw, node):
    if mine(ex) and len(args) == 1 and is_df(args[0]):
        n = uf('pd.nrows', Val, I)(frame_of(st, args[0]))
        st.assume(n >= 0)
        ex.ctx.note('LIBSPEC len(df): pd.nrows(frame) >= 0')
        return v_int(n)
    return _orig_len(ex, st, args, kw, node)


lib.BUILTINS['len'] = _len

# --- series == x ------------------------------------------------------------------------------
_orig_compare = symexec.Executor.compare


def _compare(self, st, op, l, r, node):
    if mine(self) and isinstance(op, ast.Eq) and is_series(l) and not is_series(r):
        self.ctx.note('LIBSPEC pandas series == x: free constructor pd.eq(series, x) (a mask)')
        return mk_series(uf('pd.eq', Val, Val, Val)(l.t, self.box(st, r)))
    if mine(self) and isinstance(op, ast.NotEq) and is_series(l) and not is_series(r):
        self.ctx.note('LIBSPEC pandas series != x: free constructor pd.ne(series, x) (a mask, unrelated to pd.eq)')
        return mk_series(uf('pd.ne', Val, Val, Val)(l.t, self.box(st, r)))
    return _orig_compare(self, st, op, l, r, node)


symexec.Executor.compare = _compare

# --- df[col] = v --------------------------------------------------------------------------------
_orig_store = symexec.Executor.store_subscript


def _store_subscript(self, st, obj, sl, v, node):
    if mine(self) and obj.kind == 'ref' and obj.ty.cls == 'DataFrame':
        idx = self.ev(st, sl)
        if idx.kind != 'str':
            raise Unsupported(f'DataFrame column assignment with a non-string key ({idx.kind} {idx.py})')
        self.ctx.note('LIBSPEC pandas df[col] = v: in-place, $frame := pd.setcol(frame, col, v)')
        r = as_ref(obj)
        st.write(r, '$frame', setcol(self, st, st.read(r, '$frame'), idx.t, self.box(st, v)))
        return
    return _orig_store(self, st, obj, sl, v, node)


symexec.Executor.store_subscript = _store_subscript
