"""libext (C17 round 3, agent c17d): the deductive tree semantics of C05 (pyvc/libext/c05c_tree.py, specs/c05c_specs.py,
contracts/c05c_nodes.py) is made available to the functions of property C17.

SCOPE: nothing changes for any other property.  For C17 the c05c engine extension (nodes built under a binder as terms
mk!K(args), isinstance with a tuple of classes, sum-congruence lemma, cut rule, hypothesis-subset discharge strategy) is
active for every function under contract EXCEPT those listed in KEEP_CORE (piecewise_function: its proof needs the core's
sum-zero-tail lemma, which the c05c extension drops), and only once contracts/c05c_nodes.py has been loaded
(c05c_tree.ENABLED).  The c05c files are not edited: the scope test `_mine` of that module is wrapped here.
"""
from pyvc.libext import c05c_tree as _T

PROP = 'C17'
KEEP_CORE = {'models.piecewise.piecewise_function'}

_orig_mine = _T._mine


def _mine(ex):
    if ex.ctx.prop == PROP:
        if not _T.ENABLED or getattr(ex.ctx, 'fn_label', '') in KEEP_CORE:
            return False
        _T._patch_discharge()
        return True
    return _orig_mine(ex)


_T._mine = _mine
if PROP not in _T.PROPS:
    _T.PROPS = tuple(_T.PROPS) + (PROP,)


# ---- `lst += [a, b, ...]` with a list DISPLAY on the right ------------------------------------------------------
# ENGINE  the core models every in-place extension by a lambda array (j < len ? old[j] : other[j - len]); for a display of
#         known items the same update is the sequence of appends  lst.append(a); lst.append(b); ...  (Python semantics of
#         list.__iadd__ with a list argument), i.e. plain array stores, which keeps the loop obligations of
#         piecewise_variables (`results += [bioMax(...)]`) first-order.  Active for C17 only.
from pyvc import lib as _lib                      # noqa: E402
from pyvc.vals import v_none as _v_none           # noqa: E402

_orig_list_extend = _lib.list_extend


def _list_extend(ex, st, lst, other):
    if (ex.ctx.prop == PROP and lst.kind == 'list' and other.kind == 'list' and other.items is not None
            and 0 < len(other.items) <= 4 and not st.spec):
        for it in other.items:
            _lib.list_method(ex, st, lst, 'append', [it], {}, None)
        return
    return _orig_list_extend(ex, st, lst, other)


_lib.list_extend = _list_extend


# ---- isinstance(x, int) / isinstance(x, float) on a value of unknown kind -----------------------------------------
# LIBSPEC the core reads `isinstance(x, int)` as  num(x) and IsInt(x) and is_pyint(x)  and `isinstance(x, float)` as
#         num(x) and not is_pyint(x)  with an uninterpreted predicate is_pyint; the fact "a Python int is an integer"
#         (is_pyint(x) -> IsInt(value of x)) is missing, so `isinstance(x, (int, float, bool))` is not provable for a
#         number of unknown kind (an element of a list[float | None]).  The fact is added for the tested term (C17 only).
import z3 as _z3                                           # noqa: E402
from pyvc import vals as _VV                               # noqa: E402
from pyvc.vals import Val as _Val, uf as _uf               # noqa: E402

_orig_isinstance1 = _lib._isinstance1


def _isinstance1(ex, st, v, cv):
    if ex.ctx.prop == PROP and v.kind in ('any', 'opt') and v.t is not None:
        t = v.t
        st.assume(_z3.Implies(_uf('is_pyint', _Val, _VV.B)(t), _z3.And(_Val.is_num(t), _z3.IsInt(_Val.nv(t)))))
    return _orig_isinstance1(ex, st, v, cv)


_lib._isinstance1 = _isinstance1


# ---- type(x) of a value of unknown kind -----------------------------------------------------------------------
# LIBSPEC type(x) for a value whose kind is not known statically is an opaque value typeof!(x) (uninterpreted function of
#         x); piecewise_variables only renders it in an error message.  C17 only.
from pyvc.vals import ANY as _ANY, V as _V       # noqa: E402

_orig_b_type = _lib.BUILTINS['type']


def _b_type(ex, st, args, kw, node):
    if ex.ctx.prop == PROP and len(args) == 1 and args[0].kind in ('any', 'opt') and args[0].t is not None:
        return _V(_uf('typeof!', _Val, _Val)(args[0].t), _ANY)
    return _orig_b_type(ex, st, args, kw, node)


_lib.BUILTINS['type'] = _b_type


# ---- flow-sensitive class of an untyped operand ------------------------------------------------------------------
# ENGINE  `if isinstance(v, str): v = Variable(v)` / `if not isinstance(v, Variable): raise ...` leave the local `v` with the
#         static type `any` (the core does not refine types along a path), and `v - t` on an untyped operand is an
#         uninterpreted op_sub.  Here, for C17, the operand of an arithmetic operator whose static type is `any` is re-typed
#         as a reference of class K when the PATH CONDITION ENTAILS (solver check, unsat of the negation) that it is a
#         reference to an object whose class is K or a subclass (K tried: Variable, Beta, Expression); the operator is then
#         dispatched to K's overload (contract of Expression.__sub__ & co.).  Nothing is assumed: a failed check leaves
#         the core behaviour.
from pyvc import symexec as _symexec             # noqa: E402
from pyvc.vals import TRef as _TRef              # noqa: E402

_REFINE_TO = ('Variable', 'Beta', 'Expression')


def _class_fact(ex, t, cname):
    ci = ex.repo.find_class(cname)
    ids = [ex.class_id(c.name) for c in ex.repo.subclasses(ci.name)]
    return ci, _z3.And(_Val.is_ref(t), _z3.Or(*[ex.cls_of(_Val.rv(t)) == i for i in ids]))


def _refined(ex, st, v):
    if v.kind != 'any' or v.t is None or st.spec:
        return v
    from pyvc.verify import heap_closure
    t = v.t
    # the result depends on the whole path condition: cached per (term, exact path condition, binders, guards) on the executor
    cache = ex.__dict__.setdefault('_c17d_refine', {})
    key = (t.get_id(), hash(tuple(h.get_id() for h in st.pc)), tuple(g.get_id() for _, g in st.bound), tuple(g.get_id() for g in st.guards))
    if key in cache:
        return cache[key]
    # under a binder the bound variable is a free constant of the check, constrained by its range (and the active guards)
    base = list(st.pc) + heap_closure(st) + _VV.ATOMS.axioms() + [g for _, g in st.bound] + list(st.guards)

    def entailed(fact, tmo):
        s = _z3.Solver()
        s.set('timeout', tmo)
        s.add(*base)
        s.add(_z3.Not(fact))
        return str(s.check()) == 'unsat'
    out = v
    ci, fact = _class_fact(ex, t, 'Expression')
    if entailed(fact, 3000):
        out = _V(t, _TRef(ex.repo.class_key(ci)))
        cname = 'Expression'
        for special in _REFINE_TO:
            if special == 'Expression':
                continue
            ci2, fact2 = _class_fact(ex, t, special)
            if entailed(fact2, 1000):
                out, cname = _V(t, _TRef(ex.repo.class_key(ci2))), special
                break
        ex.ctx.note(f'ENGINE c17d: untyped operand re-typed as {cname} (entailed by the path condition)')
    cache[key] = out
    return out


_orig_binop = _symexec.Executor.binop


def _binop(self, st, op, l, r, node):
    if self.ctx.prop == PROP and not st.spec:
        if l.kind == 'any':
            l = _refined(self, st, l)
        if r.kind == 'any':
            r = _refined(self, st, r)
    return _orig_binop(self, st, op, l, r, node)


_symexec.Executor.binop = _binop


# ---- enumerate(x) / len(x) of an Optional list -----------------------------------------------------------------------
# ENGINE  `enumerate(betas)` where `betas: list | None`: the core's view has untyped elements.  Python raises TypeError for
#         enumerate(None): the use becomes the obligation safe:none (not None on this path) and the inner list is iterated.
_orig_b_enumerate = _lib.BUILTINS['enumerate']


def _b_enumerate(ex, st, args, kw, node):
    if ex.ctx.prop == PROP and args and not st.spec:
        if args[0].kind == 'opt':
            args = [ex.unopt(st, args[0], node, 'enumerate')] + list(args[1:])
        if not st.bound and ex.frame.depth == 0:
            # paths that ran different loops are kept apart at joins (`if betas is None: <loop creating the default
            # parameters>`: joining would merge a typed parameter list with a local list and lose the element type);
            # State.ghost keys differ -> no merge: more paths, never fewer facts
            st.ghost[('c17d-enumerate', getattr(node, 'lineno', 0))] = True
    return _orig_b_enumerate(ex, st, args, kw, node)


_lib.BUILTINS['enumerate'] = _b_enumerate


# ---- the path that creates the Variable node itself is kept apart from the path that received it ------------------------
# ENGINE  `if isinstance(variable, Variable): the_variable = variable / elif isinstance(variable, str): the_variable =
#         Variable(f'{variable}')`: a join makes every heap field an ite over the two paths.  A path that built a Variable node
#         (outside a binder) carries a ghost mark: no merge with the other path (more paths, never fewer facts).
_SPLIT_ON_VARIABLE = {'models.piecewise.piecewise_formula', 'models.piecewise.piecewise_as_variable'}


@_lib.hook('construct_special')
def _mark_built_variable(ex, st, ci, args, kwargs, node):
    if (ex.ctx.prop == PROP and ci.name == 'Variable' and not st.spec and not st.bound
            and getattr(ex.ctx, 'fn_label', '') in _SPLIT_ON_VARIABLE):
        st.ghost[('c17d-built', 'Variable')] = True
    return None


# ---- f'{x}' of a string of statically unknown kind ------------------------------------------------------------------
# LIBSPEC f'{x}' (one hole, no conversion, no format spec) of a str is the string itself.  The core applies this rule when
#         the static kind of x is `str`; here also when x is untyped and the path condition ENTAILS that it is a string
#         (`elif isinstance(variable, str): Variable(f'{variable}')`).  Otherwise the core's uninterpreted fmt!(x) is kept.
import ast as _ast                                # noqa: E402
from pyvc.vals import STR as _STR                 # noqa: E402

_orig_fstring = _lib.fstring


def _entails(st, fact, timeout=3000):
    from pyvc.verify import heap_closure
    s = _z3.Solver()
    s.set('timeout', timeout)
    s.add(*(list(st.pc) + heap_closure(st) + _VV.ATOMS.axioms() + [g for _, g in st.bound] + list(st.guards)))
    s.add(_z3.Not(fact))
    return str(s.check()) == 'unsat'


def _fstring(ex, st, node):
    if (ex.ctx.prop == PROP and len(node.values) == 1 and isinstance(node.values[0], _ast.FormattedValue)
            and node.values[0].conversion == -1 and node.values[0].format_spec is None):
        v = ex.ev(st, node.values[0].value)
        if v.kind == 'any' and v.t is not None and _entails(st, _Val.is_s(v.t)):
            ex.ctx.note("LIBSPEC f'{x}' of a string is the string itself (x untyped, a string on this path)")
            return _V(v.t, _STR)
    return _orig_fstring(ex, st, node)


_lib.fstring = _fstring


# ---- float.is_integer() ---------------------------------------------------------------------------------------------
# LIBSPEC x.is_integer() <=> x is an integer-valued real (same LIBSPEC as pyvc/libext/c12_ext.py, which is scoped to C12);
#         used by PowerConstant.__init__.  C17 only.
from pyvc.vals import as_real as _as_real, v_bool as _v_bool      # noqa: E402

_orig_value_method = _lib.value_method


def _value_method(ex, st, recv, name, args, kwargs, node):
    if ex.ctx.prop == PROP and name == 'is_integer' and recv.kind in ('real', 'int') and not args:
        ex.ctx.note('LIBSPEC float.is_integer(): the value is an integer-valued real')
        return _v_bool(_z3.IsInt(_as_real(recv)))
    return _orig_value_method(ex, st, recv, name, args, kwargs, node)


_lib.value_method = _value_method


# ---- float(x) of a number of statically unknown kind ---------------------------------------------------------------
# LIBSPEC float(x) for an untyped x is the core's uninterpreted float_of(x); added facts (Python semantics): float of a
#         number is the number, float(True) == 1.0, float(False) == 0.0.  Used by Expression.__pow__ (`float(other)`).  C17 only.
_orig_b_float = _lib.BUILTINS['float']


def _b_float(ex, st, args, kw, node):
    r = _orig_b_float(ex, st, args, kw, node)
    if ex.ctx.prop == PROP and len(args) == 1 and args[0].kind in ('any', 'opt') and args[0].t is not None:
        t = args[0].t
        rr = _as_real(r)
        st.assume(_z3.Implies(_Val.is_num(t), rr == _Val.nv(t)))
        st.assume(_z3.Implies(_Val.is_b(t), rr == _z3.If(_Val.bv(t), _z3.RealVal(1), _z3.RealVal(0))))
    return r


_lib.BUILTINS['float'] = _b_float


# ---- attribute / method of an untyped receiver whose class is entailed by the path -------------------------------------
# ENGINE  `isinstance(other, Numeric)` ... `other.get_value()`, `isinstance(variable, Variable)` ... `variable.name`: same
#         re-typing by entailment as for the operands of arithmetic operators (see _refined above).
_REFINE_TO = ('Numeric', 'Variable', 'Beta', 'Expression')
_orig_get_attr = _symexec.Executor.get_attr


def _get_attr(self, st, obj, name, node=None):
    if self.ctx.prop == PROP and obj.kind == 'any' and not st.spec:
        obj = _refined(self, st, obj)
    return _orig_get_attr(self, st, obj, name, node)


_symexec.Executor.get_attr = _get_attr


# ---- sum_range with concrete bounds: unfold every prefix ------------------------------------------------------------
# ENGINE  the core unfolds a sum once at its upper end (S(hi) = S(hi-1) + f(hi-1)) and leaves the other steps to the
#         quantified recurrence, whose pattern S(q+1) does not match S(4); for a sum over a list DISPLAY of known length
#         (bioMultSum([r1, ..., r5]) in triangularpdf) every prefix is unfolded explicitly (instances of the recurrence).
from pyvc.vals import as_int as _as_int, v_int as _v_int       # noqa: E402

_inner_sum_range = _lib.SPEC_BUILTINS['sum_range']


def _sum_range_unfold(ex, st, args, kw, node):
    res = _inner_sum_range(ex, st, args, kw, node)
    if ex.ctx.prop == PROP and len(args) == 3 and not st.bound:
        lo, hi = _z3.simplify(_as_int(args[1])), _z3.simplify(_as_int(args[2]))
        if _z3.is_int_value(lo) and _z3.is_int_value(hi) and 2 <= hi.as_long() - lo.as_long() <= 8:
            for b in range(hi.as_long() - 1, lo.as_long(), -1):
                _inner_sum_range(ex, st, [args[0], args[1], _v_int(_z3.IntVal(b))], kw, node)
    return res


_lib.SPEC_BUILTINS['sum_range'] = _sum_range_unfold
