"""libext (C17 round 3, agent c17d): the deductive tree semantics of C05 (pyvc/libext/c05c_tree.py, specs/c05c_specs.py,
contracts/c05c_nodes.py) is made available to the functions of property C17.

SCOPE: nothing changes for any other property.  For C17 the c05c engine extension (nodes built under a binder as terms
mk!K(args), isinstance with a tuple of classes, sum-congruence lemma, cut rule, hypothesis-subset discharge strategy) is
active for every function under contract EXCEPT those listed in KEEP_CORE (piecewise_function: its proof needs the core's
sum-zero-tail lemma, which the c05c extension drops), and only once contracts/c05c_nodes.py has been loaded
(c05c_tree.ENABLED).  The c05c files are not edited: the scope test `_mine` of that module is wrapped here.
"""
from pyvc.libext import c05c_tree as _T

PROP = 'C17'
KEEP_CORE = {'models.piecewise.piecewise_function'}

_orig_mine = _T._mine


def _mine(ex):
    if ex.ctx.prop == PROP:
        if not _T.ENABLED or getattr(ex.ctx, 'fn_label', '') in KEEP_CORE:
            return False
        _T._patch_discharge()
        return True
    return _orig_mine(ex)


_T._mine = _mine
if PROP not in _T.PROPS:
    _T.PROPS = tuple(_T.PROPS) + (PROP,)
