"""C16 engine extensions (all trusted, listed in props/C16.py TRUSTED):
  1. install(): constants imported from another repo module; tuple(seq) of symbolic length; line-free names of
     callee-precondition obligations   (opt-in, C16 contracts only)
  2. ref_attr hook: reading `Configuration.selections` (property with a setter) = the private list + class invariant
  3. LIBSPEC random.choices(population, k=K)

1. constants imported from another repo module.

`from biogeme.configuration import SEPARATOR` made the name evaluate to the opaque python value
('modglobal', module, name); any use (`SEPARATOR in name`, `s.split(SEPARATOR)`) then crashed
the executor.  `install()` (called by contracts/c16_*.py, after pyvc is fully imported) makes
`Executor.import_target` return the literal when the module-level assignment in the real AST is
a plain constant (str / int / float / bool / None).  It also lets `tuple(seq)` of a sequence
of symbolic length be a fresh list with the same elements.  Nothing else changes.
"""
import ast

_DONE = False


def install():
    global _DONE
    if _DONE:
        return
    import pyvc.symexec as SE
    orig = SE.Executor.import_target

    def import_target(self, dotted):
        v = orig(self, dotted)
        if v.kind == 'py' and v.py and v.py[0] == 'modglobal':
            g = self.repo.modules[v.py[1]].globals_.get(v.py[2])
            if isinstance(g, ast.Constant):
                return self._e_Constant(None, g)
        return v

    SE.Executor.import_target = import_target

    # tuple(<sequence of symbolic length>): modelled as a fresh list holding the same elements
    # (a tuple is immutable, so only len / indexing / iteration / comparison can observe it)
    import pyvc.lib as L
    orig_tuple = L.BUILTINS['tuple']

    def b_tuple(ex, st, args, kw, node):
        try:
            return orig_tuple(ex, st, args, kw, node)
        except L.Unsupported:
            ex.ctx.note('LIBSPEC tuple(seq): immutable copy modelled as a fresh list of the same elements')
            return L.BUILTINS['list'](ex, st, args, kw, node)

    L.BUILTINS['tuple'] = b_tuple

    # stable obligation names: the engine names callee preconditions `pre@callsite:<callee>:<label>@L<line>`; a line
    # number changes with any edit above the call, which the baseline's vacuity guard then reports as a vanished
    # obligation.  For C16 the `@L<line>` suffix is dropped (several call sites of one callee in one function get
    # the usual #1, #2 suffixes in source order); the line is still recorded in the obligation's `line` field.
    import re
    orig_goal = SE.Executor.spec_goal

    def spec_goal(self, st, kind, label, src, env, line=0, note='', witness=None):
        if kind == 'pre@callsite':
            label = re.sub(r'@L\d+$', '', label)
        return orig_goal(self, st, kind, label, src, env, line=line, note=note, witness=witness)

    SE.Executor.spec_goal = spec_goal
    _DONE = True


# `Configuration.selections` is a property with a setter: the class table keeps the last `def`
# (the setter), so a read `configuration.selections` became a bound method.  A read is the getter,
# i.e. the private field `__selections` (a list of SelectionTuple).  Registered globally: before,
# such a read was outside the subset.
from pyvc import lib as _L          # noqa: E402


@_L.hook('ref_attr')
def _configuration_selections(ex, st, obj, name, node):
    if name != 'selections' or obj.ty.cls is None or not str(obj.ty.cls).endswith('Configuration'):
        return None
    from pyvc.vals import V, as_ref
    ty = ex.ptype('list[biogeme.configuration.SelectionTuple]')
    v = V(st.read(as_ref(obj), '__selections'), ty)
    st.assume_type(v)
    # class invariant of Configuration (established by the setter: sorted + __check_list_validity):
    # no controller is listed twice
    import z3
    from pyvc.vals import Val, I
    a, b = z3.Int('c16!a'), z3.Int('c16!b')
    n, arr = st.list_len(v), st.list_elems(v)
    ctrl = st.field('controller')
    st.assume(z3.ForAll([a, b], z3.Implies(
        z3.And(0 <= a, a < n, 0 <= b, b < n, a != b),
        z3.Select(ctrl, Val.rv(z3.Select(arr, a))) != z3.Select(ctrl, Val.rv(z3.Select(arr, b))))))
    ex.ctx.note('A-CONFIG-INV: Configuration.selections lists no controller twice (class invariant established by the '
                'property setter through __check_list_validity)')
    return v


@_L.lib_handler('random.choices')
def _random_choices(ex, st, args, kwargs, node):
    """LIBSPEC random.choices(population, k=K): a fresh list of max(K, 0) elements, each a member of the
    population (nothing else is known about them: every draw is covered)."""
    import z3
    from pyvc.vals import I, Val, fresh_int, fresh_name
    if len(args) != 1 or set(kwargs) != {'k'}:
        raise _L.Unsupported('random.choices with weights')
    n, arr, ety = _L.seq_parts(ex, st, args[0])
    k = _L.as_int(kwargs['k'])
    ex.ctx.note('LIBSPEC random.choices(population, k): k members of the population, otherwise arbitrary')
    if ex.catches(st, 'IndexError'):
        raise _L.Unsupported('random.choices under an IndexError handler')
    ex.oblige(st, 'safe:index', 'random.choices', z3.Or(k <= 0, n > 0), node, note='random.choices from an empty population')
    out = z3.Const(fresh_name('choices'), z3.ArraySort(I, Val))
    m = z3.If(k > 0, k, 0)
    # skolemised: out[j] == population[pick[j]] with 0 <= pick[j] < n
    j = z3.Int(fresh_name('j'))
    pick = z3.Const(fresh_name('pick'), z3.ArraySort(I, I))
    st.assume(z3.ForAll([j], z3.Implies(z3.And(j >= 0, j < m), z3.And(
        z3.Select(pick, j) >= 0, z3.Select(pick, j) < n,
        z3.Select(out, j) == z3.Select(arr, z3.Select(pick, j))))))
    return st.new_list_sym(m, out, ety)
